/*
 * Stub replacement for biTStream <bitstream/mpeg/h264.h> (parse-only).
 * ISO/IEC 14496-10 / ITU-T H.264 NAL units, and ISO/IEC 14496-15 avcC.
 */
#ifndef __BITSTREAM_MPEG_H264_H__
#define __BITSTREAM_MPEG_H264_H__

#include <stdint.h>
#include <stdbool.h>
#include <string.h>
#include <bitstream/common.h>

#ifdef __cplusplus
extern "C"
{
#endif

/*****************************************************************************
 * H264 network abstraction layer (annex B): 00 00 01 + NAL header byte
 *****************************************************************************/
#define H264NAL_HEADER_SIZE         4

/* ITU-T H.264 table 7-1 */
#define H264NAL_TYPE_NONIDR         1
#define H264NAL_TYPE_PARTA          2
#define H264NAL_TYPE_PARTB          3
#define H264NAL_TYPE_PARTC          4
#define H264NAL_TYPE_IDR            5
#define H264NAL_TYPE_SEI            6
#define H264NAL_TYPE_SPS            7
#define H264NAL_TYPE_PPS            8
#define H264NAL_TYPE_AUD            9
#define H264NAL_TYPE_ENDSEQ         10
#define H264NAL_TYPE_ENDSTR         11
#define H264NAL_TYPE_FILLER         12
#define H264NAL_TYPE_SPSX           13
#define H264NAL_TYPE_PFX            14 /* name from memory */
#define H264NAL_TYPE_SSPS           15

/* NAL header byte given directly (nal_ref_idc, nal_unit_type) */
static inline uint8_t h264nalst_get_ref(uint8_t start)
{
    return (start & 0x60) >> 5;
}

static inline uint8_t h264nalst_get_type(uint8_t start)
{
    return start & 0x1f;
}

static inline bool h264naltype_is_vcl(uint8_t type)
{
    return type >= H264NAL_TYPE_NONIDR && type <= H264NAL_TYPE_IDR;
}

/*****************************************************************************
 * H264 supplemental enhancement information (table D.1, table D-1)
 *****************************************************************************/
#define H264SEI_BUFFERING_PERIOD    0
#define H264SEI_PIC_TIMING          1

#define H264SEI_STRUCT_FRAME        0
#define H264SEI_STRUCT_TOP          1
#define H264SEI_STRUCT_BOT          2
#define H264SEI_STRUCT_TOP_BOT      3
#define H264SEI_STRUCT_BOT_TOP      4
#define H264SEI_STRUCT_TOP_BOT_TOP  5
#define H264SEI_STRUCT_BOT_TOP_BOT  6
#define H264SEI_STRUCT_DOUBLE       7
#define H264SEI_STRUCT_TRIPLE       8

/*****************************************************************************
 * H264 sequence parameter set
 *****************************************************************************/
/* startcode (3) + NAL header (1) + profile (1) + compat (1) + level (1) */
#define H264SPS_HEADER_SIZE         7
#define H264SPS_ID_MAX              32

#define H264SPS_CHROMA_MONO         0
#define H264SPS_CHROMA_420          1
#define H264SPS_CHROMA_422          2
#define H264SPS_CHROMA_444          3

#define H264VUI_AR_EXTENDED         255

/*****************************************************************************
 * H264 picture parameter set
 *****************************************************************************/
#define H264PPS_ID_MAX              256

/*****************************************************************************
 * H264 slice (table 7-6, slice_type % 5)
 *****************************************************************************/
#define H264SLI_TYPE_P              0
#define H264SLI_TYPE_B              1
#define H264SLI_TYPE_I              2
#define H264SLI_TYPE_SP             3
#define H264SLI_TYPE_SI             4

/*****************************************************************************
 * H264 avcC structure (ISO/IEC 14496-15 AVCDecoderConfigurationRecord)
 *   [0] configurationVersion = 1     [1] AVCProfileIndication
 *   [2] profile_compatibility        [3] AVCLevelIndication
 *   [4] 111111 + lengthSizeMinusOne  [5] 111 + numOfSequenceParameterSets
 *   { u16 length, SPS NAL } * nb_sps
 *   [0] numOfPictureParameterSets
 *   { u16 length, PPS NAL } * nb_pps
 *****************************************************************************/
#define H264AVCC_HEADER             6
#define H264AVCC_HEADER2            1
#define H264AVCC_SPS_HEADER         2
#define H264AVCC_PPS_HEADER         2

static inline void h264avcc_init(uint8_t *p)
{
    p[0] = 1; /* version */
    p[4] = 0xfc;
    p[5] = 0xe0;
}

static inline void h264avcc_set_profile(uint8_t *p, uint8_t val)
{
    p[1] = val;
}

static inline void h264avcc_set_profile_compatibility(uint8_t *p, uint8_t val)
{
    p[2] = val;
}

static inline void h264avcc_set_level(uint8_t *p, uint8_t val)
{
    p[3] = val;
}

static inline void h264avcc_set_length_size_1(uint8_t *p, uint8_t val)
{
    p[4] = 0xfc | val;
}

static inline uint8_t h264avcc_get_length_size_1(const uint8_t *p)
{
    return p[4] & 0x3;
}

static inline void h264avcc_set_nb_sps(uint8_t *p, uint8_t val)
{
    p[5] = 0xe0 | val;
}

static inline uint8_t h264avcc_get_nb_sps(const uint8_t *p)
{
    return p[5] & 0x1f;
}

static inline void h264avcc_spsh_set_length(uint8_t *p, uint16_t val)
{
    p[0] = val >> 8;
    p[1] = val & 0xff;
}

static inline uint16_t h264avcc_spsh_get_length(const uint8_t *p)
{
    return (p[0] << 8) | p[1];
}

static inline uint8_t *h264avcc_spsh_get_sps(const uint8_t *p)
{
    return (uint8_t *)p + H264AVCC_SPS_HEADER;
}

static inline uint8_t *h264avcc_get_spsh(const uint8_t *p, uint8_t n)
{
    p += H264AVCC_HEADER;
    while (n) {
        uint16_t length = h264avcc_spsh_get_length(p);
        p += H264AVCC_SPS_HEADER + length;
        n--;
    }
    return (uint8_t *)p;
}

static inline void h264avcc_set_nb_pps(uint8_t *p, uint8_t val)
{
    p = h264avcc_get_spsh(p, h264avcc_get_nb_sps(p));
    p[0] = val;
}

static inline uint8_t h264avcc_get_nb_pps(const uint8_t *p)
{
    p = h264avcc_get_spsh(p, h264avcc_get_nb_sps(p));
    return p[0];
}

static inline void h264avcc_ppsh_set_length(uint8_t *p, uint16_t val)
{
    p[0] = val >> 8;
    p[1] = val & 0xff;
}

static inline uint16_t h264avcc_ppsh_get_length(const uint8_t *p)
{
    return (p[0] << 8) | p[1];
}

static inline uint8_t *h264avcc_ppsh_get_pps(const uint8_t *p)
{
    return (uint8_t *)p + H264AVCC_PPS_HEADER;
}

static inline uint8_t *h264avcc_get_ppsh(const uint8_t *p, uint8_t n)
{
    p = h264avcc_get_spsh(p, h264avcc_get_nb_sps(p)) + H264AVCC_HEADER2;
    while (n) {
        uint16_t length = h264avcc_ppsh_get_length(p);
        p += H264AVCC_PPS_HEADER + length;
        n--;
    }
    return (uint8_t *)p;
}

static inline bool h264avcc_validate(const uint8_t *p, size_t size)
{
    if (size < H264AVCC_HEADER + H264AVCC_HEADER2)
        return false;
    /* don't check version */

    const uint8_t *end = p + size;
    uint8_t nb = h264avcc_get_nb_sps(p);
    const uint8_t *ph = p + H264AVCC_HEADER;
    while (nb--) {
        if (ph + H264AVCC_SPS_HEADER > end)
            return false;
        ph += H264AVCC_SPS_HEADER + h264avcc_spsh_get_length(ph);
    }

    if (ph + H264AVCC_HEADER2 > end)
        return false;
    nb = ph[0];
    ph += H264AVCC_HEADER2;
    while (nb--) {
        if (ph + H264AVCC_PPS_HEADER > end)
            return false;
        ph += H264AVCC_PPS_HEADER + h264avcc_ppsh_get_length(ph);
    }
    return ph <= end;
}

#ifdef __cplusplus
}
#endif

#endif
