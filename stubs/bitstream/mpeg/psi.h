/*
 * Stub replacement for biTStream <bitstream/mpeg/psi.h> (parse-only).
 * ISO/IEC 13818-1 PSI section header.
 */
#ifndef __BITSTREAM_MPEG_PSI_H__
#define __BITSTREAM_MPEG_PSI_H__

#include <stdint.h>
#include <stdbool.h>
#include <string.h>
#include <bitstream/common.h>

#ifdef __cplusplus
extern "C"
{
#endif

/*****************************************************************************
 * PSI section
 *****************************************************************************/
#define PSI_HEADER_SIZE         3
#define PSI_HEADER_SIZE_SYNTAX1 8
#define PSI_CRC_SIZE            4
#define PSI_MAX_SIZE            1021
#define PSI_PRIVATE_MAX_SIZE    4093

static inline bool psi_get_syntax(const uint8_t *p_section)
{
    return !!(p_section[1] & 0x80);
}

static inline uint16_t psi_get_length(const uint8_t *p_section)
{
    return ((p_section[1] & 0xf) << 8) | p_section[2];
}

static inline bool psi_validate(const uint8_t *p_section)
{
    if (psi_get_syntax(p_section)
         && (psi_get_length(p_section) < PSI_HEADER_SIZE_SYNTAX1
                                          - PSI_HEADER_SIZE + PSI_CRC_SIZE))
        return false;

    /* only do the CRC check when it is strictly necessary */

    return true;
}

#ifdef __cplusplus
}
#endif

#endif
