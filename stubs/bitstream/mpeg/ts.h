/*
 * Stub replacement for biTStream <bitstream/mpeg/ts.h> (parse-only).
 * ISO/IEC 13818-1 transport stream packet header and adaptation field.
 */
#ifndef __BITSTREAM_MPEG_TS_H__
#define __BITSTREAM_MPEG_TS_H__

#include <stdint.h>
#include <stdbool.h>
#include <string.h>
#include <bitstream/common.h>

#ifdef __cplusplus
extern "C"
{
#endif

/*****************************************************************************
 * TS header
 *****************************************************************************/
#define TS_SIZE             188
#define TS_HEADER_SIZE      4
#define TS_HEADER_SIZE_AF   6
#define TS_HEADER_SIZE_PCR  12

static inline void ts_init(uint8_t *p_ts)
{
    p_ts[0] = 0x47;
    p_ts[1] = 0x0;
    p_ts[2] = 0x0;
    p_ts[3] = 0x0;
}

static inline bool ts_get_transporterror(const uint8_t *p_ts)
{
    return !!(p_ts[1] & 0x80);
}

static inline void ts_set_unitstart(uint8_t *p_ts)
{
    p_ts[1] |= 0x40;
}

static inline bool ts_get_unitstart(const uint8_t *p_ts)
{
    return !!(p_ts[1] & 0x40);
}

static inline void ts_set_pid(uint8_t *p_ts, uint16_t i_pid)
{
    p_ts[1] &= ~0x1f;
    p_ts[1] |= (i_pid >> 8) & 0x1f;
    p_ts[2] = i_pid & 0xff;
}

static inline uint16_t ts_get_pid(const uint8_t *p_ts)
{
    return ((p_ts[1] & 0x1f) << 8) | p_ts[2];
}

static inline void ts_set_cc(uint8_t *p_ts, uint8_t i_cc)
{
    p_ts[3] &= ~0xf;
    p_ts[3] |= (i_cc & 0xf);
}

static inline uint8_t ts_get_cc(const uint8_t *p_ts)
{
    return p_ts[3] & 0xf;
}

static inline void ts_set_payload(uint8_t *p_ts)
{
    p_ts[3] |= 0x10;
}

static inline bool ts_has_payload(const uint8_t *p_ts)
{
    return !!(p_ts[3] & 0x10);
}

static inline void ts_set_adaptation(uint8_t *p_ts, uint8_t i_length)
{
    p_ts[3] |= 0x20;
    p_ts[4] = i_length;
    if (i_length)
        p_ts[5] = 0x0;
    if (i_length > 1)
        memset(&p_ts[6], 0xff, i_length - 1); /* stuffing */
}

static inline bool ts_has_adaptation(const uint8_t *p_ts)
{
    return !!(p_ts[3] & 0x20);
}

static inline uint8_t ts_get_adaptation(const uint8_t *p_ts)
{
    return p_ts[4];
}

static inline bool ts_validate(const uint8_t *p_ts)
{
    return p_ts[0] == 0x47;
}

/*****************************************************************************
 * TS adaptation field
 *****************************************************************************/
static inline void tsaf_set_discontinuity(uint8_t *p_ts)
{
    p_ts[5] |= 0x80;
}

static inline bool tsaf_has_discontinuity(const uint8_t *p_ts)
{
    return !!(p_ts[5] & 0x80);
}

static inline void tsaf_set_randomaccess(uint8_t *p_ts)
{
    p_ts[5] |= 0x40;
}

static inline bool tsaf_has_randomaccess(const uint8_t *p_ts)
{
    return !!(p_ts[5] & 0x40);
}

static inline void tsaf_set_pcr(uint8_t *p_ts, uint64_t i_pcr)
{
    p_ts[5] |= 0x10;
    p_ts[6] = (i_pcr >> 25) & 0xff;
    p_ts[7] = (i_pcr >> 17) & 0xff;
    p_ts[8] = (i_pcr >> 9) & 0xff;
    p_ts[9] = (i_pcr >> 1) & 0xff;
    p_ts[10] = 0x7e | ((i_pcr << 7) & 0x80);
    p_ts[11] = 0;
}

static inline void tsaf_set_pcrext(uint8_t *p_ts, uint16_t i_pcr_ext)
{
    p_ts[10] |= (i_pcr_ext >> 8) & 0x1;
    p_ts[11] = i_pcr_ext & 0xff;
}

static inline bool tsaf_has_pcr(const uint8_t *p_ts)
{
    return !!(p_ts[5] & 0x10);
}

static inline uint64_t tsaf_get_pcr(const uint8_t *p_ts)
{
    return ((uint64_t)p_ts[6] << 25) | (p_ts[7] << 17) | (p_ts[8] << 9) |
           (p_ts[9] << 1) | (p_ts[10] >> 7);
}

static inline uint64_t tsaf_get_pcrext(const uint8_t *p_ts)
{
    return ((p_ts[10] & 1) << 8) | p_ts[11];
}

/*****************************************************************************
 * TS payload gathering
 *****************************************************************************/
static inline bool ts_check_duplicate(uint8_t i_cc, uint8_t i_last_cc)
{
    return i_last_cc == i_cc;
}

static inline bool ts_check_discontinuity(uint8_t i_cc, uint8_t i_last_cc)
{
    return (i_last_cc + 17 - i_cc) % 16;
}

#ifdef __cplusplus
}
#endif

#endif
