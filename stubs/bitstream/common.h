/*
 * Stub replacement for biTStream <bitstream/common.h> (parse-only).
 */
#ifndef __BITSTREAM_COMMON_H__
#define __BITSTREAM_COMMON_H__

#include <stdint.h>
#include <stdbool.h>
#include <string.h>
#include <stddef.h>

#endif
