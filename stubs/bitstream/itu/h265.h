/*
 * Stub replacement for biTStream <bitstream/itu/h265.h> (parse-only).
 * ITU-T H.265 NAL units, and ISO/IEC 14496-15 hvcC.
 */
#ifndef __BITSTREAM_ITU_H265_H__
#define __BITSTREAM_ITU_H265_H__

#include <stdint.h>
#include <stdbool.h>
#include <string.h>
#include <bitstream/common.h>

#ifdef __cplusplus
extern "C"
{
#endif

/*****************************************************************************
 * H265 network abstraction layer (annex B): 00 00 01 + 2-byte NAL header
 *   [3] forbidden_zero_bit(1) nal_unit_type(6) nuh_layer_id(1 msb)
 *   [4] nuh_layer_id(5 lsb) nuh_temporal_id_plus1(3)
 *****************************************************************************/
#define H265NAL_HEADER_SIZE         5

/* ITU-T H.265 table 7-1 */
#define H265NAL_TYPE_TRAIL_N        0
#define H265NAL_TYPE_TRAIL_R        1
#define H265NAL_TYPE_TSA_N          2
#define H265NAL_TYPE_TSA_R          3
#define H265NAL_TYPE_STSA_N         4
#define H265NAL_TYPE_STSA_R         5
#define H265NAL_TYPE_RADL_N         6
#define H265NAL_TYPE_RADL_R         7
#define H265NAL_TYPE_RASL_N         8
#define H265NAL_TYPE_RASL_R         9
#define H265NAL_TYPE_BLA_W_LP       16
#define H265NAL_TYPE_BLA_W_RADL     17
#define H265NAL_TYPE_BLA_N_LP       18
#define H265NAL_TYPE_IDR_W_RADL     19
#define H265NAL_TYPE_IDR_N_LP       20
#define H265NAL_TYPE_CRA            21
#define H265NAL_TYPE_IRAP_VCL22     22
#define H265NAL_TYPE_IRAP_VCL23     23
#define H265NAL_TYPE_VPS            32
#define H265NAL_TYPE_SPS            33
#define H265NAL_TYPE_PPS            34
#define H265NAL_TYPE_AUD            35
#define H265NAL_TYPE_EOS            36
#define H265NAL_TYPE_EOB            37
#define H265NAL_TYPE_FD             38
#define H265NAL_TYPE_PREF_SEI       39
#define H265NAL_TYPE_SUFF_SEI       40

static inline void h265nal_set_type(uint8_t *p_h265nal, uint8_t i_type)
{
    p_h265nal[3] &= 0x81;
    p_h265nal[3] |= i_type << 1;
}

static inline uint8_t h265nal_get_type(const uint8_t *p_h265nal)
{
    return (p_h265nal[3] & 0x7e) >> 1;
}

/* first NAL header byte given directly */
static inline uint8_t h265nalst_get_type(uint8_t start)
{
    return (start & 0x7e) >> 1;
}

/*****************************************************************************
 * H265 supplemental enhancement information (annex D, table D.2)
 *****************************************************************************/
#define H265SEI_BUFFERING_PERIOD    0
#define H265SEI_PIC_TIMING          1

#define H265SEI_STRUCT_FRAME        0
#define H265SEI_STRUCT_TOP          1
#define H265SEI_STRUCT_BOT          2
#define H265SEI_STRUCT_TOP_BOT      3
#define H265SEI_STRUCT_BOT_TOP      4
#define H265SEI_STRUCT_TOP_BOT_TOP  5
#define H265SEI_STRUCT_BOT_TOP_BOT  6
#define H265SEI_STRUCT_DOUBLE       7
#define H265SEI_STRUCT_TRIPLE       8
#define H265SEI_STRUCT_TOP_PREV_BOT 9
#define H265SEI_STRUCT_BOT_PREV_TOP 10
#define H265SEI_STRUCT_TOP_NEXT_BOT 11
#define H265SEI_STRUCT_BOT_NEXT_TOP 12

/*****************************************************************************
 * H265 profile, tier and level
 *****************************************************************************/
/* profile_space(2)+tier(1)+profile_idc(5), 32 compat flags, 48 constraint
 * bits = 88 bits */
#define H265PTL_PROFILE_SIZE        11

/*****************************************************************************
 * H265 video parameter set
 *****************************************************************************/
#define H265VPS_ID_MAX              16

/* general_level_idc = 30 * level */
#define H265VPS_LEVEL_1_0           30
#define H265VPS_LEVEL_2_0           60
#define H265VPS_LEVEL_2_1           63
#define H265VPS_LEVEL_3_0           90
#define H265VPS_LEVEL_3_1           93
#define H265VPS_LEVEL_4_0           120
#define H265VPS_LEVEL_4_1           123
#define H265VPS_LEVEL_5_0           150
#define H265VPS_LEVEL_5_1           153
#define H265VPS_LEVEL_5_2           156
#define H265VPS_LEVEL_6_0           180
#define H265VPS_LEVEL_6_1           183
#define H265VPS_LEVEL_6_2           186

/*****************************************************************************
 * H265 sequence parameter set
 *****************************************************************************/
#define H265SPS_ID_MAX              16

#define H265SPS_CHROMA_MONO         0
#define H265SPS_CHROMA_420          1
#define H265SPS_CHROMA_422          2
#define H265SPS_CHROMA_444          3

#define H265VUI_AR_EXTENDED         255

/*****************************************************************************
 * H265 picture parameter set
 *****************************************************************************/
#define H265PPS_ID_MAX              64

/*****************************************************************************
 * H265 slice (table 7-7)
 *****************************************************************************/
#define H265SLI_TYPE_B              0
#define H265SLI_TYPE_P              1
#define H265SLI_TYPE_I              2

/*****************************************************************************
 * H265 hvcC structure (ISO/IEC 14496-15 HEVCDecoderConfigurationRecord)
 *   [0]      configurationVersion = 1
 *   [1]      general_profile_space(2) general_tier_flag(1) profile_idc(5)
 *   [2..5]   general_profile_compatibility_flags
 *   [6..11]  general_constraint_indicator_flags
 *   [12]     general_level_idc
 *   [13..14] 1111 + min_spatial_segmentation_idc(12)
 *   [15]     111111 + parallelismType(2)
 *   [16]     111111 + chroma_format_idc(2)
 *   [17]     11111 + bit_depth_luma_minus8(3)
 *   [18]     11111 + bit_depth_chroma_minus8(3)
 *   [19..20] avgFrameRate
 *   [21]     constantFrameRate(2) numTemporalLayers(3) temporalIdNested(1)
 *            lengthSizeMinusOne(2)
 *   [22]     numOfArrays
 *   array:   [0] array_completeness(1) reserved(1) NAL_unit_type(6)
 *            [1..2] numNalus, then { u16 nalUnitLength, NAL } * numNalus
 *****************************************************************************/
#define H265HVCC_HEADER             23
#define H265HVCC_ARRAY_HEADER       3
#define H265HVCC_NALU_HEADER        2

static inline void h265hvcc_init(uint8_t *p)
{
    p[0] = 1; /* version */
    p[1] = 0;
    p[13] = 0xf0;
    p[14] = 0;
    p[15] = 0xfc;
    p[16] = 0xfc;
    p[17] = 0xf8;
    p[18] = 0xf8;
    p[19] = 0;
    p[20] = 0;
    p[21] = 0;
    p[22] = 0;
}

static inline void h265hvcc_set_profile_space(uint8_t *p, uint8_t val)
{
    p[1] &= ~0xc0;
    p[1] |= (val << 6) & 0xc0;
}

static inline void h265hvcc_set_tier(uint8_t *p)
{
    p[1] |= 0x20;
}

static inline void h265hvcc_set_profile_idc(uint8_t *p, uint8_t val)
{
    p[1] &= ~0x1f;
    p[1] |= val & 0x1f;
}

static inline void h265hvcc_set_profile_compatibility(uint8_t *p, uint32_t val)
{
    p[2] = val >> 24;
    p[3] = (val >> 16) & 0xff;
    p[4] = (val >> 8) & 0xff;
    p[5] = val & 0xff;
}

static inline void h265hvcc_set_constraint_indicator(uint8_t *p, uint64_t val)
{
    p[6] = (val >> 40) & 0xff;
    p[7] = (val >> 32) & 0xff;
    p[8] = (val >> 24) & 0xff;
    p[9] = (val >> 16) & 0xff;
    p[10] = (val >> 8) & 0xff;
    p[11] = val & 0xff;
}

static inline void h265hvcc_set_level_idc(uint8_t *p, uint8_t val)
{
    p[12] = val;
}

static inline void h265hvcc_set_chroma_format(uint8_t *p, uint8_t val)
{
    p[16] = 0xfc | val;
}

static inline void h265hvcc_set_length_size_1(uint8_t *p, uint8_t val)
{
    p[21] &= ~0x3;
    p[21] |= val & 0x3;
}

static inline uint8_t h265hvcc_get_length_size_1(const uint8_t *p)
{
    return p[21] & 0x3;
}

static inline void h265hvcc_set_num_of_arrays(uint8_t *p, uint8_t val)
{
    p[22] = val;
}

static inline uint8_t h265hvcc_get_num_of_arrays(const uint8_t *p)
{
    return p[22];
}

static inline void h265hvcc_nalu_set_length(uint8_t *p, uint16_t val)
{
    p[0] = val >> 8;
    p[1] = val & 0xff;
}

static inline uint16_t h265hvcc_nalu_get_length(const uint8_t *p)
{
    return (p[0] << 8) | p[1];
}

static inline uint8_t *h265hvcc_nalu_get_nalu(const uint8_t *p)
{
    return (uint8_t *)p + H265HVCC_NALU_HEADER;
}

static inline void h265hvcc_array_set_nal_unit_type(uint8_t *p, uint8_t val)
{
    p[0] = 0x80 | (val & 0x3f); /* array_completeness = 1, from memory */
}

static inline uint8_t h265hvcc_array_get_nal_unit_type(const uint8_t *p)
{
    return p[0] & 0x3f;
}

static inline void h265hvcc_array_set_num_nalus(uint8_t *p, uint16_t val)
{
    p[1] = val >> 8;
    p[2] = val & 0xff;
}

static inline uint16_t h265hvcc_array_get_num_nalus(const uint8_t *p)
{
    return (p[1] << 8) | p[2];
}

static inline uint8_t *h265hvcc_array_get_nalu(const uint8_t *p, uint16_t n)
{
    p += H265HVCC_ARRAY_HEADER;
    while (n) {
        uint16_t length = h265hvcc_nalu_get_length(p);
        p += H265HVCC_NALU_HEADER + length;
        n--;
    }
    return (uint8_t *)p;
}

static inline uint8_t *h265hvcc_get_array(const uint8_t *p, uint8_t n)
{
    p += H265HVCC_HEADER;
    while (n) {
        uint16_t nalus = h265hvcc_array_get_num_nalus(p);
        p = h265hvcc_array_get_nalu(p, nalus);
        n--;
    }
    return (uint8_t *)p;
}

static inline bool h265hvcc_validate(const uint8_t *p, size_t size)
{
    if (size < H265HVCC_HEADER)
        return false;
    /* don't check version */

    const uint8_t *end = p + size;
    uint8_t arrays = h265hvcc_get_num_of_arrays(p);
    const uint8_t *a = p + H265HVCC_HEADER;
    while (arrays--) {
        if (a + H265HVCC_ARRAY_HEADER > end)
            return false;
        uint16_t nalus = h265hvcc_array_get_num_nalus(a);
        a += H265HVCC_ARRAY_HEADER;
        while (nalus--) {
            if (a + H265HVCC_NALU_HEADER > end)
                return false;
            a += H265HVCC_NALU_HEADER + h265hvcc_nalu_get_length(a);
        }
    }
    return a <= end;
}

#ifdef __cplusplus
}
#endif

#endif
