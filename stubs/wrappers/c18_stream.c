/* Parsed, never compiled into anything or run: gives the extractor function
 * bodies for the statement macros of ubuf_block_stream.h, whose text comes
 * from /repo's header at every run (C18 R-stream). */
#include <upipe/ubase.h>
#include <upipe/ubuf.h>
#include <upipe/ubuf_block.h>
#include <upipe/ubuf_block_stream.h>

uint32_t upv_c18_read_bits(struct ubuf_block_stream *s, unsigned int nb)
{
    ubuf_block_stream_fill_bits(s, nb);
    uint32_t v = ubuf_block_stream_show_bits(s, nb);
    ubuf_block_stream_skip_bits(s, nb);
    return v;
}

uint32_t upv_c18_peek_bits(struct ubuf_block_stream *s, unsigned int nb)
{
    ubuf_block_stream_fill_bits(s, nb);
    return ubuf_block_stream_show_bits(s, nb);
}
