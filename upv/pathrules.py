"""Path rules over one function's CFG (DESIGN §3.1): must-pass-through,
must-follow, never-after, at the granularity of expression events.

An event matcher is a function node -> bool applied to every expression node
in evaluation order.  Helpers build matchers for calls, stores, loads and
returns; field matchers accept the macro-parameter name of a helper field
(`mp`, e.g. NB_UREFS) as well as the concrete field name.
"""
import re

from .facts import (strip, strip_all_casts, walk, postorder, is_assign,
                    is_incdec, const_of, enum_name, path_of)


# ---- matchers --------------------------------------------------------------

def _rx(p):
    return p if hasattr(p, 'match') else re.compile('^(?:%s)$' % p)


def m_call(name, **argp):
    """call to a function whose name matches regex `name`; argp: a0=..,
    a1=.. regexes on the argument's access path text"""
    rx = _rx(name)
    argrx = {int(k[1:]): _rx(v) for k, v in argp.items()}

    def f(n):
        if n.get('k') != 'call' or not n.get('fn') or not rx.match(n['fn']):
            return False
        for i, r in argrx.items():
            if i >= len(n['args']):
                return False
            p = path_of(n['args'][i]) or ''
            if not r.match(p):
                return False
        return True
    return f


def m_indirect(pathrx):
    rx = _rx(pathrx)

    def f(n):
        if n.get('k') != 'call' or n.get('fn'):
            return False
        return bool(rx.match(path_of(n.get('callee')) or ''))
    return f


def field_is(n, field):
    """n: mem node; field: concrete name, or MACRO parameter name, or
    (rec, field)"""
    if not isinstance(n, dict) or n.get('k') != 'mem':
        return False
    if isinstance(field, tuple):
        return n.get('rec') == field[0] and (n.get('f') == field[1] or n.get('mp') == field[1])
    return n.get('f') == field or n.get('mp') == field


def m_store(field, value=None):
    """assignment / inc-dec whose lvalue is the given field; value: None
    (any), 'null', an int, 'nonnull-const', or a matcher on the rhs"""
    def f(n):
        if is_assign(n):
            l = strip(n['lhs'])
            if not field_is(l, field):
                return False
            if value is None:
                return True
            if n['op'] != '=':
                return False
            r = n['rhs']
            if callable(value):
                return value(r)
            c = const_of(r)
            if value == 'null':
                return c == 0
            return c == value
        if is_incdec(n) and value is None:
            return field_is(strip(n.get('e')), field)
        return False
    return f


def m_incdec(field, op):
    def f(n):
        if is_incdec(n) and op in n['op']:
            return field_is(strip(n.get('e')), field)
        if is_assign(n) and n['op'] in ('+=', '-=') and field_is(strip(n['lhs']), field):
            return (n['op'] == '+=') == (op == '++')
        return False
    return f


def m_load(field):
    def f(n):
        return n.get('k') == 'mem' and field_is(n, field)
    return f


def m_return(namerx=None):
    rx = _rx(namerx) if namerx else None

    def f(n):
        if n.get('k') != 'return':
            return False
        if rx is None:
            return True
        e = n.get('e')
        en = enum_name(e) if isinstance(e, dict) else None
        if en and rx.match(en):
            return True
        c = const_of(e) if isinstance(e, dict) else None
        return c is not None and rx.match(str(c)) is not None
    return f


def m_any(*ms):
    return lambda n: any(m(n) for m in ms)


# ---- event positions -------------------------------------------------------

class Events:
    """all expression nodes of a function in evaluation order, per block"""

    def __init__(self, fn):
        self.fn = fn
        self.seq = {}
        for bid in fn.blocks:
            lst = []
            for si, st in enumerate(fn.stmts(bid)):
                for x in postorder(st):
                    lst.append(x)
            self.seq[bid] = lst

    def find(self, matcher):
        out = []
        for bid, lst in self.seq.items():
            for i, x in enumerate(lst):
                if matcher(x):
                    out.append((bid, i, x))
        return out

    def reach(self, start, targets, avoid, from_entry=False):
        """positions of `targets` reachable from position `start` (exclusive)
        without passing an `avoid` event.  start=(bid, idx) or None with
        from_entry.  Returns (list of reached target positions, exit
        reached?)"""
        fn = self.fn
        hits = []
        exit_reached = False
        seen = set()
        work = [(fn.entry, 0)] if from_entry else [(start[0], start[1] + 1)]
        while work:
            bid, i0 = work.pop()
            if i0 == 0:
                if bid in seen:
                    continue
                seen.add(bid)
            lst = self.seq.get(bid, [])
            stopped = False
            for i in range(i0, len(lst)):
                x = lst[i]
                if targets(x):
                    hits.append((bid, i, x))
                if avoid is not None and avoid(x):
                    stopped = True
                    break
            if stopped:
                continue
            if fn.blocks[bid].get('noret'):
                continue
            if bid == fn.exit:
                exit_reached = True
                continue
            for s in fn.succ[bid]:
                if s is not None and s not in seen:
                    work.append((s, 0))
        return hits, exit_reached


def must_precede(ev, a, b):
    """every occurrence of b is reached only through an a: returns the list
    of b occurrences reachable from the entry while avoiding a"""
    hits, _ = ev.reach(None, b, a, from_entry=True)
    # an event that is both a and b (same node) counts as preceded
    return [h for h in hits if not a(h[2])]


def must_follow(ev, a, b):
    """after every a, every path to the function exit passes a b: returns
    the a occurrences from which the exit is reachable avoiding b"""
    bad = []
    for pos in ev.find(a):
        _, ex = ev.reach((pos[0], pos[1]), lambda n: False, b)
        if ex:
            bad.append(pos)
    return bad


def never_after(ev, a, b, reset=None):
    """no b is reachable after an a (unless a reset event intervenes):
    returns [(a position, b position)]"""
    bad = []
    for pos in ev.find(a):
        hits, _ = ev.reach((pos[0], pos[1]), b, reset)
        for h in hits:
            bad.append((pos, h))
    return bad


def control_dependent(fn, ev, pos, condmatch):
    """is the event at pos guarded: does some dominating branch condition
    match condmatch(cond tree, polarity needed to reach pos)?"""
    bid = pos[0]
    dom = fn.dominators()
    # an arm that IS the block of the event guards it only if that edge is the block's only way in (with `a || b` the
    # block after the test is entered from both operands)
    allpreds = {}
    for b, ss in fn.succ.items():
        for x in ss:
            if x is not None:
                allpreds.setdefault(x, []).append(b)

    def only_through(d, arm):
        # the edge d -> arm is the only way into arm (other predecessors are back edges from blocks arm dominates)
        return all(p_ == d or arm in dom.get(p_, ()) for p_ in allpreds.get(arm, []))
    for d in dom.get(bid, ()):
        c = fn.cond(d)
        if not c:
            continue
        ctree, st_, sf_ = c
        # which successor leads to bid: the one that dominates it
        dt = st_ is not None and st_ != sf_ and st_ in dom.get(bid, ()) and st_ != d and only_through(d, st_)
        df = sf_ is not None and st_ != sf_ and sf_ in dom.get(bid, ()) and sf_ != d and only_through(d, sf_)
        if dt and not df:
            if condmatch(ctree, True):
                return True
        elif df and not dt:
            if condmatch(ctree, False):
                return True
    return False
