"""Fact loading: runs the extractor over /repo units and wraps the JSON into
Unit / Func objects with CFG helpers and expression-tree utilities."""
import hashlib
import json
import os
import subprocess
import sys
from concurrent.futures import ThreadPoolExecutor

VERIF = os.path.dirname(os.path.dirname(os.path.abspath(__file__)))
REPO = os.environ.get('UPV_REPO', '/repo')
UXTRACT = os.path.join(VERIF, 'tools', 'uxtract', 'uxtract')
OUT = os.environ.get('UPV_OUT', os.path.join(VERIF, 'out'))


class AnalysisBroken(Exception):
    """the analysis itself could not be carried out (exit 2)"""


def base_flags(repo=None):
    repo = repo or REPO
    return ['-std=gnu17', '-I%s/include' % repo, '-I%s' % repo,
            '-DHAVE_CONFIG_H', '-D_REENTRANT', '-UNDEBUG',
            '-Wno-everything']


def stub_flags():
    return ['-I%s/stubs' % VERIF]


HEADER_DIRS = ['upipe', 'upipe-modules', 'upipe-pthread', 'upump-ev']


def _facts_dir(repo):
    tag = hashlib.sha1(os.path.abspath(repo).encode()).hexdigest()[:10]
    d = os.path.join(OUT, 'facts', tag)
    os.makedirs(d, exist_ok=True)
    return d


def write_headers_unit(repo, dirs=('upipe',), name='all_headers.c'):
    d = _facts_dir(repo)
    path = os.path.join(d, name)
    lines = []
    for sub in dirs:
        hd = os.path.join(repo, 'include', sub)
        if not os.path.isdir(hd):
            continue
        for h in sorted(os.listdir(hd)):
            if h.endswith('.h') and h != 'config.h':
                lines.append('#include <%s/%s>' % (sub, h))
    with open(path, 'w') as f:
        f.write('\n'.join(lines) + '\n')
    return path


def _run_one(job):
    src, out, flags, allf = job
    cmd = [UXTRACT] + (['--all'] if allf else []) + [out, src, '--'] + flags
    p = subprocess.run(cmd, stdout=subprocess.PIPE, stderr=subprocess.PIPE,
                       text=True)
    return src, out, p.returncode, p.stderr


def extract(units, repo=None, stubs=False, jobs=16, tolerate=False):
    """units: list of repo-relative .c paths, or ('hdr', path) for header
    units (absolute path, --all).  Returns {unit: json path}.  A unit that
    fails to parse raises AnalysisBroken unless tolerate (then it is returned
    in the second result)."""
    repo = repo or REPO
    if not os.path.exists(UXTRACT):
        raise AnalysisBroken('extractor not built: run setup (make -C tools/uxtract)')
    d = _facts_dir(repo)
    todo = []
    for u in units:
        if isinstance(u, tuple):
            src = u[1]
            name = os.path.basename(src)
            allf = True
        else:
            src = os.path.join(repo, u)
            name = u.replace('/', '__')
            allf = False
        if not os.path.exists(src):
            raise AnalysisBroken('unit vanished: %s' % u)
        flags = base_flags(repo) + (stub_flags() if stubs else [])
        todo.append((src, os.path.join(d, name + '.json'), flags, allf))
    res, failed = {}, {}
    with ThreadPoolExecutor(max_workers=jobs) as ex:
        for (src, out, rc, err), u in zip(ex.map(_run_one, todo), units):
            key = u if not isinstance(u, tuple) else u[0]
            if rc != 0:
                failed[key] = err.strip().splitlines()[:5]
            else:
                res[key] = out
    if failed and not tolerate:
        raise AnalysisBroken('units failed to parse: %s' % json.dumps(failed)[:2000])
    return res, failed


# --------------------------------------------------------------------------
# expression tree helpers

def strip(n):
    """remove implicit casts / lvalue-to-rvalue / parens-like wrappers"""
    while isinstance(n, dict):
        k = n.get('k')
        if k == 'cast' and (n.get('imp') or n.get('ck') in ('NoOp', 'BitCast',
                            'LValueToRValue')):
            n = n['e']
        elif k in ('opaque', 'choose'):
            n = n['e']
        else:
            break
    return n


def strip_all_casts(n):
    while isinstance(n, dict):
        k = n.get('k')
        if k == 'cast' or k in ('opaque', 'choose'):
            n = n['e']
        else:
            break
    return n


def strip_expect(n):
    """see through __builtin_expect(!!(x), k) and !! pairs; returns (node,
    negated)"""
    neg = False
    while True:
        n = strip_all_casts(n)
        if not isinstance(n, dict):
            return n, neg
        if n.get('k') == 'call' and n.get('fn') == '__builtin_expect':
            n = n['args'][0]
            continue
        if n.get('k') == 'un' and n.get('op') == '!' and 'e' in n:
            neg = not neg
            n = n['e']
            continue
        return n, neg


def children(n):
    k = n.get('k')
    if k in ('cast', 'un', 'va_arg', 'opaque', 'choose', 'complit', 'container_of'):
        e = n.get('e')
        return [e] if isinstance(e, dict) else []
    if k == 'return':
        e = n.get('e')
        return [e] if isinstance(e, dict) else []
    if k == 'bin':
        return [x for x in (n.get('lhs'), n.get('rhs')) if isinstance(x, dict)]
    if k == 'mem':
        return [n['b']] if isinstance(n.get('b'), dict) else []
    if k == 'idx':
        return [x for x in (n.get('b'), n.get('x')) if isinstance(x, dict)]
    if k == 'call':
        r = []
        if isinstance(n.get('callee'), dict):
            r.append(n['callee'])
        r += [a for a in n.get('args', []) if isinstance(a, dict)]
        return r
    if k == 'atomic':
        return [a for a in n.get('args', []) if isinstance(a, dict)]
    if k == 'cond':
        return [x for x in (n.get('c'), n.get('a'), n.get('bb')) if isinstance(x, dict)]
    if k == 'decl':
        return [v['init'] for v in n.get('vars', []) if isinstance(v.get('init'), dict)]
    if k == 'initlist':
        return [e['e'] for e in n.get('elts', []) if isinstance(e.get('e'), dict)]
    if k in ('stmtexpr', 'compound'):
        return [b for b in n.get('body', []) if isinstance(b, dict)]
    if k == 'unk':
        return [b for b in n.get('kids', []) if isinstance(b, dict)]
    return []


def walk(n):
    """pre-order over all nodes of a tree (ext refs are leaves)"""
    st = [n]
    while st:
        x = st.pop()
        if not isinstance(x, dict):
            continue
        yield x
        st.extend(reversed(children(x)))


def postorder(n):
    """evaluation order approximation: children before the node; for
    assignments rhs before lhs-store"""
    if not isinstance(n, dict):
        return
    k = n.get('k')
    if k == 'bin' and n.get('op', '').endswith('=') and n.get('op') not in ('==', '!=', '<=', '>='):
        for x in postorder(n.get('rhs')):
            yield x
        for x in postorder(n.get('lhs')):
            yield x
        yield n
        return
    for c in children(n):
        for x in postorder(c):
            yield x
    yield n


ASSIGN_OPS = {'=', '+=', '-=', '*=', '/=', '%=', '<<=', '>>=', '&=', '|=', '^='}


def is_assign(n):
    return n.get('k') == 'bin' and n.get('op') in ASSIGN_OPS


def is_incdec(n):
    return n.get('k') == 'un' and n.get('op') in ('pre++', 'pre--', 'post++', 'post--')


def const_of(n):
    """integer constant of a node if known"""
    n0 = n
    n = strip_all_casts(n) if isinstance(n, dict) else n
    for x in (n0, n):
        if not isinstance(x, dict):
            continue
        if 'cv' in x:
            return x['cv']
        if 'cvs' in x:
            return int(x['cvs'])
        if x.get('k') == 'int' and 'v' in x:
            return x['v']
        if x.get('k') == 'int' and 'vs' in x:
            return int(x['vs'])
        if x.get('k') == 'ref' and x.get('d') == 'enum':
            return x['v']
    return None


def enum_name(n):
    n = strip_all_casts(n)
    if isinstance(n, dict) and n.get('k') == 'ref' and n.get('d') == 'enum':
        return n['n']
    return None


def is_null(n):
    n = strip_all_casts(n)
    if not isinstance(n, dict):
        return False
    c = const_of(n)
    return c == 0 and n.get('k') in ('int', 'cast', 'un', 'bin')


def path_of(n):
    """canonical access path of an lvalue / pointer expression, or None.
    Forms: name, P->f, P.f, *P, P[], &P, container_of(P,rec)"""
    n = strip(n)
    if not isinstance(n, dict):
        return None
    k = n.get('k')
    if k == 'ref':
        return n['n']
    if k == 'mem':
        b = path_of(n['b'])
        if b is None:
            return None
        return b + ('->' if n.get('arrow') else '.') + n['f']
    if k == 'un' and n.get('op') == '*' and 'e' in n:
        b = path_of(n['e'])
        return None if b is None else '*' + b
    if k == 'un' and n.get('op') == '&' and 'e' in n:
        b = path_of(n['e'])
        return None if b is None else '&' + b
    if k == 'idx':
        b = path_of(n['b'])
        return None if b is None else b + '[]'
    if k == 'cast':
        return path_of(n['e'])
    if k == 'container_of':
        b = path_of(n['e'])
        return None if b is None else 'container_of(%s,%s)' % (b, n.get('rec'))
    return None


def root_of(n):
    """root ref node of an access path expression (following mem/deref/idx/
    cast/container_of), or a call/va_arg node, or None"""
    while True:
        n = strip(n)
        if not isinstance(n, dict):
            return None
        k = n.get('k')
        if k == 'ref':
            return n
        if k == 'mem':
            n = n['b']
        elif k == 'un' and n.get('op') in ('*', '&') and 'e' in n:
            n = n['e']
        elif k == 'idx':
            n = n['b']
        elif k in ('cast', 'container_of'):
            n = n['e']
        elif k == 'bin' and n.get('op') in ('+', '-') and 'lhs' in n:
            # pointer arithmetic: follow the pointer side
            l = n['lhs']
            if isinstance(l, dict) and '*' in (strip(l).get('t') or ''):
                n = l
            else:
                n = n['rhs']
        else:
            return n


def calls_in(n):
    for x in walk(n):
        if x.get('k') == 'call':
            yield x


def refs_in(n):
    for x in walk(n):
        if x.get('k') == 'ref':
            yield x


# --------------------------------------------------------------------------

class Func:
    def __init__(self, j, unit):
        self.j = j
        self.unit = unit
        self.name = j['name']
        self.file = j.get('file')
        self.line = j.get('line')
        self.macro = j.get('macro')
        self.macrodef = j.get('macrodef')
        self.params = j.get('params', [])
        self.ret = j.get('ret')
        self.inmain = j.get('inmain')
        self.blocks = {b['id']: b for b in j.get('blocks', [])}
        self.entry = j.get('entry')
        self.exit = j.get('exit')
        self.succ = {}
        self.pred = {i: [] for i in self.blocks}
        for i, b in self.blocks.items():
            ss = [s for s in b.get('succ', [])]
            self.succ[i] = ss
            for s in ss:
                if s is not None:
                    self.pred[s].append(i)
        self._byid = None
        self._dom = None
        self._pdom = None
        self._reach = {}

    def __repr__(self):
        return '<Func %s>' % self.name

    @property
    def loc(self):
        return '%s:%s' % (self.file, self.line)

    def helper_header(self):
        """header file the body is spelled in, if macro generated"""
        if self.macrodef:
            return self.macrodef.rsplit(':', 1)[0]
        return None

    def node(self, i):
        if self._byid is None:
            self._byid = {}
            for b in self.blocks.values():
                for s in b.get('stmts', []):
                    for x in walk(s):
                        if 'i' in x and x.get('k') != 'ext':
                            self._byid[x['i']] = x
        return self._byid.get(i)

    def resolve(self, n):
        """replace an ext reference by the node it designates (if known)"""
        seen = 0
        while isinstance(n, dict) and n.get('k') == 'ext' and seen < 4:
            m = self.node(n['i'])
            if m is None:
                return n
            n = m
            seen += 1
        return n

    def stmts(self, bid):
        return self.blocks[bid].get('stmts', [])

    def all_stmts(self):
        for bid in self.blocks:
            for s in self.stmts(bid):
                yield bid, s

    def nodes(self):
        for bid, s in self.all_stmts():
            for x in walk(s):
                yield bid, s, x

    def calls(self):
        for bid, s, x in self.nodes():
            if x.get('k') == 'call':
                yield bid, s, x

    def term(self, bid):
        return self.blocks[bid].get('term')

    def cond(self, bid):
        """(cond tree resolved, true succ, false succ) for two-way branches"""
        t = self.term(bid)
        if not t or 'cond' not in t:
            return None
        ss = self.succ[bid]
        if t['cls'] == 'SwitchStmt' or len(ss) != 2:
            return None
        c = self.resolve(t['cond'])
        return c, ss[0], ss[1]

    def label(self, bid):
        return self.blocks[bid].get('label')

    def reachable_from(self, start, stop=()):
        key = (start, tuple(sorted(stop)))
        if key in self._reach:
            return self._reach[key]
        seen = set()
        st = [start]
        while st:
            b = st.pop()
            if b in seen or b in stop:
                continue
            seen.add(b)
            for s in self.succ.get(b, []):
                if s is not None:
                    st.append(s)
        self._reach[key] = seen
        return seen

    def rpo(self, start=None, within=None):
        start = self.entry if start is None else start
        seen, order = set(), []

        def dfs(b):
            stack = [(b, iter([s for s in self.succ.get(b, []) if s is not None]))]
            seen.add(b)
            while stack:
                node, it = stack[-1]
                adv = False
                for s in it:
                    if s in seen or (within is not None and s not in within):
                        continue
                    seen.add(s)
                    stack.append((s, iter([x for x in self.succ.get(s, []) if x is not None])))
                    adv = True
                    break
                if not adv:
                    order.append(node)
                    stack.pop()
        dfs(start)
        order.reverse()
        return order

    def dominators(self, start=None):
        """dict block -> set of dominators, over blocks reachable from start"""
        start = self.entry if start is None else start
        if start == self.entry and self._dom is not None:
            return self._dom
        order = self.rpo(start)
        allb = set(order)
        dom = {b: set(allb) for b in order}
        dom[start] = {start}
        changed = True
        while changed:
            changed = False
            for b in order:
                if b == start:
                    continue
                ps = [p for p in self.pred[b] if p in allb]
                new = None
                for p in ps:
                    new = set(dom[p]) if new is None else new & dom[p]
                new = (new or set()) | {b}
                if new != dom[b]:
                    dom[b] = new
                    changed = True
        if start == self.entry:
            self._dom = dom
        return dom

    def postdominators(self):
        if self._pdom is not None:
            return self._pdom
        allb = set(self.blocks)
        pd = {b: set(allb) for b in allb}
        pd[self.exit] = {self.exit}
        changed = True
        while changed:
            changed = False
            for b in allb:
                if b == self.exit:
                    continue
                ss = [s for s in self.succ[b] if s is not None]
                new = None
                for s in ss:
                    new = set(pd[s]) if new is None else new & pd[s]
                new = (new or set()) | {b}
                if new != pd[b]:
                    pd[b] = new
                    changed = True
        self._pdom = pd
        return pd

    def local_defs(self):
        """locals with exactly one definition (their declaration's init and no
        later assignment): name -> init tree"""
        defs, multi = {}, set()
        for bid, s, x in self.nodes():
            if x.get('k') == 'decl':
                for v in x['vars']:
                    if v['n'] in defs or v['n'] in multi:
                        multi.add(v['n'])
                    elif 'init' in v:
                        defs[v['n']] = v['init']
                    else:
                        defs[v['n']] = None
            elif is_assign(x) or is_incdec(x):
                l = strip(x.get('lhs') if is_assign(x) else x.get('e'))
                if isinstance(l, dict) and l.get('k') == 'ref' and l.get('d') in ('local', 'param'):
                    if defs.get(l['n'], 0) is None and l['n'] not in multi and is_assign(x) and x['op'] == '=':
                        defs[l['n']] = x['rhs']   # declared without init, assigned once so far
                        continue
                    multi.add(l['n'])
            elif x.get('k') == 'un' and x.get('op') == '&':
                l = strip(x.get('e'))
                if isinstance(l, dict) and l.get('k') == 'ref' and l.get('d') == 'local':
                    multi.add(l['n'])   # address taken: may be written elsewhere
        return {k: v for k, v in defs.items() if k not in multi and v is not None}


class Unit:
    def __init__(self, path, name=None):
        with open(path) as f:
            self.j = json.load(f)
        self.name = name or self.j.get('unit')
        self.funcs = {}
        for fj in self.j['functions']:
            fn = Func(fj, self)
            # first definition wins (headers may be seen once only anyway)
            self.funcs.setdefault(fn.name, fn)
        self.records = {r['name']: r for r in self.j['records'] if r['name']}
        self.enums = {}
        self.enumerators = {}
        for e in self.j['enums']:
            if e['name']:
                self.enums[e['name']] = e
            for it in e['items']:
                self.enumerators[it['n']] = it['v']
        self.globals = {g['name']: g for g in self.j['globals']}

    def fields(self, rec):
        r = self.records.get(rec)
        return [f['n'] for f in r['fields']] if r else []


class Program:
    """a set of units plus the header unit, with name-based lookup that
    prefers the unit's own (static) definition"""

    def __init__(self):
        self.units = {}
        self.hdr = None

    def lookup(self, unit, name):
        if unit is not None and name in unit.funcs:
            return unit.funcs[name]
        if self.hdr is not None and name in self.hdr.funcs:
            return self.hdr.funcs[name]
        return None


WIDE_HEADER_DIRS = ('upipe', 'upipe-modules', 'upipe-framers', 'upipe-ts')


def have_stubs():
    return os.path.isdir(os.path.join(VERIF, 'stubs', 'bitstream'))


def load_with_stubs(units, stub_units, repo=None, tolerate=True):
    """units parsed with the build's flags plus stub_units (lib/upipe-ts,
    lib/upipe-framers) parsed against /verif/stubs; the header unit then
    covers the headers of those libraries too (their inline functions are
    summarised, not assumed)."""
    repo = repo or REPO
    if not stub_units or not have_stubs():
        return load_program(units, repo=repo, tolerate=tolerate)
    prog = load_program(units, repo=repo, tolerate=tolerate, with_headers=False)
    sprog = load_program(stub_units, repo=repo, stubs=True, tolerate=tolerate,
                         header_dirs=WIDE_HEADER_DIRS, header_name='all_headers_wide.c')
    prog.units.update(sprog.units)
    prog.failed.update(sprog.failed)
    prog.hdr = sprog.hdr
    # the inline accessors of the stub headers themselves
    d = _facts_dir(repo)
    sp = os.path.join(d, 'stub_headers.c')
    root = os.path.join(VERIF, 'stubs')
    incs = []
    for dp, dn, fns in sorted(os.walk(root)):
        for f in sorted(fns):
            if f.endswith('.h'):
                incs.append('#include <%s>' % os.path.relpath(os.path.join(dp, f), root))
    with open(sp, 'w') as f:
        f.write('\n'.join(incs) + '\n')
    res, failed = extract([('stubhdr', sp)], repo=repo, stubs=True, tolerate=False)
    su = Unit(res['stubhdr'], 'stub-headers')
    for k, fn in su.funcs.items():
        fn.unit = prog.hdr
        prog.hdr.funcs.setdefault(k, fn)
    prog.stub_funcs = sorted(su.funcs)
    return prog


def load_program(units, repo=None, stubs=False, header_dirs=('upipe',),
                 tolerate=False, with_headers=True, header_name='all_headers.c'):
    repo = repo or REPO
    jobs = list(units)
    hdrpath = None
    if with_headers:
        hdrpath = write_headers_unit(repo, header_dirs, name=header_name)
        jobs.append(('hdr', hdrpath))
    res, failed = extract(jobs, repo=repo, stubs=stubs, tolerate=tolerate)
    if with_headers and 'hdr' not in res:
        raise AnalysisBroken('header unit failed to parse: %s' % failed.get('hdr'))
    prog = Program()
    for u in units:
        if u in res:
            prog.units[u] = Unit(res[u], u)
    if with_headers:
        prog.hdr = Unit(res['hdr'], 'headers')
    prog.failed = failed
    prog.stubbed = bool(stubs)
    return prog
