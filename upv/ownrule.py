"""R-own obligations over a program (shared by C01, C05, C14-C17)."""
from . import control, own
from .facts import strip_all_casts
from .report import HOLDS, VIOLATED, UNDECIDED, OOS

RULE_TEXT = ('R-own: on every CFG path of the function, each owned uref/ubuf (the uref parameter of a function installed in an '
             'upipe_input slot or used as the OUTPUT handler of UPIPE_HELPER_INPUT; every result of a producer call) is exactly once '
             'freed, handed to a consumer, returned or stored into a structure; it is not read after it was freed or handed on, and '
             'not freed or handed on twice. Callees are summarised by their outcome sets with the same engine; paths that take the '
             'failure branch of an allocation or of a fallible call whose failure does not depend on the input buffer are reported '
             'as out-of-scope observations only.')

# Reports confirmed to be infeasible by reading, one line of reason each.
# key: (function, kind, variable)
EXCEPTIONS = {
    ('upipe_trickp_sub_input', 'leak', 'uref'):
        'upipe_trickp_sub_process returns false only when rate.num == 0 || rate.den == 0, which upipe_trickp_sub_input '
        'has just tested false on this branch (lib/upipe-modules/upipe_trickplay.c:219-227); the correlation is through memory and across the call',
    ('upipe_rtp_h264_output_nalu', 'leak', 'uref_block_split()'):
        'the loop ends (size == 0) only after an iteration with last_fragment true, in which no split is made; when a split was made size > split_size '
        'so the loop continues and the split-off part becomes the next uref (lib/upipe-modules/upipe_rtp_h264.c:170-227): arithmetic correlation',
}


def input_functions(prog):
    res = {}
    for uname, u in prog.units.items():
        res[uname] = {s['upipe_input'] for s in control.mgr_slots(u) if s.get('upipe_input')}
    return res


def handler_functions(prog):
    """functions passed as OUTPUT to UPIPE_HELPER_INPUT: found through the
    constant function pointer `output` of the generated X_output_input"""
    res = {}
    for uname, u in prog.units.items():
        hs = set()
        for fn in u.funcs.values():
            if fn.macro != 'UPIPE_HELPER_INPUT' or not fn.name.endswith('_output_input'):
                continue
            d = fn.local_defs().get('output')
            d = strip_all_casts(d) if isinstance(d, dict) else None
            if isinstance(d, dict) and d.get('k') == 'ref' and d.get('d') == 'fn':
                hs.add(d['n'])
        res[uname] = hs
    return res


def stable_var(fn, res_var, unit):
    """names for reports: parameter objects by parameter name, produced
    objects by the producing call"""
    return res_var


def _takes(fn):
    """the function loads a tracked field into a local and clears a field of that type: the take idiom (v = s->f; s->f = NULL;)"""
    from upv.facts import strip_all_casts, is_assign, const_of
    loads = stores = False
    for _, _, x in fn.nodes():
        if x.get('k') == 'decl':
            for v in x['vars']:
                i = strip_all_casts(v['init']) if isinstance(v.get('init'), dict) else None
                if v.get('t') in own.TRACKED_TYPES and isinstance(i, dict) and i.get('k') == 'mem':
                    loads = True
        elif is_assign(x) and x.get('op') == '=':
            l = strip_all_casts(x['lhs'])
            r = strip_all_casts(x['rhs'])
            if isinstance(l, dict) and l.get('k') == 'mem' and l.get('t') in own.TRACKED_TYPES and const_of(r) == 0:
                stores = True
            if isinstance(l, dict) and l.get('k') == 'ref' and l.get('t') in own.TRACKED_TYPES and isinstance(r, dict) and r.get('k') == 'mem':
                loads = True
    return loads and stores


def run_own(rep, prog, rule='R-own', only_units=None, local_functions=True):
    inputs = input_functions(prog)
    handlers = handler_functions(prog)
    contracts = {}
    for uname, hs in handlers.items():
        for h in hs:
            fn = prog.units[uname].funcs.get(h)
            if fn is None:
                continue
            for i, p in enumerate(fn.params):
                if p['t'] == 'struct uref *':
                    contracts[(uname, h, i)] = own.COND_TRUE
    W = own.Own(prog, inputs, contracts)
    rep.rule(rule, RULE_TEXT)
    rep.tables['consumer_table'] = {'%s#%d' % k: (sorted(map(str, v)) if isinstance(v, frozenset) else v)
                                    for k, v in own.TABLE.items()}
    rep.tables['own_exceptions'] = {'%s:%s:%s' % k: v for k, v in EXCEPTIONS.items()}
    stats = {'input_functions': 0, 'handler_functions': 0, 'local_functions': 0, 'states': 0}
    for uname, u in sorted(prog.units.items()):
        if only_units is not None and uname not in only_units:
            continue
        done = set()
        roots = []
        for f in sorted(inputs.get(uname, ())):
            roots.append((f, 'input'))
        for f in sorted(handlers.get(uname, ())):
            roots.append((f, 'handler'))
        for fname, kind in roots:
            fn = u.funcs.get(fname)
            if fn is None or not fn.blocks or (fname, kind) in done:
                continue
            done.add((fname, kind))
            idx = [i for i, p in enumerate(fn.params) if p['t'] == 'struct uref *']
            if not idx:
                continue
            res = W.explore(u, fn, owned_params=(idx[0],))
            stats['states'] += res['states']
            stats[kind + '_functions'] += 1
            pname = fn.params[idx[0]]['n']
            report(rep, rule, u, fn, res, pname, kind)
        if local_functions:
            for fname, fn in sorted(u.funcs.items()):
                if not fn.inmain or not fn.blocks or (fname, 'input') in done or (fname, 'handler') in done:
                    continue
                # only functions that produce something are of interest
                if not any(x.get('t') in own.TRACKED_TYPES or own.OUTPARAM_PRODUCER_RE.search(x.get('fn') or '') for _, _, x in fn.calls()) and not _takes(fn):
                    continue
                res = W.explore(u, fn, owned_params=())
                stats['states'] += res['states']
                stats['local_functions'] += 1
                report(rep, rule, u, fn, res, None, 'local')
    # cross-check: summaries computed from the bodies of the table's API
    # functions, where the engine can read them
    xc = {}
    for (name, idx), act in own.TABLE.items():
        fn = prog.hdr.funcs.get(name) if prog.hdr else None
        if fn is not None and fn.blocks and idx < len(fn.params) and fn.params[idx]['t'] in own.TRACKED_TYPES:
            s = W.summary(prog.hdr, fn, idx)
            xc['%s#%d' % (name, idx)] = sorted(map(str, s)) if isinstance(s, frozenset) else s
    rep.tables['table_vs_computed'] = xc
    rep.tables['own_stats'] = stats
    return W


def report(rep, rule, u, fn, res, pname, kind):
    loc = fn.loc
    base = fn.name
    if not res['decided']:
        rep.add(rule, '%s:%s' % (base, pname or 'locals'), UNDECIDED, loc, why=res['undecided'][:3], kind=kind)
        return
    armed = [v for v in res['violations'] if v.armed()]
    oos = [v for v in res['violations'] if not v.armed()]
    if kind == 'handler':
        # contract: true => consumed or kept, false => still owned
        for atom, rk, af, line, err in res['exits']:
            if af or not all(own.INPUT_DEP_RE.match(e) for e in err):
                continue
            if rk is True and atom == own.O:
                v = own.Violation('leak', pname, line, [], 'handler returns true (processed) while %s is neither freed, forwarded nor kept' % pname)
                armed.append(v)
            elif rk is False and atom in (own.C, own.K):
                v = own.Violation('double-free', pname, line, [], 'handler returns false (not processed: the caller holds %s again) after freeing or keeping it' % pname)
                armed.append(v)
        # leaks at exit of the owned parameter are what the contract decides
        armed = [v for v in armed if not (v.kind == 'leak' and v.var in (pname, 'P%d' % 1) and v.path)]
    seen = set()
    nviol = 0
    for v in armed:
        var = v.var
        if var.startswith('P') and var[1:].isdigit() and pname:
            var = pname
        key = (fn.name, v.kind, var)
        if key in seen:
            continue
        seen.add(key)
        if key in EXCEPTIONS:
            rep.add(rule, '%s:%s:%s' % key, OOS, '%s:%s' % (fn.file, v.line), why='listed exception: ' + EXCEPTIONS[key])
            continue
        nviol += 1
        rep.add(rule, '%s:%s:%s' % key, VIOLATED, '%s:%s' % (fn.file, v.line), what=v.detail,
                path_blocks=v.path[:40], failing_calls_on_path=sorted(v.err), kind=kind)
    for v in oos:
        rep.add(rule, '%s:%s:%s@%s' % (fn.name, v.kind, v.var, v.line), OOS, '%s:%s' % (fn.file, v.line),
                why='only on a failure path (allocation failure: %s; failed calls: %s)' % (v.af, sorted(v.err)), what=v.detail)
    if res['esc_leaks']:
        rep.add(rule, '%s:%s' % (base, pname or 'locals'), UNDECIDED, loc,
                why='owned object passed to a function of another translation unit whose contract is unknown, then not released: %s' % sorted(res['esc_leaks'])[:3])
        return
    if nviol == 0:
        rep.add(rule, '%s:%s' % (base, pname or 'locals'), HOLDS, loc, kind=kind, states=res['states'],
                exits=len(res['exits']), forked_calls=sorted(res['forked_calls'])[:6])
