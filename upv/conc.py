"""Interleaved product of extracted CFGs (C07).

The abstract machine (upv.absint) walks the CFGs of the lock-free ring
functions; every access to memory that other threads can reach (the atomic
descriptor words and the fields of the ring elements) is a *scheduling
point*.  A thread is a list of operations (function name, arguments); its
local behaviour is a deterministic function of the values its shared accesses
returned, so a thread is advanced by one access by re-walking its CFGs from
the start with the recorded answers and performing the next access on the
shared store (no Python threads, no execution of Upipe code).  The product is
explored exhaustively with memoisation on (shared store, per-thread answer
logs); every maximal interleaving yields a history that is checked against
the sequential specification (linearizability with real-time order).

Memory model: sequential consistency (the atomic builtins are seq_cst, checked
by C09 R-seqcst; the plain accesses to ring elements are treated as SC too -
stated as an assumption in the evidence)."""
import itertools
import time

from .absint import Machine, Finding, Undecided, PathEnd, SYM, wrap


class Suspend(Exception):
    pass


class Stop(Exception):
    """raised by a call-back of the explorer: nothing more to learn from this configuration"""


ATOMIC = {'uatomic_init', 'uatomic_store', 'uatomic_load', 'uatomic_compare_exchange',
          'uatomic_fetch_add', 'uatomic_fetch_sub', 'uatomic_clean',
          'uatomic_ptr_init', 'uatomic_ptr_store', 'uatomic_ptr_load', 'uatomic_ptr_compare_exchange',
          'uatomic_ptr_clean'}


def _freeze(x):
    if isinstance(x, dict):
        return tuple(sorted((k, _freeze(v)) for k, v in x.items()))
    if isinstance(x, list):
        return tuple(_freeze(v) for v in x)
    return x


class Shared:
    """the store every thread sees: atomic words and ring element fields"""

    def __init__(self, length):
        self.length = length
        self.cells = {}        # address designator -> int
        self.elems = {}        # (index0, field) -> value
        self.naccess = 0

    def copy(self):
        s = Shared(self.length)
        s.cells = dict(self.cells)
        s.elems = dict(self.elems)
        s.naccess = self.naccess
        return s

    def key(self):
        return (tuple(sorted(self.cells.items(), key=repr)), tuple(sorted(self.elems.items(), key=repr)))


class RingMachine(Machine):
    """one thread.  `ops` is a list of (function name, [args]); results are
    collected in self.results as (op index, value, first access #, last access #)."""

    max_steps = 200000
    INTERP_PREFIX = ('uring_', 'ufifo_', 'ulifo_', 'upool_')
    interpret_uatomic = True     # walk the bodies of uatomic_* down to the __atomic builtins

    def __init__(self, prog, unit, shared, log=None, live_budget=None, tid=0):
        Machine.__init__(self, prog, unit)
        self.sh = shared
        self.log = list(log or [])
        self.pos = 0
        self.live_budget = live_budget   # number of live accesses allowed in this activation (None: unlimited)
        self.tid = tid
        self.cur_op = None
        self.op_first = {}
        self.op_last = {}
        self.results = []
        self.fresh = 0
        self.freed_cb = []      # objects handed to the pool's free_cb
        self.alloc_cb = []      # objects produced by the pool's alloc_cb
        self.last_access = None
        self.pc = None          # (function, line) of the pending access, for reports
        self.atomic_ops = 0
        self.plain_ops = 0

    # ---- shared accesses ---------------------------------------------------
    def access(self, kind, loc, arg=None, node=None):
        """perform (or replay) one shared access; returns the answer"""
        if self.pos < len(self.log):
            t, ans = self.log[self.pos][0], self.log[self.pos][1]
            if self.log[self.pos][2] != kind or self.log[self.pos][3] != loc:
                raise Undecided('replay diverged: %s %s instead of %s %s' % (kind, loc, self.log[self.pos][2], self.log[self.pos][3]))
            self.pos += 1
            if self.cur_op is not None:
                self.op_first.setdefault(self.cur_op, t)
                self.op_last[self.cur_op] = t
            self.last_access = (kind, loc, ans)
            self.note_access(kind, loc, ans)
            return ans
        if self.live_budget is not None and not self.glued(kind, loc):
            if self.live_budget <= 0:
                self.pc = (kind, loc, node.get('l') if isinstance(node, dict) else None)
                raise Suspend()
            self.live_budget -= 1
        sh = self.sh
        sh.naccess += 1
        t = sh.naccess
        if self.cur_op is not None:
            self.op_first.setdefault(self.cur_op, t)
            self.op_last[self.cur_op] = t
        if kind == 'load':
            ans = sh.cells.get(loc, 0)
            self.atomic_ops += 1
        elif kind == 'store':
            sh.cells[loc] = arg
            ans = None
            self.atomic_ops += 1
        elif kind == 'cas':
            exp, des = arg
            cur = sh.cells.get(loc, 0)
            if cur == exp:
                sh.cells[loc] = des
                ans = (True, cur)
            else:
                ans = (False, cur)
            self.atomic_ops += 1
        elif kind == 'faa':
            cur = sh.cells.get(loc, 0)
            sh.cells[loc] = (cur + arg) & 0xffffffff
            ans = cur
            self.atomic_ops += 1
        elif kind == 'eload':
            ans = sh.elems.get(loc, SYM)
            self.plain_ops += 1
        elif kind == 'estore':
            sh.elems[loc] = arg
            ans = None
            self.plain_ops += 1
        elif kind == 'qpush':
            q = sh.cells.get(loc, ())
            if len(q) < sh.length:
                sh.cells[loc] = q + (arg,)
                ans = 1
            else:
                ans = 0
            self.atomic_ops += 1
        elif kind == 'qpop':
            q = sh.cells.get(loc, ())
            if q:
                sh.cells[loc] = q[1:]
                ans = q[0]
            else:
                ans = ('null',)
            self.atomic_ops += 1
        elif kind == 'wait':
            ans = None        # enabled-ness is decided by the explorer
        elif kind == 'event':
            sh.cells[('event', loc)] = sh.cells.get(('event', loc), 0) + 1
            ans = None
        else:
            raise Undecided('unknown access ' + kind)
        self.log.append((t, ans, kind, loc, self.cur_op))
        self.last_access = (kind, loc, ans)
        self.note_access(kind, loc, ans)
        self.pos += 1
        return ans

    def note_access(self, kind, loc, ans):
        pass

    def glued(self, kind, loc):
        """True: this access is taken in the same step as the previous one of the thread (no scheduling point in between)"""
        return False

    # ---- memory model --------------------------------------------------------
    def _elem_index(self, obj):
        if isinstance(obj, tuple):
            if obj[0] == 'p' and obj[1] == 'elems':
                return obj[2]
            if obj[0] == 'lv' and len(obj) >= 3 and isinstance(obj[2], tuple) and obj[2][0] == 'p' and obj[2][1] == 'elems':
                return obj[2][2]
        return None

    SHARED_PLAIN = ()      # (record, field) pairs that are plain memory shared between threads
    CALLBACKS = {}         # value of a function-pointer field -> event name recorded when it is called

    def field_load(self, obj, rec, field):
        if (rec, field) in self.SHARED_PLAIN:
            return self.access('eload', (obj, field))
        i = self._elem_index(obj)
        if i is not None:
            if not (0 <= i < self.sh.length):
                raise Finding('out-of-bounds read', None, 'element %d of a ring of %d' % (i, self.sh.length))
            return self.access('eload', (i, field))
        if rec == 'uring':
            if field == 'length':
                return self.sh.length
            if field == 'elems':
                return ('p', 'elems', 0)
        if field in ('alloc_cb', 'free_cb'):
            return ('cb', field)
        if field == 'refcount':
            return ('obj', 'refcount')
        return SYM

    def field_store(self, obj, rec, field, v, node):
        if (rec, field) in self.SHARED_PLAIN:
            self.access('estore', (obj, field), v, node)
            return
        i = self._elem_index(obj)
        if i is not None:
            if not (0 <= i < self.sh.length):
                raise Finding('out-of-bounds write', node.get('l') if isinstance(node, dict) else None,
                              'element %d of a ring of %d' % (i, self.sh.length))
            self.access('estore', (i, field), v, node)
            return
        if rec == 'uring' and field == 'length':
            if v != self.sh.length:
                raise Undecided('ring length stored as %r' % (v,))
            return
        if rec == 'uring' and field == 'elems':
            return
        # other stores (upool fields at init) are thread-local setup
        return

    def load(self, fn, lv, env, node):
        # an increment of an element field is a read and a write: two accesses
        return Machine.load(self, fn, lv, env, node)

    def _ptr_load(self, p):
        if isinstance(p, tuple) and p[0] == 'addr' and p[1] == 'var':
            return self.cells[(p[3], p[2])].get(p[2], SYM)
        raise Undecided('atomic builtin operand is not the address of a local')

    def _ptr_store(self, p, v):
        if isinstance(p, tuple) and p[0] == 'addr' and p[1] == 'var':
            self.cells[(p[3], p[2])][p[2]] = v
            return
        raise Undecided('atomic builtin operand is not the address of a local')

    def eval(self, fn, n, env, depth):
        if isinstance(n, dict) and n.get('k') == 'atomic':
            # clang's AtomicExpr operand order: ptr, order, val1 [, order_fail, val2, weak]
            op = n.get('op')
            a = [self.eval(fn, x, env, depth) for x in n.get('args', [])]
            loc = a[0]
            if not isinstance(loc, tuple):
                raise Undecided('atomic builtin on an unknown address at line %s' % n.get('l'))
            if op == '__atomic_load':
                self._ptr_store(a[2], self.access('load', loc, None, n))
                return None
            if op == '__atomic_load_n':
                return self.access('load', loc, None, n)
            if op == '__atomic_store':
                self.access('store', loc, self._ptr_load(a[2]), n)
                return None
            if op == '__atomic_store_n':
                self.access('store', loc, a[2], n)
                return None
            if op in ('__atomic_compare_exchange', '__atomic_compare_exchange_n'):
                exp = self._ptr_load(a[2])
                des = self._ptr_load(a[4]) if op == '__atomic_compare_exchange' else a[4]
                ok, cur = self.access('cas', loc, (exp, des), n)
                if not ok:
                    self._ptr_store(a[2], cur)
                return int(ok)
            if op in ('__atomic_fetch_add', '__atomic_fetch_sub'):
                d = a[2]
                if not isinstance(d, int):
                    raise Undecided('atomic add of a symbolic amount')
                return self.access('faa', loc, d if op.endswith('add') else -d, n)
            if op in ('__atomic_add_fetch', '__atomic_sub_fetch'):
                d = a[2] if op.startswith('__atomic_add') else -a[2]
                return (self.access('faa', loc, d, n) + d) & 0xffffffff
            raise Undecided('atomic builtin %s not modelled' % op)
        return Machine.eval(self, fn, n, env, depth)

    def call(self, fn, node, args, env, depth):
        name = node.get('fn')
        if name in ATOMIC:
            callee = self.prog.lookup(self.unit, name)
            if callee is not None and callee.blocks and self.interpret_uatomic:
                if name.endswith('_clean'):
                    return None
                return self.run(callee, [self.eval(fn, a, env, depth) for a in args], depth + 1)
        if name in ATOMIC:
            vals = [self.eval(fn, a, env, depth) for a in args]
            loc = vals[0]
            if not isinstance(loc, tuple):
                raise Undecided('atomic operation on an unknown address at line %s' % node.get('l'))
            base = name.replace('uatomic_ptr_', '').replace('uatomic_', '')
            if base in ('init', 'store'):
                self.access('store', loc, vals[1], node)
                return None
            if base == 'load':
                return self.access('load', loc, None, node)
            if base == 'clean':
                return None
            if base == 'compare_exchange':
                ep = vals[1]
                if not (isinstance(ep, tuple) and ep[0] == 'addr' and ep[1] == 'var'):
                    raise Undecided('expected operand of a compare-exchange is not the address of a local at line %s' % node.get('l'))
                cell = self.cells[(ep[3], ep[2])]
                exp = cell.get(ep[2], SYM)
                ok, cur = self.access('cas', loc, (exp, vals[2]), node)
                if not ok:
                    cell[ep[2]] = cur
                return int(ok)
            if base == 'fetch_add':
                return self.access('faa', loc, vals[1], node)
            if base == 'fetch_sub':
                return self.access('faa', loc, -vals[1], node)
        if name is None:
            # indirect call: the pool's call-backs
            cv = self.eval(fn, node.get('callee'), env, depth) if isinstance(node.get('callee'), dict) else SYM
            vals = [self.eval(fn, a, env, depth) for a in args]
            if cv == ('cb', 'alloc_cb'):
                self.fresh += 1
                o = ('obj', 'fresh%d.%d' % (self.tid, self.fresh))
                self.alloc_cb.append(o)
                return o
            if cv == ('cb', 'free_cb'):
                self.freed_cb.append(vals[1] if len(vals) > 1 else SYM)
                return None
            if isinstance(cv, tuple) and cv in self.CALLBACKS:
                self.access('event', self.CALLBACKS[cv], None, node)
                return None
            raise NotImplementedError
        if name in ('urefcount_use', 'urefcount_release', 'upool_use', 'upool_release'):
            vals = [self.eval(fn, a, env, depth) for a in args]
            return vals[0] if vals else None
        callee = self.prog.lookup(self.unit, name)
        if callee is not None and callee.blocks and name.startswith(self.INTERP_PREFIX):
            return self.run(callee, [self.eval(fn, a, env, depth) for a in args], depth + 1)
        raise NotImplementedError

    # ---- a thread --------------------------------------------------------------
    def run_ops(self, ops):
        """run the operations in order; raises Suspend when the live budget is used up"""
        for i, (name, args) in enumerate(ops):
            self.cur_op = i
            fn = self.prog.lookup(self.unit, name)
            if fn is None or not fn.blocks:
                raise Undecided('function %s not found' % name)
            try:
                r = self.run(fn, list(args))
            except PathEnd:
                raise Finding('assertion failure', None, 'an assert() of %s (or of a callee) fails' % name)
            self.results.append((i, r, self.op_first.get(i), self.op_last.get(i)))
        self.cur_op = None
        return self.results


class ThreadInfo:
    __slots__ = ('finished', 'results', 'cur_op', 'cur_first', 'curkey', 'pc', 'machine')

    def __init__(self, m, finished, log):
        self.finished = finished
        self.results = list(m.results)
        self.cur_op = None if finished else m.cur_op
        self.cur_first = m.op_first.get(m.cur_op) if not finished else None
        self.curkey = tuple((_freeze(a[1]), a[2], a[3]) for a in log if a[4] == self.cur_op) if not finished else ()
        self.pc = m.pc
        self.machine = m

    def key(self):
        return (tuple((i, _freeze(r)) for i, r, _, _ in self.results), self.cur_op, self.curkey)


class Explorer:
    """exhaustive exploration of the interleavings of `threads` (lists of
    ops) from the shared state `init`; `final_ops` run alone afterwards."""

    def __init__(self, prog, unit, init, threads, final_ops=(), max_states=400000, machine_cls=None):
        self.prog = prog
        self.unit = unit
        self.init = init
        self.threads = threads
        self.final_ops = list(final_ops)
        self.max_states = max_states
        self.states = 0
        self.executions = 0
        self.accesses = 0
        self.transitions = 0
        self.machine_cls = machine_cls or RingMachine
        self.spin_bound = 120
        self.deadline = None       # wall-clock limit (time.time() value)
        self.enabled = None        # (pending access, shared) -> may the thread take its next step?
        self.on_deadlock = None
        self.deadlocks = 0
        self.spins_cut = 0

    def advance(self, shared, log, t, budget):
        """re-walk thread t with its answer log, then perform `budget` more
        accesses and run on to the next access request"""
        sh = shared.copy() if budget else shared
        m = self.machine_cls(self.prog, self.unit, sh, log=log, live_budget=budget, tid=t)
        fin = False
        try:
            m.run_ops(self.threads[t])
            fin = True
        except Suspend:
            pass
        self.transitions += 1
        return sh, tuple(m.log), ThreadInfo(m, fin, m.log)

    def explore(self, on_complete):
        """on_complete(infos, final machine, shared) is called for every
        distinct terminal product state"""
        n = len(self.threads)
        infos = []
        for t in range(n):
            _, _, inf = self.advance(self.init, (), t, 0)
            infos.append(inf)
        seen = set()
        stack = [(self.init.copy(), tuple(() for _ in range(n)), tuple(infos))]
        while stack:
            shared, logs, infos = stack.pop()
            key = (shared.key(), tuple(i.key() for i in infos), self._order_key(infos))
            if key in seen:
                continue
            seen.add(key)
            self.states += 1
            if self.states > self.max_states:
                raise Undecided('more than %d product states' % self.max_states)
            if self.deadline is not None and (self.states & 255) == 0 and time.time() > self.deadline:
                raise Undecided('time budget of this configuration used up after %d product states' % self.states)
            pending = [t for t in range(n) if not infos[t].finished]
            if pending and self.enabled is not None:
                runnable = [t for t in pending if self.enabled(infos[t].pc, shared)]
                if not runnable:
                    self.deadlocks += 1
                    if self.on_deadlock is not None:
                        self.on_deadlock(infos, shared)
                    continue
                pending = runnable
            if not pending:
                self.executions += 1
                self.accesses = max(self.accesses, shared.naccess)
                fm = None
                sh = shared
                if self.final_ops:
                    sh = shared.copy()
                    fm = self.machine_cls(self.prog, self.unit, sh, tid=n)
                    fm.max_steps = 20000
                    try:
                        fm.run_ops(self.final_ops)
                    except Undecided as u:
                        # alone, with every other operation complete, an operation must terminate
                        raise Finding('non-termination', None, 'after all threads have finished, a single-threaded %s does not return (%s): '
                                      'the structure is left inconsistent' % (self.final_ops[0][0], u))
                on_complete(infos, fm, sh)
                continue
            for t in pending:
                if len(infos[t].curkey) >= self.spin_bound:
                    # a retry loop that keeps being overtaken (unfair schedule): the iterations change nothing
                    # shared, the schedule that lets the others finish first is explored anyway
                    self.spins_cut += 1
                    continue
                sh, lg, inf = self.advance(shared, logs[t], t, 1)
                nl = list(logs)
                nl[t] = lg
                ni = list(infos)
                ni[t] = inf
                stack.append((sh, tuple(nl), tuple(ni)))

    @staticmethod
    def _order_key(infos):
        """real-time order fixed so far: (a, b) with a complete, b started and
        a's last access before b's first one"""
        done, started = [], []
        for t, inf in enumerate(infos):
            for i, r, f, l in inf.results:
                done.append(((t, i), f, l))
                started.append(((t, i), f))
            if inf.cur_op is not None and inf.cur_first is not None:
                started.append(((t, inf.cur_op), inf.cur_first))
        rel = set()
        for a, fa, la in done:
            if la is None:
                continue
            for b, fb in started:
                if a != b and fb is not None and la < fb:
                    rel.add((a, b))
        return frozenset(rel)


# ---- linearizability -----------------------------------------------------------

def linearizable(ops, spec_init, spec_apply):
    """ops: list of dicts {id, name, arg, ret, first, last, overlap}; real-time
    order: a before b iff a.last < b.first.  spec_apply(state, op) returns the
    new state or None if op's result is impossible in that state.  Returns a
    witness order or None."""
    n = len(ops)
    before = [[ops[a]['last'] is not None and ops[b]['first'] is not None and ops[a]['last'] < ops[b]['first']
               for b in range(n)] for a in range(n)]
    seen = set()

    def rec(done, state, order):
        if len(order) == n:
            return order
        k = (done, _freeze(state))
        if k in seen:
            return None
        seen.add(k)
        for i in range(n):
            if done >> i & 1:
                continue
            # every op that must precede i is done
            if any(before[j][i] and not (done >> j & 1) for j in range(n)):
                continue
            ns = spec_apply(state, ops[i])
            if ns is None:
                continue
            r = rec(done | (1 << i), ns, order + [i])
            if r is not None:
                return r
        return None
    return rec(0, spec_init, [])
