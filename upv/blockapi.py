"""Interpretation of the *real* block API (include/upipe/ubuf_block.h,
ubuf_block_common.h) for C03: the segment structures, their links, offsets,
sizes and caches live in a small object memory; the memory areas hold concrete,
pairwise distinct octets; the manager below the API (allocation, duplication of
one segment, the single-owner test, release) is a ghost model with reference
counts per area.  Every block operation is walked on the CFGs of /repo's
headers and its outcome compared with the same operation on a Python list."""
import re

from .absint import Machine, Finding, Undecided, PathEnd, SYM, wrap
from .facts import strip_all_casts, walk

NULL = ('null',)
BLOCK_FIELDS = ('offset', 'size', 'next_ubuf', 'total_size', 'map', 'buffer', 'cached_ubuf', 'cached_offset', 'cached_end_ubuf')


class BlockAPI(Machine):
    max_steps = 60000

    def __init__(self, prog, unit):
        Machine.__init__(self, prog, unit)
        self.segs = {}         # id -> dict of fields
        self.freed = set()
        self.areas = {}        # area name -> list of octets
        self.refs = {}         # area name -> number of segments pointing at it
        self.mem = {}          # (region, index) -> octet (local arrays / out buffers)
        self.nseg = 0
        self.narea = 0
        self.nreg = 0
        self.signature = self._signature()
        self.err_invalid = unit.enumerators.get('UBASE_ERR_INVALID', 6)
        self.err_busy = unit.enumerators.get('UBASE_ERR_BUSY', 8)
        self.derefs = 0

    def _signature(self):
        fn = self.unit.funcs.get('ubuf_block_size')
        for bid, s, x in fn.nodes():
            if x.get('k') == 'bin' and x.get('op') == '!=' and 'cv' in (x.get('rhs') or {}):
                if any(y.get('f') == 'signature' for y in walk(x['lhs'])):
                    return x['rhs']['cv']
        raise Undecided('UBUF_ALLOC_BLOCK constant not found')

    # ---- construction --------------------------------------------------------------
    def new_area(self, octets):
        self.narea += 1
        a = 'area%d' % self.narea
        self.areas[a] = list(octets)
        self.regions[a] = len(octets)
        self.refs[a] = 0
        return a

    def new_seg(self, area=None, offset=0, size=0):
        self.nseg += 1
        i = self.nseg
        sv = ('seg', i)
        self.segs[i] = {'offset': offset, 'size': size, 'next_ubuf': NULL, 'total_size': size, 'map': 0,
                        'buffer': ('p', area, 0) if area else NULL, 'cached_ubuf': sv, 'cached_offset': 0, 'cached_end_ubuf': sv}
        if area:
            self.refs[area] += 1
        return sv

    def build(self, pieces, pad=1):
        """a block made of the given lists of octets, one segment each, every
        segment sitting at offset `pad` of its own area"""
        head = None
        prev = None
        total = sum(len(p) for p in pieces)
        for p in pieces:
            a = self.new_area([0xEE] * pad + list(p) + [0xEE] * pad)
            sv = self.new_seg(a, pad, len(p))
            if head is None:
                head = sv
            else:
                self.segs[prev[1]]['next_ubuf'] = sv
            prev = sv
        if head is None:
            a = self.new_area([])
            head = self.new_seg(a, 0, 0)
        self.segs[head[1]]['total_size'] = total
        if prev is not None:
            self.segs[head[1]]['cached_end_ubuf'] = prev     # as left by the appends that build such a block
        return head

    def content(self, head):
        """octets of the block, read directly from the structures"""
        out = []
        sv = head
        n = 0
        while sv != NULL:
            if sv[1] in self.freed:
                raise Finding('use after free', None, 'the chain of %r contains the freed segment %r' % (head, sv))
            f = self.segs[sv[1]]
            b = f['buffer']
            area = self.areas[b[1]]
            lo = b[2] + f['offset']
            if lo < 0 or lo + f['size'] > len(area):
                raise Finding('segment outside its area', None, 'segment %r: offset %d size %d in an area of %d' % (sv, lo, f['size'], len(area)))
            out += area[lo:lo + f['size']]
            sv = f['next_ubuf']
            n += 1
            if n > 32:
                raise Finding('cyclic chain', None, 'the segment chain of %r does not end' % (head,))
        return out

    def nsegs(self, head):
        n, sv = 0, head
        while sv != NULL and n < 40:
            n += 1
            sv = self.segs[sv[1]]['next_ubuf']
        return n

    def snapshot(self):
        import copy
        return copy.deepcopy((self.segs, self.freed, self.areas, self.refs, self.mem))

    def restore(self, snap):
        import copy
        self.segs, self.freed, self.areas, self.refs, self.mem = copy.deepcopy(snap)

    def region(self, size, prefix='r'):
        self.nreg += 1
        r = '%s#%d' % (prefix, self.nreg)
        self.regions[r] = size
        return r

    # ---- memory ------------------------------------------------------------------------
    def exec(self, fn, s, env, depth):
        if s.get('k') == 'decl':
            for v in s['vars']:
                m = re.match(r'^(?:const )?(?:uint8_t|unsigned char|char)\[(\d+)\]$', v.get('t') or '')
                if m and not isinstance(v.get('init'), dict):
                    env[v['n']] = ('p', self.region(int(m.group(1)), 'local:' + v['n']), 0)
                    continue
                if re.match(r'^(?:const )?(?:uint8_t|unsigned char|char)\[.*\]$', v.get('t') or '') and not isinstance(v.get('init'), dict):
                    # variable-length array of octets: its length is an expression of the function; the accesses are checked
                    # against a window large enough for the words the driver uses
                    env[v['n']] = ('p', self.region(8, 'vla:' + v['n']), 0)
                    continue
                m = re.match(r'^struct iovec\[(\d+)\]$', v.get('t') or '')
                if m:
                    env[v['n']] = ('p', self.region(int(m.group(1)), 'iov:' + v['n']), 0)
                    continue
                env[v['n']] = wrap(self.eval(fn, v['init'], env, depth), v) if isinstance(v.get('init'), dict) else SYM
            return None
        return Machine.exec(self, fn, s, env, depth)

    def octet_at(self, p, node, write=False, val=None):
        self.derefs += 1
        ln = node.get('l') if isinstance(node, dict) else None
        reg, i = p[1], p[2]
        if reg in self.areas:
            a = self.areas[reg]
            if not (0 <= i < len(a)):
                raise Finding('out-of-bounds %s' % ('write' if write else 'read'), ln, 'octet %d of an area of %d' % (i, len(a)))
            if write:
                a[i] = val
                return None
            return a[i]
        size = self.regions.get(reg)
        if size is not None and not (0 <= i < size):
            raise Finding('out-of-bounds %s' % ('write' if write else 'read'), ln, 'octet %d of a %d-octet buffer (%s)' % (i, size, reg.split('#')[0]))
        if write:
            self.mem[(reg, i)] = val
            return None
        return self.mem.get((reg, i), SYM)

    def deref(self, p, node, write):
        if isinstance(p, tuple) and p[0] == 'p':
            if write:
                return SYM
            return self.octet_at(p, node)
        return SYM

    def store(self, fn, lv, v, env, node):
        Machine.store(self, fn, lv, v, env, node)
        if lv is not None and lv[0] == 'mem' and isinstance(lv[1], tuple) and lv[1][0] == 'p':
            self.octet_at(lv[1], node, write=True, val=(v & 0xff) if isinstance(v, int) else v)

    # ---- fields ----------------------------------------------------------------------------
    def _seg(self, obj):
        if isinstance(obj, tuple) and obj[0] == 'seg':
            return obj[1]
        return None

    # ---- variable argument lists: ('va', id) designates [values, position] ------------------------
    def new_valist(self, values):
        self.valists = getattr(self, 'valists', {})
        i = len(self.valists) + 1
        self.valists[i] = [list(values), 0]
        return ('va', i)

    def eval(self, fn, n, env, depth):
        if isinstance(n, dict) and n.get('k') == 'va_arg':
            l = Machine.eval(self, fn, n['e'], env, depth)
            if not (isinstance(l, tuple) and l[0] == 'va'):
                raise Undecided('va_arg on an unknown list')
            st = self.valists[l[1]]
            if st[1] >= len(st[0]):
                raise Finding('va_arg past the last argument', n.get('l'), 'argument %d of %d' % (st[1] + 1, len(st[0])))
            st[1] += 1
            return st[0][st[1] - 1]
        v = Machine.eval(self, fn, n, env, depth)
        # &block->ubuf is the segment itself (struct ubuf is embedded in struct ubuf_block)
        if isinstance(v, tuple) and len(v) == 5 and v[0] == 'addr' and v[1] == 'field' and v[4] == 'ubuf' and isinstance(v[2], tuple) and v[2][0] == 'seg':
            return v[2]
        return v

    def field_load(self, obj, rec, field):
        i = self._seg(obj)
        if i is not None:
            if i in self.freed:
                raise Finding('use after free', None, 'field %s of freed segment %d is read' % (field, i))
            if rec == 'ubuf_block' and field in BLOCK_FIELDS:
                return self.segs[i][field]
            if rec == 'ubuf' and field == 'mgr':
                return ('obj', 'mgr')
            if field == 'ubuf':
                return obj
        if rec == 'ubuf_mgr' and field == 'signature':
            return self.signature
        if rec == 'iovec' and isinstance(obj, tuple):
            return self.mem.get((obj, field), SYM)
        return SYM

    def field_store(self, obj, rec, field, v, node):
        i = self._seg(obj)
        if i is not None and rec == 'ubuf_block' and field in BLOCK_FIELDS:
            if i in self.freed:
                raise Finding('use after free', node.get('l') if isinstance(node, dict) else None, 'field %s of freed segment %d is written' % (field, i))
            self.segs[i][field] = v
            return
        if rec == 'iovec' and isinstance(obj, tuple):
            self.mem[(obj, field)] = v

    def lvalue(self, fn, n, env, depth):
        lv = Machine.lvalue(self, fn, n, env, depth)
        # &ubuf_block->ubuf and container_of(ubuf): one object
        return lv

    # ---- calls --------------------------------------------------------------------------------
    def call(self, fn, node, args, env, depth):
        name = node.get('fn')
        ln = node.get('l')
        if name is None:
            raise NotImplementedError
        if name in ('__assert_fail', 'abort'):
            raise PathEnd()
        if name in ('__builtin_va_copy', '__builtin_va_end', '__builtin_va_start'):
            if name == '__builtin_va_copy':
                src = self.eval(fn, args[1], env, depth)
                if not (isinstance(src, tuple) and src[0] == 'va'):
                    raise Undecided('va_copy of an unknown list')
                dst = fn.resolve(args[0])
                while isinstance(dst, dict) and dst.get('k') in ('cast', 'paren'):
                    dst = fn.resolve(dst.get('e'))
                if not (isinstance(dst, dict) and dst.get('k') == 'ref'):
                    raise Undecided('va_copy into something that is not a variable')
                st = self.valists[src[1]]
                new = self.new_valist(st[0])
                self.valists[new[1]][1] = st[1]
                env[dst['n']] = new
            return None
        v = [self.eval(fn, a, env, depth) for a in args]
        if name == 'ubase_check':
            return SYM if not isinstance(v[0], int) else int(v[0] == 0)
        if name in ('ubuf_block_from_ubuf', 'ubuf_block_to_ubuf'):
            return v[0]
        if name == 'ubuf_dup':
            return self.g_dup(v[0], ln, depth)
        if name == 'ubuf_free':
            self.g_free(v[0], ln, depth)
            return None
        if name == 'ubuf_control':
            cmd = v[1]
            E = self.unit.enumerators
            if cmd == E.get('UBUF_SINGLE'):
                i = self._seg(v[0])
                a = self.segs[i]['buffer'][1]
                return 0 if self.refs.get(a, 1) == 1 else self.err_busy
            if cmd == E.get('UBUF_SPLICE_BLOCK'):
                new = self.g_splice(v[0], v[3], v[4], ln, depth)
                self._out(v[2], new)
                return 0 if new != NULL else self.err_invalid
            if cmd in (E.get('UBUF_MAP_BLOCK'), E.get('UBUF_UNMAP_BLOCK')):
                return 0
            raise Undecided('ubuf_control command %r at line %s' % (cmd, ln))
        if name in ('ubuf_alloc', 'ubuf_block_alloc'):
            size = v[-1]
            if not isinstance(size, int):
                raise Undecided('allocation of a symbolic size')
            a = self.new_area([0xCC] * size)
            return self.new_seg(a, 0, size)
        if name in ('memcpy', 'memmove', '__builtin_memcpy', '__builtin___memcpy_chk'):
            dst, src, n = v[0], v[1], v[2]
            if not isinstance(n, int):
                raise Undecided('memcpy of a symbolic length at line %s' % ln)
            toks = [self.octet_at(('p', src[1], src[2] + i), node) for i in range(n)]
            for i, t in enumerate(toks):
                self.octet_at(('p', dst[1], dst[2] + i), node, write=True, val=t)
            return dst
        if name == 'memset':
            dst, val, n = v
            for i in range(n):
                self.octet_at(('p', dst[1], dst[2] + i), node, write=True, val=val)
            return dst
        if name == 'memcmp':
            a, b, n = v
            if not isinstance(n, int):
                raise Undecided('memcmp of a symbolic length')
            for i in range(n):
                x = self.octet_at(('p', a[1], a[2] + i), node)
                y = self.octet_at(('p', b[1], b[2] + i), node)
                if x != y:
                    return -1 if (isinstance(x, int) and isinstance(y, int) and x < y) else 1
            return 0
        if name == 'memchr':
            a, c, n = v
            for i in range(n):
                if self.octet_at(('p', a[1], a[2] + i), node) == (c & 0xff):
                    return ('p', a[1], a[2] + i)
            return NULL
        if name == '__builtin_expect':
            return v[0]
        callee = self.prog.lookup(self.unit, name)
        if callee is not None and callee.blocks and (name.startswith(('ubuf_block_', 'ubuf_')) or (callee.file or '').endswith(('ubuf_block.h', 'ubuf_block_common.h'))):
            return self.run(callee, v, depth + 1)
        return SYM

    def _out(self, dst, val):
        if isinstance(dst, tuple) and dst[0] == 'addr' and dst[1] == 'var':
            self.cells[(dst[3], dst[2])][dst[2]] = val

    # ---- ghost manager -----------------------------------------------------------------------------
    def g_dup(self, sv, ln, depth):
        i = self._seg(sv)
        if i is None:
            return NULL
        if i in self.freed:
            raise Finding('use after free', ln, 'ubuf_dup of freed segment %d' % i)
        a = self.segs[i]['buffer'][1]
        new = self.new_seg(a)
        r = self.run(self.unit.funcs['ubuf_block_common_dup'], [sv, new], depth + 1)
        if r != 0:
            return NULL
        return new

    def g_splice(self, sv, offset, size, ln, depth):
        i = self._seg(sv)
        if i is None:
            return NULL
        if not isinstance(offset, int) or not isinstance(size, int):
            raise Undecided('splice with symbolic arguments')
        a = self.segs[i]['buffer'][1]
        new = self.new_seg(a)
        r = self.run(self.unit.funcs['ubuf_block_common_splice'], [sv, new, offset, size], depth + 1)
        if r != 0:
            return NULL
        return new

    def g_free(self, sv, ln, depth):
        i = self._seg(sv)
        if i is None:
            return
        if i in self.freed:
            raise Finding('double free', ln, 'segment %d freed twice' % i)
        self.run(self.unit.funcs['ubuf_block_common_clean'], [sv], depth + 1)
        self.freed.add(i)
        a = self.segs[i]['buffer']
        if isinstance(a, tuple) and a[0] == 'p':
            self.refs[a[1]] -= 1
