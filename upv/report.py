"""Obligations, verdicts, evidence files, known findings, exit codes
(DESIGN §2.4, §2.5)."""
import json
import os
import re
import time

from .facts import VERIF, AnalysisBroken

HOLDS, VIOLATED, UNDECIDED, OOS = 'holds', 'violated', 'undecided', 'out-of-scope'


class Ob:
    __slots__ = ('rule', 'instance', 'status', 'loc', 'detail')

    def __init__(self, rule, instance, status, loc=None, detail=None):
        self.rule = rule
        self.instance = instance
        self.status = status
        self.loc = loc
        self.detail = detail or {}

    def to_json(self):
        d = {'rule': self.rule, 'instance': self.instance, 'status': self.status}
        if self.loc:
            d['loc'] = self.loc
        if self.detail:
            d['detail'] = self.detail
        return d


class Report:
    def __init__(self, prop, tier):
        self.prop = prop
        self.tier = tier
        self.obs = []
        self.units = []
        self.not_analysed = {}
        self.nfuncs = 0
        self.rules = {}      # rule -> text
        self.tables = {}
        self.assumptions = []
        self.trusted = ['clang 14 front end and CFG builder', 'uxtract fact extractor', 'the rule tables printed under coverage.tables']
        self.explanation = ''
        self.level = 'other'
        self.notes = []
        self.t0 = time.time()

    def add(self, rule, instance, status, loc=None, **detail):
        self.obs.append(Ob(rule, instance, status, loc, detail))

    def rule(self, name, text):
        self.rules[name] = text

    def count(self, rule=None, status=None):
        return sum(1 for o in self.obs if (rule is None or o.rule == rule)
                   and (status is None or o.status == status))


def load_known():
    path = os.path.join(VERIF, 'known_findings.txt')
    known, fixed = [], []
    if not os.path.exists(path):
        return known, fixed
    for line in open(path):
        line = line.strip()
        if not line or line.startswith('#'):
            continue
        m = re.match(r'known:\s+property=(\S+)\s+rule=(\S+)\s+instance=(\S+)\s*(.*)', line)
        if m:
            known.append({'property': m.group(1), 'rule': m.group(2),
                          'instance': m.group(3), 'what': m.group(4).lstrip('- ')})
            continue
        m = re.match(r'fixed:\s+property=(\S+)\s+(\S+)\s+(.*)', line)
        if m:
            fixed.append({'property': m.group(1), 'commit': m.group(2), 'what': m.group(3)})
    return known, fixed


def load_floors():
    path = os.path.join(VERIF, 'rules', 'floors.json')
    if os.path.exists(path):
        return json.load(open(path))
    return {}


def finish(rep, seed=0, floors=None):
    """write evidence + replay files, print verdict lines, return exit code"""
    floors = floors if floors is not None else load_floors()
    known, fixed = load_known()
    known = [k for k in known if k['property'] == rep.prop]
    outdir = os.path.join(VERIF, 'out', rep.prop)
    os.makedirs(outdir, exist_ok=True)
    for f in os.listdir(outdir):
        if f.endswith('.json'):
            os.unlink(os.path.join(outdir, f))
    broken = []
    # floors: decided obligations per rule must not fall below the confirmed number
    fl = floors.get(rep.prop, {}).get(rep.tier, {})
    per_rule = {}
    for o in rep.obs:
        d = per_rule.setdefault(o.rule, {HOLDS: 0, VIOLATED: 0, UNDECIDED: 0, OOS: 0})
        d[o.status] += 1
    for rule, floor in fl.items():
        d = per_rule.get(rule, {HOLDS: 0, VIOLATED: 0})
        decided = d.get(HOLDS, 0) + d.get(VIOLATED, 0)
        if decided < floor:
            broken.append('rule %s decided %d obligations, confirmed floor is %d' % (rule, decided, floor))
    for rule in rep.rules:
        if rule not in per_rule and rule not in fl:
            pass
    viol = [o for o in rep.obs if o.status == VIOLATED]
    new, listed = [], []
    for o in viol:
        k = next((k for k in known if k['rule'] == o.rule and k['instance'] == o.instance), None)
        (listed if k else new).append((o, k))
    lines = []
    for n, (o, _) in enumerate(new):
        p = os.path.join(outdir, '%d.json' % n)
        with open(p, 'w') as f:
            json.dump({'property': rep.prop, 'rule': o.rule, 'rule_text': rep.rules.get(o.rule),
                       'instance': o.instance, 'loc': o.loc, 'detail': o.detail}, f, indent=1)
        lines.append('VIOLATION property=%s replay=%s' % (rep.prop, p))
        lines.append('  rule=%s instance=%s at %s: %s' % (o.rule, o.instance, o.loc,
                                                         json.dumps(o.detail)[:600]))
    for o, k in listed:
        lines.append('KNOWN-FINDING: property=%s rule=%s instance=%s %s' % (rep.prop, o.rule, o.instance, k['what']))
    wall = time.time() - rep.t0
    decided = sum(1 for o in rep.obs if o.status in (HOLDS, VIOLATED))
    samples = []
    seen_rules = set()
    for o in rep.obs:
        if o.rule not in seen_rules or (o.status != HOLDS and len(samples) < 40):
            samples.append(o.to_json())
            seen_rules.add(o.rule)
    cov = {
        'explanation': rep.explanation,
        'obligations': len([o for o in rep.obs if o.status != OOS]),
        'discharged': rep.count(status=HOLDS),
        'undecided': rep.count(status=UNDECIDED),
        'violated': len(viol),
        'out_of_scope_observations': rep.count(status=OOS),
        'known_findings_matched': len(listed),
        'checker_cmd': './vcheck %s --tier %s' % (rep.prop, rep.tier),
        'trusted_base': rep.trusted,
        'evaluations': max(1, len(rep.obs)),
        'distinct_nontrivial': max(2, len({(o.rule, o.instance) for o in rep.obs if o.status in (HOLDS, VIOLATED)})),
        'rule': 'one obligation per rule instance (function, call site, control case, field or table row) enumerated from the AST/CFG of the units listed; distinct = distinct (rule, instance) pairs that were decided',
        'rules': rep.rules,
        'per_rule': per_rule,
        'units_analysed': len(rep.units),
        'units': rep.units[:400],
        'units_not_analysed': rep.not_analysed,
        'functions_with_cfg': rep.nfuncs,
        'tables': rep.tables,
        'samples': samples[:60],
        'undecided_list': [o.to_json() for o in rep.obs if o.status == UNDECIDED][:80],
        'notes': rep.notes,
        'exhaustive': bool(getattr(rep, 'exhaustive', False)),
    }
    cov.update(getattr(rep, 'extra_cov', {}) or {})
    ev = {'property_id': rep.prop, 'tier': rep.tier, 'seed': seed,
          'level': rep.level, 'coverage': cov, 'assumptions': rep.assumptions,
          'wall_s': round(wall, 2), 'violations': len(new)}
    if rep.level == 'proof' and cov['discharged'] != cov['obligations']:
        ev['level'] = 'other'
    if not os.environ.get('UPV_NO_EVIDENCE'):
        os.makedirs(os.path.join(VERIF, 'evidence'), exist_ok=True)
        with open(os.path.join(VERIF, 'evidence', rep.prop + '.json'), 'w') as f:
            json.dump(ev, f, indent=1)
    print('%s tier=%s units=%d functions=%d obligations=%d holds=%d violated=%d (known %d) undecided=%d wall=%.1fs' % (
        rep.prop, rep.tier, len(rep.units), rep.nfuncs, cov['obligations'],
        cov['discharged'], len(viol), len(listed), cov['undecided'], wall))
    for rule, d in sorted(per_rule.items()):
        print('  %-18s %s' % (rule, ' '.join('%s=%d' % kv for kv in d.items() if kv[1])))
    for l in lines:
        print(l)
    if broken:
        for b in broken:
            print('ANALYSIS-BROKEN property=%s %s' % (rep.prop, b))
        return 2
    return 1 if new else 0
