"""Reference layouts of ISO/IEC 13818-1 structures (TS packet header,
adaptation field, PES header, PSI section header), written from the standard
and independent of both Upipe and the stub accessors.  The finite-domain
drivers use them to build abstract inputs (concrete header octets, symbolic
payload tokens) and to state what the analysed function must deliver."""

TS_SIZE = 188
TS_SYNC = 0x47


def payload_tokens(tag, n):
    return [('b', '%s%d' % (tag, i)) for i in range(n)]


def ts_packet(pid=68, tei=0, pusi=0, cc=0, has_payload=1, has_af=0, af_len=0,
              disc=0, rai=0, pcr=None, tag='p', size=TS_SIZE):
    """octet tokens of one TS packet; payload octets are symbolic.  af_len is
    written as given even when it is not a legal value."""
    h = [TS_SYNC, (tei << 7) | (pusi << 6) | ((pid >> 8) & 0x1f), pid & 0xff,
         (has_af << 5) | (has_payload << 4) | (cc & 0xf)]
    if has_af:
        h.append(af_len & 0xff)
        body = []
        if af_len > 0:
            body.append((disc << 7) | (rai << 6) | ((1 if pcr is not None else 0) << 4))
            if pcr is not None:
                base, ext = pcr
                body += [(base >> 25) & 0xff, (base >> 17) & 0xff, (base >> 9) & 0xff, (base >> 1) & 0xff,
                         ((base & 1) << 7) | 0x7e | ((ext >> 8) & 1), ext & 0xff]
            while len(body) < af_len:
                body.append(0xff)
            body = body[:max(af_len, len(body))]
        h += body
    h = h[:TS_SIZE]
    pkt = h + payload_tokens(tag, TS_SIZE - len(h))
    return pkt[:size]


def ts_parse(pkt):
    """fields of a (complete) TS packet given as tokens; header octets must
    be concrete"""
    d = {'sync': pkt[0], 'tei': pkt[1] >> 7, 'pusi': (pkt[1] >> 6) & 1, 'pid': ((pkt[1] & 0x1f) << 8) | pkt[2],
         'has_af': (pkt[3] >> 5) & 1, 'has_payload': (pkt[3] >> 4) & 1, 'cc': pkt[3] & 0xf}
    off = 4
    if d['has_af']:
        d['af_len'] = pkt[4]
        off = 5 + pkt[4]
        if pkt[4] > 0:
            d['disc'] = pkt[5] >> 7
            d['rai'] = (pkt[5] >> 6) & 1
            d['has_pcr'] = (pkt[5] >> 4) & 1
            if d['has_pcr'] and pkt[4] >= 7:
                b = pkt[6:12]
                d['pcr'] = ((b[0] << 25) | (b[1] << 17) | (b[2] << 9) | (b[3] << 1) | (b[4] >> 7), ((b[4] & 1) << 8) | b[5])
    d['payload_off'] = off
    return d


def pes_header(stream_id=0xe0, length=0, pts=None, dts=None, header_len=None, align=0):
    """PES header octets (ISO 13818-1 2.4.3.6) for stream ids that carry the
    optional header"""
    flags = (2 if pts is not None else 0) | (1 if dts is not None else 0)
    opt = []
    if pts is not None:
        opt += ts_field(0x2 | (1 if dts is not None else 0), pts)
    if dts is not None:
        opt += ts_field(0x1, dts)
    if header_len is None:
        header_len = len(opt)
    opt += [0xff] * (header_len - len(opt))
    return [0, 0, 1, stream_id, (length >> 8) & 0xff, length & 0xff,
            0x80 | (align << 2), flags << 6, header_len] + opt


def ts_field(marker, v):
    """5-octet PTS/DTS field"""
    return [(marker << 4) | (((v >> 30) & 7) << 1) | 1, (v >> 22) & 0xff, (((v >> 15) & 0x7f) << 1) | 1,
            (v >> 7) & 0xff, ((v & 0x7f) << 1) | 1]


def ts_field_parse(b):
    return (((b[0] >> 1) & 7) << 30) | (b[1] << 22) | ((b[2] >> 1) << 15) | (b[3] << 7) | (b[4] >> 1)


def psi_section(table_id, body_len, tag='s', syntax=1):
    """PSI section: 3-octet header with section_length = body_len, followed
    by body_len symbolic octets"""
    return [table_id, (syntax << 7) | 0x30 | ((body_len >> 8) & 0xf), body_len & 0xff] + payload_tokens(tag, body_len)
