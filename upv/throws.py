"""Which probe events a function may throw on the pipe it is given, and
whether it feeds the pipe's output (used by C04 R-ready / R-dead)."""
import re

from .facts import strip, strip_all_casts, walk, postorder, path_of

LOG_RE = re.compile(r'^upipe_(log|err|warn|notice|dbg|verbose|info)(_va)?$')
THROW_RE = re.compile(r'^upipe_(split_)?throw(_\w+)?$')
CONV_RE = re.compile(r'^\w+_(to|from)_\w+$')
OUTPUT_FEED = {'upipe_input', 'upipe_set_flow_def'}
UPROBE_THROW = {'uprobe_throw_fatal', 'uprobe_throw_error', 'uprobe_throw', 'uprobe_throw_va'}


class Throws:
    def __init__(self, prog):
        self.prog = prog
        self.memo = {}
        self.stack = set()

    def same_pipe(self, fn, n, root, ldefs=None, depth=0):
        """does expression n designate the pipe `root` (a parameter index or
        a variable name) itself, through conversions only?"""
        if depth > 6:
            return False
        n = strip_all_casts(fn.resolve(n)) if isinstance(n, dict) else n
        if not isinstance(n, dict):
            return False
        k = n.get('k')
        if k == 'ref':
            if isinstance(root, int):
                if n.get('d') == 'param' and n.get('pi') == root:
                    return True
            elif n.get('n') == root:
                return True
            if n.get('d') == 'local':
                ldefs = ldefs if ldefs is not None else fn.local_defs()
                d = ldefs.get(n['n'])
                if isinstance(d, dict):
                    return self.same_pipe(fn, d, root, ldefs, depth + 1)
            return False
        if k == 'call' and n.get('fn') and len(n.get('args', [])) == 1 and CONV_RE.match(n['fn']):
            return self.same_pipe(fn, n['args'][0], root, ldefs, depth + 1)
        if k == 'container_of':
            return self.same_pipe(fn, n['e'], root, ldefs, depth + 1)
        if k == 'un' and n.get('op') == '&' and 'e' in n:
            m = strip_all_casts(n['e'])
            if isinstance(m, dict) and m.get('k') == 'mem':
                # address of an embedded sub-structure (s->upipe)
                return self.same_pipe(fn, m['b'], root, ldefs, depth + 1)
        return False

    def is_output_field(self, n):
        n = strip_all_casts(n)
        return isinstance(n, dict) and n.get('k') == 'mem' and (n.get('mp') == 'OUTPUT' or n.get('f') == 'output')

    def events_of_call(self, unit, fn, x, root, ldefs):
        """events caused on pipe `root` by call node x inside fn: list of
        (kind, description)"""
        name = x.get('fn')
        args = x.get('args', [])
        if not name or not args:
            return []
        a0 = args[0]
        if name in UPROBE_THROW and len(args) > 1:
            # upipe_throw_fatal / upipe_throw_error are macros over these
            if self.same_pipe(fn, args[1], root, ldefs):
                return [('throw:' + name, '%s at %s:%s' % (name, fn.file, x.get('l')))]
            return []
        if name in OUTPUT_FEED:
            if self.is_output_field(a0):
                b = strip_all_casts(a0).get('b')
                if self.same_pipe(fn, b, root, ldefs):
                    return [('output', '%s(output) at %s:%s' % (name, fn.file, x.get('l')))]
            return []
        if not self.same_pipe(fn, a0, root, ldefs):
            return []
        if LOG_RE.match(name):
            return [('log', '%s at %s:%s' % (name, fn.file, x.get('l')))]
        if THROW_RE.match(name):
            return [('throw:' + name, '%s at %s:%s' % (name, fn.file, x.get('l')))]
        callee = self.prog.lookup(unit, name)
        if callee is None or not callee.blocks:
            return []
        if callee.unit is self.prog.hdr and not callee.macro:
            # plain header API taking the pipe first: control wrappers etc.
            # do not throw on the caller's behalf
            return []
        out = []
        for kind, desc in self.summary(callee.unit, callee):
            out.append((kind, '%s > %s' % (name, desc)))
        return out

    def summary(self, unit, fn):
        """events fn may cause on the pipe passed as its parameter 0"""
        key = (unit.name, fn.name)
        if key in self.memo:
            return self.memo[key]
        if key in self.stack:
            return []
        self.stack.add(key)
        out = []
        try:
            ldefs = fn.local_defs()
            for bid, s, x in fn.calls():
                out += self.events_of_call(unit, fn, x, 0, ldefs)
        finally:
            self.stack.discard(key)
        # one representative per kind keeps reports short
        seen, res = set(), []
        for kind, desc in out:
            if kind not in seen:
                seen.add(kind)
                res.append((kind, desc))
        self.memo[key] = res
        return res
