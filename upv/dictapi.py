"""Interpretation of the attribute dictionary (lib/upipe/udict_inline.c and the
generic / typed layer of include/upipe/udict.h) for C10: a dictionary is a
structure with a used size and a byte buffer (a region of concrete octets that
umem_realloc can grow); names are NUL-terminated octet strings; the static
tables of udict_inline.c are read from their initialisers.  udict_control() is
dispatched to the udict_inline_* function of the command (a ghost of the
twelve-line switch over va_list)."""
import re

from .absint import Machine, Finding, Undecided, PathEnd, SYM, wrap
from .facts import strip_all_casts

NULL = ('null',)


class DictAPI(Machine):
    max_steps = 200000
    max_depth = 14

    def __init__(self, prog, unit, min_size=4, extra_size=3):
        Machine.__init__(self, prog, unit)
        self.dicts = {}       # id -> {'size': used size, 'buf': region name}
        self.freed = set()
        self.bytes = {}       # region -> list of octets
        self.strs = {}        # python string -> region
        self.nreg = 0
        self.min_size = min_size
        self.extra_size = extra_size
        self.tables = {}
        for name, g in unit.globals.items():
            init = g.get('init')
            if isinstance(init, dict) and init.get('k') == 'initlist':
                self.tables[name] = init['elts']
        self.E = dict(prog.hdr.enumerators)
        self.E.update(unit.enumerators)
        self.err_invalid = self.E.get('UBASE_ERR_INVALID', 6)

    # ---- objects -----------------------------------------------------------------------
    def new_region(self, octets, prefix='r'):
        self.nreg += 1
        r = '%s#%d' % (prefix, self.nreg)
        self.bytes[r] = list(octets)
        self.regions[r] = len(octets)
        return r

    def cstr(self, s):
        if s is None:
            return NULL
        if s not in self.strs:
            self.strs[s] = self.new_region([ord(c) for c in s] + [0], 'str')
        return ('p', self.strs[s], 0)

    def new_dict(self, size=0):
        i = len(self.dicts) + 1
        n = max(size, self.min_size, 1)
        r = self.new_region([0] + [0xDD] * (n - 1), 'dict%d' % i)
        self.dicts[i] = {'size': 1, 'buf': r}
        return ('ud', i)

    def read_str(self, p, limit=64):
        out = []
        for k in range(limit):
            c = self.octet(('p', p[1], p[2] + k), None)
            if c == 0:
                return ''.join(chr(x) for x in out)
            if not isinstance(c, int):
                raise Undecided('string with unknown octets')
            out.append(c)
        raise Finding('unterminated string', None, 'no NUL within %d octets of %s' % (limit, p[1]))

    # ---- memory --------------------------------------------------------------------------------
    def octet(self, p, node, write=False, val=None):
        ln = node.get('l') if isinstance(node, dict) else None
        reg, i = p[1], p[2]
        if reg.startswith('g:'):
            elts = self.tables.get(reg[2:])
            if write or elts is None or not (0 <= i < len(elts)):
                raise Finding('out-of-bounds access', ln, 'element %d of table %s' % (i, reg[2:]))
            e = elts[i]['e']
            return e.get('cv', e.get('v'))
        b = self.bytes.get(reg)
        if b is None:
            raise Undecided('access to unknown region %s' % reg)
        size = self.regions.get(reg, len(b))
        if not (0 <= i < size):
            raise Finding('out-of-bounds %s' % ('write' if write else 'read'), ln, 'octet %d of the %d octets of %s' % (i, size, reg.split('#')[0]))
        while len(b) < size:
            b.append(0xDD)
        if write:
            b[i] = val
            return None
        return b[i]

    def deref(self, p, node, write):
        if isinstance(p, tuple) and p[0] == 'p':
            if write:
                return SYM
            return self.octet(p, node)
        return SYM

    def store(self, fn, lv, v, env, node):
        Machine.store(self, fn, lv, v, env, node)
        if lv is not None and lv[0] == 'mem' and isinstance(lv[1], tuple) and lv[1][0] == 'p':
            self.octet(lv[1], node, write=True, val=(v & 0xff) if isinstance(v, int) else v)

    def exec(self, fn, s, env, depth):
        if s.get('k') == 'decl':
            for v in s['vars']:
                m = re.match(r'^(?:const )?(?:uint8_t|unsigned char|char)\[(\d+)\]$', v.get('t') or '')
                if m and not isinstance(v.get('init'), dict):
                    env[v['n']] = ('p', self.new_region([0xDD] * int(m.group(1)), 'local'), 0)
                    continue
                if re.match(r'^(?:const )?(?:uint8_t|unsigned char|char)\[.*\]$', v.get('t') or '') and not isinstance(v.get('init'), dict):
                    env[v['n']] = ('p', self.new_region([0xDD] * 64, 'vla'), 0)     # variable-length array: 64 octets are enough for the domain
                    continue
                env[v['n']] = wrap(self.eval(fn, v['init'], env, depth), v) if isinstance(v.get('init'), dict) else SYM
            return None
        return Machine.exec(self, fn, s, env, depth)

    def eval(self, fn, n, env, depth):
        if isinstance(n, dict):
            k = n.get('k')
            if k == 'ref' and n.get('d') in ('global', 'sglobal', 'var') and n.get('n') in self.tables and n['n'] not in env:
                return ('p', 'g:' + n['n'], 0)
            if k == 'str':
                return self.cstr(n.get('v'))
        v = Machine.eval(self, fn, n, env, depth)
        if isinstance(v, tuple) and len(v) == 5 and v[0] == 'addr' and v[1] == 'field' and v[4] == 'udict' and isinstance(v[2], tuple) and v[2][0] == 'ud':
            return v[2]
        return v

    # ---- fields -----------------------------------------------------------------------------------
    def field_load(self, obj, rec, field):
        if isinstance(obj, tuple) and obj[0] == 'ud':
            if obj[1] in self.freed:
                raise Finding('use after free', None, 'dictionary %d' % obj[1])
            if rec == 'udict_inline' and field == 'size':
                return self.dicts[obj[1]]['size']
            if rec == 'udict' and field == 'mgr':
                return ('obj', 'mgr')
        if rec == 'udict_inline_mgr':
            if field == 'extra_size':
                return self.extra_size
            if field == 'min_size':
                return self.min_size
        if rec == 'udict_mgr':
            return ('obj', 'fn:' + field)
        # an element of a static table of structures
        o = obj
        if isinstance(o, tuple) and o[0] == 'lv' and len(o) >= 3 and isinstance(o[2], tuple):
            o = o[2]
        if isinstance(o, tuple) and o[0] == 'p' and o[1].startswith('g:'):
            elts = self.tables.get(o[1][2:])
            if elts is None or not (0 <= o[2] < len(elts)):
                raise Finding('out-of-bounds read', None, 'element %d of table %s (%d entries)' % (o[2], o[1][2:], len(elts or [])))
            row = elts[o[2]]['e']
            for e in row.get('elts', []):
                if e.get('f') == field:
                    x = e['e']
                    if 'cv' in x:
                        return x['cv']
                    y = strip_all_casts(x)
                    if isinstance(y, dict) and y.get('k') == 'str':
                        return self.cstr(y.get('v'))
                    return y.get('v', SYM) if isinstance(y, dict) else SYM
        if isinstance(obj, tuple) and obj[0] in ('st',):
            return self.objf.get((obj, field), SYM) if hasattr(self, 'objf') else SYM
        return self.structs.get((obj, field), SYM) if hasattr(self, 'structs') else SYM

    def field_store(self, obj, rec, field, v, node):
        if isinstance(obj, tuple) and obj[0] == 'ud' and rec == 'udict_inline' and field == 'size':
            self.dicts[obj[1]]['size'] = v
            return
        if not hasattr(self, 'structs'):
            self.structs = {}
        self.structs[(obj, field)] = v

    # ---- calls ---------------------------------------------------------------------------------------
    def umem_of(self, a):
        if isinstance(a, tuple) and a[0] == 'addr' and a[1] == 'field' and isinstance(a[2], tuple) and a[2][0] == 'ud':
            return self.dicts[a[2][1]]
        raise Undecided('umem of an unknown object')

    def call(self, fn, node, args, env, depth):
        name = node.get('fn')
        ln = node.get('l')
        if name is None:
            raise NotImplementedError
        if name in ('__assert_fail', 'abort'):
            raise PathEnd()
        v = [self.eval(fn, a, env, depth) for a in args]
        if name == 'ubase_check':
            return SYM if not isinstance(v[0], int) else int(v[0] == 0)
        if name == '__builtin_expect':
            return v[0]
        if name in ('udict_inline_from_udict', 'udict_inline_to_udict'):
            return v[0]
        if name == 'udict_inline_mgr_from_udict_mgr':
            return ('obj', 'imgr')
        if name == 'umem_buffer':
            return ('p', self.umem_of(v[0])['buf'], 0)
        if name == 'umem_size':
            return self.regions[self.umem_of(v[0])['buf']]
        if name == 'umem_realloc':
            d = self.umem_of(v[0])
            if not isinstance(v[1], int):
                raise Undecided('realloc to a symbolic size')
            self.regions[d['buf']] = v[1]
            b = self.bytes[d['buf']]
            del b[v[1]:]
            return 1
        if name in ('strlen',):
            return len(self.read_str(v[0]))
        if name in ('strcmp',):
            a, b = self.read_str(v[0]), self.read_str(v[1])
            return 0 if a == b else (-1 if a < b else 1)
        if name in ('memcpy', 'memmove', '__builtin_memcpy', '__builtin___memcpy_chk', '__builtin___memmove_chk'):
            dst, src, n = v[0], v[1], v[2]
            if not isinstance(n, int):
                raise Undecided('memcpy of a symbolic length at line %s' % ln)
            if n < 0 or n > 4096:
                raise Finding('absurd copy length', ln, '%d octets' % n)
            toks = [self.octet(('p', src[1], src[2] + i), node) for i in range(n)]
            for i, t in enumerate(toks):
                self.octet(('p', dst[1], dst[2] + i), node, write=True, val=t)
            return dst
        if name == 'memcmp':
            a, b, n = v
            for i in range(n):
                x, y = self.octet(('p', a[1], a[2] + i), node), self.octet(('p', b[1], b[2] + i), node)
                if x != y:
                    return -1 if (isinstance(x, int) and isinstance(y, int) and x < y) else 1
            return 0
        if name == 'udict_alloc':
            return self.new_dict(v[1] if isinstance(v[1], int) else 0)
        if name == 'udict_free':
            if isinstance(v[0], tuple) and v[0][0] == 'ud':
                if v[0][1] in self.freed:
                    raise Finding('double free', ln, 'dictionary %d' % v[0][1])
                self.freed.add(v[0][1])
            return None
        if name == 'udict_control':
            return self.control(fn, node, v, depth)
        callee = self.prog.lookup(self.unit, name)
        if callee is not None and callee.blocks and name.startswith(('udict_', '_udict_')):
            return self.run(callee, v, depth + 1)
        return SYM

    def control(self, fn, node, v, depth):
        ud, cmd = v[0], v[1]
        E = self.E
        U = self.unit.funcs
        if cmd == E.get('UDICT_DUP'):
            src = self.dicts[ud[1]]
            new = self.new_dict(src['size'])
            nb = self.bytes[self.dicts[new[1]]['buf']]
            sb = self.bytes[src['buf']]
            for i in range(src['size']):
                if i < len(nb):
                    nb[i] = sb[i]
                else:
                    nb.append(sb[i])
            self.regions[self.dicts[new[1]]['buf']] = max(self.regions[self.dicts[new[1]]['buf']], src['size'])
            self.dicts[new[1]]['size'] = src['size']
            self._out(v[2], new)
            return 0
        table = {'UDICT_ITERATE': 'udict_inline_iterate', 'UDICT_GET': 'udict_inline_get', 'UDICT_SET': 'udict_inline_set',
                 'UDICT_DELETE': 'udict_inline_delete', 'UDICT_NAME': 'udict_inline_name'}
        for k, f in table.items():
            if cmd == E.get(k):
                r = self.run(U[f], [ud] + v[2:] if k != 'UDICT_NAME' else v[2:], depth + 1)
                return 0 if k == 'UDICT_ITERATE' else r
        raise Undecided('udict_control command %r' % (cmd,))

    def _out(self, dst, val):
        if isinstance(dst, tuple) and dst[0] == 'addr' and dst[1] == 'var':
            self.cells[(dst[3], dst[2])][dst[2]] = val

    def outvar(self, name, val=None):
        env = {name: val}
        self.cells[(id(env), name)] = env
        return ('addr', 'var', name, id(env)), env
