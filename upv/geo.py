"""A small object-memory machine for the geometry code of picture and sound
buffers (C19): structures are dictionaries of fields, arrays of structures and
of pointers are regions of cells, memory areas are only sizes (pointers into
them are offsets).  All integers are concrete; the functions are walked on the
CFGs of /repo."""
import re

from .absint import Machine, Finding, Undecided, PathEnd, SYM, wrap

NULL = ('null',)


class Geo(Machine):
    max_steps = 20000
    max_depth = 8

    def __init__(self, prog, unit):
        Machine.__init__(self, prog, unit)
        self.F = {}        # (object key, field) -> value
        self.C = {}        # (region, index) -> value (arrays of scalars / pointers)
        self.alias = {}    # conversion function name -> callable(value) -> value
        self.vargs = []    # pending va_arg values
        self.inline_prefix = ()
        self.nreg = 0

    def key(self, obj):
        if isinstance(obj, tuple):
            if obj[0] == 'lv' and len(obj) >= 3 and isinstance(obj[2], tuple) and obj[2][0] == 'p':
                return ('el', obj[2][1], obj[2][2])
            if obj[0] == 'p':
                return ('el', obj[1], obj[2])
            if obj[0] == 'lv' and len(obj) >= 3 and obj[1] == 'field':
                return ('sub',) + tuple(obj[2:])
        return obj

    def field_load(self, obj, rec, field):
        k = (self.key(obj), field)
        if k in self.F:
            return self.F[k]
        return SYM

    def field_store(self, obj, rec, field, v, node):
        self.F[(self.key(obj), field)] = v

    def deref(self, p, node, write):
        if isinstance(p, tuple) and p[0] == 'p':
            if write:
                return SYM
            return self.C.get((p[1], p[2]), SYM)
        return SYM

    def store(self, fn, lv, v, env, node):
        Machine.store(self, fn, lv, v, env, node)
        if lv is not None and lv[0] == 'mem' and isinstance(lv[1], tuple) and lv[1][0] == 'p':
            self.C[(lv[1][1], lv[1][2])] = v

    def exec(self, fn, s, env, depth):
        if s.get('k') == 'decl':
            for v in s['vars']:
                if re.match(r'^(size_t|uint\d+_t|int|unsigned int)\[.*\]$', v.get('t') or '') and not isinstance(v.get('init'), dict):
                    self.nreg += 1
                    env[v['n']] = ('p', 'arr:%s#%d' % (v['n'], self.nreg), 0)
                    continue
                env[v['n']] = wrap(self.eval(fn, v['init'], env, depth), v) if isinstance(v.get('init'), dict) else SYM
            return None
        return Machine.exec(self, fn, s, env, depth)

    def eval(self, fn, n, env, depth):
        if isinstance(n, dict):
            k = n.get('k')
            if k == 'va_arg':
                if not self.vargs:
                    raise Undecided('va_arg without a supplied argument')
                return self.vargs.pop(0)
            if k == 'cast' and n.get('ck') == 'PointerToIntegral':
                v = self.eval(fn, n['e'], env, depth)
                if isinstance(v, tuple) and v[0] == 'p':
                    return v[2]          # areas are aligned to anything the domain uses
                return v
        return Machine.eval(self, fn, n, env, depth)

    def call(self, fn, node, args, env, depth):
        name = node.get('fn')
        if name is None:
            raise NotImplementedError
        if name in ('__assert_fail', 'abort'):
            raise PathEnd()
        v = [self.eval(fn, a, env, depth) for a in args]
        if name == 'ubase_check':
            return SYM if not isinstance(v[0], int) else int(v[0] == 0)
        if name == '__builtin_expect':
            return v[0]
        if name in self.alias:
            return self.alias[name](*v)
        callee = self.prog.lookup(self.unit, name)
        if callee is not None and callee.blocks and name.startswith(self.inline_prefix):
            return self.run(callee, v, depth + 1)
        return SYM

    def outvar(self, name, val=None):
        env = {name: val}
        self.cells[(id(env), name)] = env
        return ('addr', 'var', name, id(env)), env
