"""Ownership typestate (DESIGN §3.2, rule R-own).

Explicit-state exploration of one function's CFG.  Tracked objects are the
`struct uref *` / `struct ubuf *` values the function owns: its owned
parameters (functions installed in an upipe_input slot, handler callbacks)
and the results of producer calls.  Atoms: O owned, C consumed (freed or
handed on), K kept (stored into a structure or list: alive, owned
elsewhere), N null.

Paths are explored one abstract state at a time (no joins); pure branch
conditions are remembered so that re-tests of the same condition stay
correlated; calls whose effect on an owned argument depends on the path taken
inside the callee fork over the callee's *outcome set* (computed bottom-up
with this same engine); nullable producers fork.  Paths are tagged with the
fallible calls whose failure branch they take.
"""
import re

from .facts import (strip, strip_all_casts, strip_expect, walk, is_assign,
                    is_incdec, const_of, path_of, children)

TRACKED_TYPES = ('struct uref *', 'struct ubuf *')
# reference-counted arguments a provider call-back receives through va_arg (urequest.h: they belong to the callee)
REF_TYPES = ('struct ubuf_mgr *', 'struct uref_mgr *', 'struct uclock *')

O, C, K, N = 'O', 'C', 'K', 'N'

PRODUCER_RE = re.compile(r'(alloc|dup|fork|copy|splice|split)')
# producers that are not allocations: NULL is an ordinary outcome
NULLABLE_PRODUCERS = {'uref_detach_ubuf', 'uqueue_pop'}
NOT_PRODUCERS = {'ubuf_block_get', 'uref_from_uchain', 'ubuf_from_uchain'}

CONSUME = frozenset({(C, None)})
KEEP = frozenset({(K, None)})
BORROW = frozenset({(O, None)})
COND_TRUE = frozenset({(C, True), (O, False)})
CONSUME_ON_OK = frozenset({(C, 'zero'), (O, 'nonzero')})

# Functions defined in the public headers (include/upipe/*.h) or in the core
# library are the API: their ownership contract is this table (frozen from
# doc/rules.mkdoc and the header comments); every other API function borrows.
TABLE = {
    ('uref_free', 0): CONSUME,
    ('ubuf_free', 0): CONSUME,
    ('upipe_input', 1): CONSUME,
    ('uref_attach_ubuf', 1): KEEP,       # the ubuf stays alive, owned by the uref
    ('uref_fork', 1): 'consume_if_result',   # the new uref takes the ubuf; on failure it stays with the caller
    ('urequest_provide_flow_format', 1): CONSUME,   # urequest.h: all arguments belong to the callee
    ('urequest_provide_ubuf_mgr', 2): CONSUME,
    ('ubuf_block_append', 1): CONSUME_ON_OK,
    ('uref_block_append', 1): CONSUME_ON_OK,
    ('ubuf_block_insert', 2): CONSUME_ON_OK,
    ('uref_block_insert', 2): CONSUME_ON_OK,
    ('ubuf_mgr_release', 0): CONSUME,
    ('uref_mgr_release', 0): CONSUME,
    ('uclock_release', 0): CONSUME,
    ('uqueue_push', 1): COND_TRUE,
    ('ulist_add', 1): KEEP,
    ('ulist_unshift', 1): KEEP,
    ('ulist_insert', 2): KEEP,
    ('ulist_delete', 0): 'unkeep',
    ('urequest_init', 2): KEEP,
    ('urequest_init_flow_format', 1): KEEP,
    ('urequest_init_ubuf_mgr', 1): KEEP,
    # exceptions to "control arguments belong to the caller", confirmed by reading
    ('upipe_vblk_set_pic', 1): CONSUME,   # upipe_video_blank.c upipe_vblk_set_pic_real frees/keeps the uref
    ('upipe_ablk_set_sound', 1): CONSUME,  # upipe_audio_blank.c upipe_ablk_set_sound_real frees the uref
}
CORE_API_RE = re.compile(r'^(uref_|ubuf_|udict_|uprobe_|uclock_|umem_|ustring_|uuri_|ucookie_|urequest_|upump_|ulist_|uchain_|ubase_|upipe_(throw|log|dbg|warn|err|notice|verbose|info)|printf|fprintf|snprintf|memcpy|memcmp|memset|strlen|strcmp|__builtin_|__assert_fail)')
# wrappers returning (a pointer into) their argument
ALIAS_FNS = {'uref_to_uchain': 0, 'uref_from_uchain': 0, 'ubuf_to_uchain': 0,
             'ubuf_from_uchain': 0, '__builtin_expect': 0}
# fallible calls whose failure depends on what the input buffer carries
# (absent attribute, absent or foreign payload): violations on their failure
# branch are armed; failures of other calls are treated like allocation
# failures (DESIGN §3.1)
INPUT_DEP_RE = re.compile(r'^(uref_\w+_get_\w+|uref_flow_match_def|uref_\w*match\w*|uref_(block|pic|sound)_size|uref_\w+_cmp\w*)$')

CONV_NONNULL_RE = re.compile(r'^\w+_(to|from)_\w+$')
LOUD_RE = re.compile(r'^(upipe_(throw\w*|warn(_va)?|err(_va)?|notice(_va)?)|uprobe_throw\w*)$')
FORWARD_RE = re.compile(r'(^upipe_input$|_output$|_output_\w+$)')

MAX_STATES = 20000
OUTPARAM_PRODUCER_RE = re.compile(r'_alloc_flow$')


class Violation:
    def __init__(self, kind, var, line, path, detail=''):
        self.kind = kind
        self.var = var
        self.line = line
        self.path = path
        self.detail = detail
        self.af = False
        self.err = frozenset()

    def armed(self):
        return not self.af and all(INPUT_DEP_RE.match(e) for e in self.err)

    def key(self):
        return (self.kind, self.var, self.line)


class Env:
    __slots__ = ('vars', 'objs', 'facts', 'af', 'esc', 'err', 'how', 'loud', 'nout')

    def __init__(self):
        self.vars = {}     # var name -> object id
        self.objs = {}     # object id -> atom
        self.facts = {}    # cond key / ('var',name) / ('call',id) ... -> value
        self.af = False    # allocation-failure path
        self.esc = frozenset()
        self.err = frozenset()
        self.how = {}      # object id -> name of the call that consumed / kept it
        self.loud = False  # a warning / error / throw happened on this path
        self.nout = 0      # number of forwarding calls on this path (capped at 2)

    def copy(self):
        e = Env()
        e.vars = dict(self.vars)
        e.objs = dict(self.objs)
        e.facts = dict(self.facts)
        e.af = self.af
        e.esc = self.esc
        e.err = self.err
        e.how = dict(self.how)
        e.loud = self.loud
        e.nout = self.nout
        return e

    def freeze(self):
        return (tuple(sorted(self.vars.items())), tuple(sorted(self.objs.items())),
                tuple(sorted((str(k), str(v)) for k, v in self.facts.items())),
                self.af, self.esc, self.err, tuple(sorted(self.how.items())), self.loud, self.nout)


# calls that only read their arguments and return the same answer while
# nothing was assigned in between (used for condition correlation only)
PURE_PREDICATES = {'ubase_check', 'ulist_empty', 'ulist_is_last', 'ulist_is_first', 'ulist_is_in',
                   'uchain_next'}


def cond_key(n):
    """canonical text of a pure condition, with polarity; None if impure"""
    n, neg = strip_expect(n)
    if not isinstance(n, dict):
        return None, neg
    if n.get('k') == 'bin' and n.get('op') in ('==', '!=') and 'lhs' in n:
        l, r = n['lhs'], n['rhs']
        kl = cond_key_expr(l)
        kr = cond_key_expr(r)
        if kl is None or kr is None:
            return None, neg
        rs = strip_all_casts(r)
        if const_of(r) == 0 and isinstance(rs, dict) and rs.get('k') in ('int', 'cast'):
            # x == 0  <=>  !x
            return kl, (not neg) if n['op'] == '==' else neg
        key = '(%s==%s)' % (kl, kr)
        return key, (not neg) if n['op'] == '!=' else neg
    return cond_key_expr(n), neg


def cond_key_expr(n):
    n = strip_all_casts(n)
    if not isinstance(n, dict):
        return None
    k = n.get('k')
    if 'cv' in n:
        return str(n['cv'])
    if k == 'int':
        return str(n.get('v'))
    if k == 'ref':
        return n['n']
    if k == 'mem':
        b = cond_key_expr(n['b'])
        return None if b is None else b + ('->' if n.get('arrow') else '.') + n['f']
    if k == 'un' and 'e' in n and n['op'] in ('*', '!', '-', '~', '&'):
        b = cond_key_expr(n['e'])
        return None if b is None else n['op'] + b
    if k == 'bin' and 'lhs' in n and n['op'] in ('==', '!=', '<', '>', '<=', '>=', '&', '|', '+', '-', '*', '/', '%', '<<', '>>'):
        l = cond_key_expr(n['lhs'])
        r = cond_key_expr(n['rhs'])
        return None if l is None or r is None else '(%s%s%s)' % (l, n['op'], r)
    if k == 'idx':
        b = cond_key_expr(n['b'])
        x = cond_key_expr(n['x'])
        return None if b is None or x is None else '%s[%s]' % (b, x)
    if k == 'call' and n.get('fn') == '__builtin_expect':
        return cond_key_expr(n['args'][0])
    if k == 'call' and n.get('fn') in PURE_PREDICATES:
        parts = [cond_key_expr(a) for a in n['args']]
        if any(p is None for p in parts):
            return None
        return '%s(%s)' % (n['fn'], ','.join(parts))
    if k == 'container_of':
        b = cond_key_expr(n['e'])
        return None if b is None else 'cof(%s)' % b
    return None


class Own:
    def __init__(self, prog, input_fns=None, contracts=None, tracked=TRACKED_TYPES, va_owned=False):
        self.prog = prog
        self.tracked = tuple(tracked)
        self.va_owned = va_owned     # va_arg of a tracked type yields an owned object (provider call-backs)
        self.summ = {}
        self.inprog = set()
        self.input_fns = input_fns or {}   # unit name -> set of function names in upipe_input slots
        self.contracts = contracts or {}   # (unit name, fn name, idx) -> outcome set assumed at call sites
        self.producer_memo = {}

    # ---- callee classification -----------------------------------------
    def is_producer(self, unit, name, callnode):
        t = callnode.get('t')
        if t not in self.tracked:
            return None
        if name in NOT_PRODUCERS or name in ALIAS_FNS:
            return None
        fn = self.prog.lookup(unit, name)
        if fn is not None and fn.unit is not self.prog.hdr:
            return self.returns_owned(unit, fn)      # module-local: computed
        if name in NULLABLE_PRODUCERS:
            return 'nullable'
        if PRODUCER_RE.search(name):
            return 'alloc'
        if re.search(r'pop|extract', name):
            return 'nullable'
        return None

    def returns_owned(self, unit, fn):
        key = (unit.name, fn.name)
        if key in self.producer_memo:
            return self.producer_memo[key]
        self.producer_memo[key] = None
        res = self.explore(unit, fn, owned_params=())
        r = None
        if res['decided'] and res['returns']:
            kinds = set(res['returns'])
            if kinds <= {'owned', 'null'} and 'owned' in kinds:
                r = 'alloc' if res['null_is_af'] else 'nullable'
        self.producer_memo[key] = r
        return r

    def action(self, unit, name, idx):
        """outcome set of a direct call to `name` on an owned object passed
        as argument idx (or 'unkeep' / 'escape')"""
        if (name, idx) in TABLE:
            return TABLE[(name, idx)]
        if name in self.input_fns.get(unit.name, ()) and idx == 1:
            return CONSUME      # slot contract (assume/guarantee)
        c = self.contracts.get((unit.name, name, idx))
        if c is not None:
            return c
        fn = self.prog.lookup(unit, name)
        if fn is None or not fn.blocks:
            # no body in reach: the core library API borrows (its consuming
            # entry points are in TABLE); module-level APIs of other
            # translation units are not known
            if CORE_API_RE.match(name):
                return BORROW
            return 'escape'
        if fn.unit is self.prog.hdr and not fn.macro and (fn.file or '').startswith('include/upipe/'):
            return BORROW       # core header API: TABLE or borrow (cross-checked in the evidence)
        if idx >= len(fn.params) or fn.params[idx]['t'] not in self.tracked:
            return BORROW
        return self.summary(fn.unit, fn, idx)

    def summary(self, unit, fn, idx):
        key = (unit.name, fn.name, idx)
        if key in self.summ:
            return self.summ[key]
        if key in self.inprog:
            return 'escape'     # recursion without a contract
        self.inprog.add(key)
        try:
            res = self.explore(unit, fn, owned_params=(idx,))
        finally:
            self.inprog.discard(key)
        s = 'escape'
        if res['decided']:
            exits = [e for e in res['exits'] if not e[2] and all(INPUT_DEP_RE.match(x) for x in e[4])]   # drop failure-path exits
            if not exits:
                exits = [e for e in res['exits'] if not e[2]] or res['exits']
            outs = set()
            for atom, rk, af, line, err in exits:
                if atom in (O, C, K):
                    outs.add((atom, rk))
            # if the return value does not discriminate, forget it
            if len({a for a, _ in outs}) == 1:
                rks = {rk for _, rk in outs}
                outs = {(next(iter(outs))[0], next(iter(rks)) if len(rks) == 1 else None)}
            if outs:
                s = frozenset(outs)
        self.summ[key] = s
        return s

    def explore(self, unit, fn, owned_params=()):
        return _Explorer(self, unit, fn, owned_params).run()

    def input_dep(self, unit, name, depth=0):
        """the failure of `name` depends on what the buffer / flow definition carries: an attribute getter or matcher, or a
        function of the unit that returns the failure of one (X_check_flow_def and the like)"""
        if INPUT_DEP_RE.match(name):
            return True
        key = (unit.name, name)
        memo = self.__dict__.setdefault('_input_dep', {})
        if key in memo:
            return memo[key]
        memo[key] = False
        fn = self.prog.lookup(unit, name)
        r = False
        if fn is not None and fn.blocks and fn.ret == 'int' and depth < 2 and fn.unit is unit:
            r = any(x.get('k') == 'call' and x.get('fn') and x['fn'] != name and self.input_dep(unit, x['fn'], depth + 1) for _, _, x in fn.nodes())
        memo[key] = r
        return r


class _Explorer:
    def __init__(self, own, unit, fn, owned_params):
        self.own = own
        self.unit = unit
        self.fn = fn
        self.owned_params = owned_params
        self.viol = {}
        self.exits = []
        self.returns = []
        self.null_is_af = True
        self.undecided = []
        self.forked_calls = set()
        self.esc_leaks = set()
        self.null_deliveries = set()
        self.exit_how = []
        self.ptrvars = set()
        for p in fn.params:
            if p['t'] in own.tracked:
                self.ptrvars.add(p['n'])
        for bid, s, x in fn.nodes():
            if x.get('k') == 'decl':
                for v in x['vars']:
                    if v['t'] in own.tracked or v['t'] == 'struct uchain *':
                        self.ptrvars.add(v['n'])
        self.ldefs = fn.local_defs()
        self.objnames = {}
        self._liveness()

    def _liveness(self):
        fn = self.fn
        keys, names, cids = {}, {}, {}
        for bid in fn.blocks:
            c = fn.cond(bid)
            if c:
                k, _ = cond_key(c[0])
                if k:
                    keys[bid] = k
                # calls whose recorded outcome the condition refers to (the
                # operands of && / || are evaluated in earlier blocks)
                ids, st, seen = set(), [c[0]], set()
                while st:
                    x = st.pop()
                    if not isinstance(x, dict):
                        continue
                    x = fn.resolve(x)
                    if id(x) in seen:
                        continue
                    seen.add(id(x))
                    if x.get('k') == 'call' and 'i' in x:
                        ids.add(x['i'])
                    st.extend(children(x))
                cids[bid] = ids
            ns = set()
            for s in fn.stmts(bid):
                for x in walk(s):
                    if x.get('k') == 'ref' and x.get('d') in ('local', 'param', 'slocal'):
                        ns.add(x['n'])
            if c:
                for x in walk(c[0]):
                    if x.get('k') == 'ref':
                        ns.add(x['n'])
            names[bid] = ns
        live = {b: set() for b in fn.blocks}
        lnames = {b: set(names[b]) for b in fn.blocks}
        lcalls = {b: set(cids.get(b, ())) for b in fn.blocks}
        changed = True
        while changed:
            changed = False
            for b in fn.blocks:
                new = set()
                nn = set(names[b])
                nc = set(cids.get(b, ()))
                if b in keys:
                    new.add(keys[b])
                for s in fn.succ[b]:
                    if s is not None:
                        new |= live[s]
                        nn |= lnames[s]
                        nc |= lcalls[s]
                if new != live[b] or nn != lnames[b] or nc != lcalls[b]:
                    live[b] = new
                    lnames[b] = nn
                    lcalls[b] = nc
                    changed = True
        self.livekeys = live
        self.livenames = lnames
        self.livecalls = lcalls

    def violation(self, kind, var, line, env, trail, detail=''):
        v = Violation(kind, var, line, list(trail), detail)
        v.af = env.af
        # failing calls that are functions of this unit relaying the failure of an attribute getter count as input dependent
        v.err = frozenset(e for e in env.err if INPUT_DEP_RE.match(e) or not self.own.input_dep(self.unit, e))
        k = v.key()
        old = self.viol.get(k)
        if old is None or (not old.armed() and v.armed()):
            self.viol[k] = v

    def run(self):
        fn = self.fn
        env = Env()
        for i in self.owned_params:
            env.vars[fn.params[i]['n']] = 'P%d' % i
            env.objs['P%d' % i] = O
        seen = set()
        work = [(fn.entry, env, (fn.entry,))]
        nstates = 0
        while work:
            bid, env, trail = work.pop()
            key = (bid, env.freeze())
            if key in seen:
                continue
            seen.add(key)
            nstates += 1
            if nstates > MAX_STATES:
                self.undecided.append('state cap exceeded')
                break
            envs = [env]
            retseen = False
            for st in fn.stmts(bid):
                nxt = []
                for e in envs:
                    nxt += self.stmt(st, e, trail)
                envs = nxt
                if st.get('k') == 'return':
                    retseen = True
            blk = fn.blocks[bid]
            succs = fn.succ[bid]
            if blk.get('noret'):
                continue
            if retseen:
                continue
            if bid == fn.exit:
                # reached without a return statement: end of a void function
                for e in envs:
                    self.at_exit(e, None, trail, None, fn.j.get('endline'))
                continue
            for e in envs:
                cnd = fn.cond(bid)
                if cnd:
                    ctree, st_, sf_ = cnd
                    val = self.truth(ctree, e, trail)
                    if val is not None:
                        tgt = st_ if val else sf_
                        if tgt is not None:
                            e2 = self.tag(ctree, val, e)
                            work.append((tgt, self.prune(e2, tgt), trail + (tgt,)))
                        continue
                    k, neg = cond_key(ctree)
                    for branch, tgt in ((True, st_), (False, sf_)):
                        if tgt is None:
                            continue
                        e2 = self.tag(ctree, branch, e)
                        if e2 is e:
                            e2 = e.copy()
                        if k is not None:
                            e2.facts[k] = (branch != neg)
                        else:
                            # an impure condition that is a (negated) call:
                            # remember its outcome for the enclosing && / ||
                            cn, cneg = strip_expect(fn.resolve(ctree))
                            if isinstance(cn, dict) and cn.get('k') == 'call' and 'i' in cn:
                                e2.facts[('call', cn['i'])] = (branch != cneg)
                        work.append((tgt, self.prune(e2, tgt), trail + (tgt,)))
                else:
                    for s in succs:
                        if s is not None:
                            work.append((s, self.prune(e, s), trail + (s,)))
        return {'decided': not self.undecided, 'undecided': self.undecided,
                'violations': list(self.viol.values()), 'exits': self.exits,
                'returns': self.returns, 'states': nstates, 'null_is_af': self.null_is_af,
                'forked_calls': self.forked_calls, 'esc_leaks': self.esc_leaks,
                'null_deliveries': self.null_deliveries, 'exit_how': self.exit_how}

    def prune(self, env, tgt):
        live = self.livekeys.get(tgt, set())
        lnames = self.livenames.get(tgt, set())
        lcalls = self.livecalls.get(tgt, set())
        drop = []
        for k in env.facts:
            if isinstance(k, str):
                if k not in live:
                    drop.append(k)
            elif k[0] in ('call', 'callz'):
                if k[1] not in lcalls:
                    drop.append(k)
            elif k[0] in ('var', 'varz', 'src') and k[1] not in lnames:
                drop.append(k)
        dropv = [v for v in env.vars if v not in lnames]
        if drop or dropv:
            env = env.copy()
            for k in drop:
                del env.facts[k]
            for v in dropv:
                del env.vars[v]
        return env

    # ---- failure tagging -------------------------------------------------
    def tag(self, ctree, taken, env):
        """if taking this branch means a fallible call failed, record it"""
        n = self.fn.resolve(ctree)
        n, neg = strip_expect(n)
        if isinstance(n, dict) and n.get('k') == 'bin' and n.get('op') in ('||', '&&') and 'lhs' in n:
            # the value of a && / || computed in earlier blocks: find the
            # operand that decided it
            val = (taken != neg)
            if (n['op'] == '||') != val:
                # || false: both false; && true: both true
                return self.tag(n['rhs'], val, self.tag(n['lhs'], val, env))
            a = self._truth_operand(n['lhs'], env)
            if a is None:
                return env
            if a == val:
                return self.tag(n['lhs'], val, env)     # short-circuit
            return self.tag(n['rhs'], val, env)
        if not isinstance(n, dict) or n.get('k') != 'call' or n.get('fn') != 'ubase_check':
            return env
        ok = (taken != neg)
        if ok:
            return env
        a = strip_all_casts(self.fn.resolve(n['args'][0]))
        name = None
        if isinstance(a, dict) and a.get('k') == 'call':
            name = a.get('fn')
        elif isinstance(a, dict) and a.get('k') == 'ref':
            name = env.facts.get(('src', a['n']))
        if not name:
            name = '?'
        if name.endswith('_size') and isinstance(a, dict) and a.get('k') == 'call' and a.get('args'):
            # the size of a buffer this function has just produced cannot be
            # refused (only a foreign or absent buffer can)
            r0 = strip_all_casts(self.fn.resolve(a['args'][0]))
            if isinstance(r0, dict) and r0.get('k') == 'ref' and r0['n'] in env.vars:
                oid = env.vars[r0['n']]
                if not (oid.startswith('P') and oid[1:].isdigit()) and env.objs.get(oid) == O:
                    name += '(fresh)'
        e2 = env.copy()
        e2.err = e2.err | {name}
        if re.search(r'alloc|dup|copy', name):
            e2.af = True
        return e2

    # ---- condition evaluation -------------------------------------------
    def truth(self, n, env, trail):
        n = self.fn.resolve(n)
        n, neg = strip_expect(n)
        v = self._truth(n, env)
        if v is None:
            k, kneg = cond_key(n)
            if k is not None and k in env.facts:
                v = env.facts[k] != kneg
        if v is None:
            return None
        return (not v) if neg else v

    def _truth(self, n, env):
        if not isinstance(n, dict):
            return None
        n = self.fn.resolve(n)
        k = n.get('k')
        if 'cv' in n:
            return n['cv'] != 0
        if k == 'int':
            return n.get('v', 1) != 0
        if k == 'cast':
            return self._truth(n['e'], env)
        if k == 'ref':
            if n['n'] in env.vars:
                return env.objs.get(env.vars[n['n']]) != N
            return env.facts.get(('var', n['n']))
        if k == 'un' and n.get('op') == '!' and 'e' in n:
            v = self._truth(n['e'], env)
            return None if v is None else not v
        if k == 'call':
            if n.get('fn') == '__builtin_expect':
                return self._truth(n['args'][0], env)
            f = env.facts.get(('call', n.get('i')))
            if f is not None:
                return f
            if n.get('fn') and CONV_NONNULL_RE.match(n['fn']) and len(n.get('args', [])) == 1:
                g = self.own.prog.lookup(self.unit, n['fn'])
                if g is not None and g.macro in ('UBASE_FROM_TO', 'UPIPE_HELPER_UPIPE'):
                    return True     # &s->member / container_of: never NULL
            if n.get('fn') == 'ubase_check':
                a = strip_all_casts(self.fn.resolve(n['args'][0]))
                if isinstance(a, dict):
                    f = env.facts.get(('callz', a.get('i')))
                    if f is not None:
                        return f
                    if a.get('k') == 'ref':
                        f = env.facts.get(('varz', a['n']))
                        if f is not None:
                            return f
            return None
        if k == 'bin' and n.get('op') in ('==', '!=') and 'lhs' in n:
            l, r = strip_all_casts(n['lhs']), strip_all_casts(n['rhs'])
            for a, b in ((l, r), (r, l)):
                if isinstance(b, dict) and const_of(b) == 0 and b.get('k') in ('int', 'cast', 'un'):
                    v = self._truth(a, env)
                    if v is not None:
                        return (not v) if n['op'] == '==' else v
            return None
        if k == 'bin' and is_assign(n) and n['op'] == '=':
            l = strip(n['lhs'])
            if isinstance(l, dict) and l.get('k') == 'ref':
                return self._truth(l, env)
        if k == 'bin' and n.get('op') in ('||', '&&') and 'lhs' in n:
            # short-circuit: a deciding left operand means the right one was
            # not evaluated on this path (whatever is recorded for it is stale)
            a = self._truth_operand(n['lhs'], env)
            if n['op'] == '||' and a is True:
                return True
            if n['op'] == '&&' and a is False:
                return False
            if a is None:
                return None
            return self._truth_operand(n['rhs'], env)
        return None

    def _truth_operand(self, n, env):
        n = self.fn.resolve(n)
        n, neg = strip_expect(n)
        v = self._truth(n, env)
        if v is None:
            k, kneg = cond_key(n)
            if k is not None and k in env.facts:
                v = env.facts[k] != kneg
        if v is None:
            return None
        return (not v) if neg else v

    # ---- statements ------------------------------------------------------
    def stmt(self, st, env, trail):
        """returns list of successor envs"""
        forks = []
        for x in walk(st):
            if x.get('k') != 'call':
                continue
            name = self.callee_name(x)
            if not name:
                continue
            p = self.own.is_producer(self.unit, name, x)
            if p:
                forks.append((x['i'], [True, False]))
                continue
            for i, a in enumerate(x.get('args', [])):
                if self.arg_obj_static(a):
                    act = self.own.action(self.unit, name, i)
                    if isinstance(act, frozenset) and len(act) > 1:
                        forks.append((x['i'], sorted(act, key=str)))
                        self.forked_calls.add((name, x.get('l')))
                        break
        combos = [{}]
        for fid, choices in forks:
            combos = [dict(list(c.items()) + [(fid, ch)]) for c in combos for ch in choices]
        outs = []
        for choice in combos:
            e = env.copy()
            self.cur_choice = choice
            self.cur_trail = trail
            self.eval(st, e)
            top = strip_all_casts(st)
            if isinstance(top, dict) and top.get('k') == 'call':
                nm = self.callee_name(top)
                if nm and self.own.is_producer(self.unit, nm, top) == 'nullable':
                    # result of a may-return-NULL helper deliberately ignored
                    e.objs.pop('R%s' % top['i'], None)
            outs.append(e)
        return outs

    def callee_name(self, n):
        if n.get('fn'):
            return n['fn']
        cal = strip_all_casts(n.get('callee'))
        if isinstance(cal, dict) and cal.get('k') == 'ref' and cal.get('d') == 'local':
            d = self.ldefs.get(cal['n'])
            d = strip_all_casts(d) if isinstance(d, dict) else None
            if isinstance(d, dict) and d.get('k') == 'ref' and d.get('d') == 'fn':
                return d['n']
        return None

    def arg_obj_static(self, a):
        a = strip_all_casts(a)
        if not isinstance(a, dict):
            return False
        if a.get('k') == 'ref':
            return a['n'] in self.ptrvars
        if a.get('k') == 'call' and a.get('fn') in ALIAS_FNS:
            return self.arg_obj_static(a['args'][ALIAS_FNS[a['fn']]])
        if a.get('k') == 'call' and a.get('t') in self.own.tracked:
            return True
        if a.get('k') == 'un' and a.get('op') == '&' and 'e' in a:
            m = strip_all_casts(a['e'])
            if isinstance(m, dict) and m.get('k') == 'mem' and m.get('f') == 'uchain':
                return self.arg_obj_static(m['b'])
        return False

    def obj_of(self, n, env):
        """object id designated by a reference-like expression (no
        evaluation, no use check), or None"""
        n = strip_all_casts(self.fn.resolve(n))
        if not isinstance(n, dict):
            return None
        k = n.get('k')
        if k == 'ref' and n['n'] in env.vars:
            return env.vars[n['n']]
        if k == 'call' and n.get('fn') in ALIAS_FNS and n.get('args'):
            return self.obj_of(n['args'][ALIAS_FNS[n['fn']]], env)
        if k == 'un' and n.get('op') == '&' and 'e' in n:
            m = strip_all_casts(n['e'])
            if isinstance(m, dict) and m.get('k') == 'mem' and m.get('f') == 'uchain':
                return self.obj_of(m['b'], env)
        return None

    def is_reflike(self, n):
        n = strip_all_casts(n)
        if not isinstance(n, dict):
            return False
        k = n.get('k')
        if k == 'ref':
            return True
        if k == 'call' and n.get('fn') in ALIAS_FNS and n.get('args'):
            return self.is_reflike(n['args'][ALIAS_FNS[n['fn']]])
        if k == 'un' and n.get('op') == '&' and 'e' in n:
            m = strip_all_casts(n['e'])
            if isinstance(m, dict) and m.get('k') == 'mem' and m.get('f') == 'uchain':
                return self.is_reflike(m['b'])
        return False

    def eval(self, n, env):
        """evaluates one tree for its effects on env; returns the object id
        of its value if it is a tracked object, 'NULL' for a null constant"""
        fn = self.fn
        if not isinstance(n, dict):
            return None
        k = n.get('k')
        if k == 'ext':
            m = fn.resolve(n)
            if m is n or m.get('k') == 'ext':
                return None
            return self.value_only(m, env)   # evaluated in its own block
        if k == 'decl':
            for v in n['vars']:
                if isinstance(v.get('init'), dict):
                    val = self.eval(v['init'], env)
                    self.assign_var(v['n'], val, v['init'], env, n.get('l'))
                else:
                    env.vars.pop(v['n'], None)
                    for t in ('var', 'varz', 'src'):
                        env.facts.pop((t, v['n']), None)
            return None
        if k == 'return':
            val = None
            if isinstance(n.get('e'), dict):
                val = self.eval(n['e'], env)
            self.at_exit(env, n.get('e'), self.cur_trail, val, n.get('l'))
            return None
        if k == 'cast':
            return self.eval(n['e'], env)
        if k == 'ref':
            if n['n'] in env.vars:
                oid = env.vars[n['n']]
                if env.objs.get(oid) == C:
                    self.violation('use-after-transfer', n['n'], n.get('l'), env, self.cur_trail,
                                   'read of %s after it was freed or handed on' % n['n'])
                return oid
            return None
        if k == 'bin' and is_assign(n):
            val = self.eval(n['rhs'], env)
            l = strip(n['lhs'])
            if isinstance(l, dict) and l.get('k') == 'ref' and l.get('d') in ('local', 'param', 'slocal'):
                if n['op'] == '=':
                    self.assign_var(l['n'], val, n['rhs'], env, n.get('l'))
                else:
                    for t in ('var', 'varz', 'src'):
                        env.facts.pop((t, l['n']), None)
                    self.invalidate(l['n'], env)
                return val
            self.eval_lhs(n['lhs'], env)     # store into memory
            if val not in (None, 'NULL') and env.objs.get(val) == O:
                env.objs[val] = K
            p = path_of(n['lhs'])
            if p and n['op'] == '=' and (val == 'NULL' or (val is None and const_of(n['rhs']) == 0)):
                # the "take" idiom: v = s->field; s->field = NULL; - from here on the function owns what v designates
                for key in [k_ for k_, v_ in env.facts.items() if isinstance(k_, tuple) and k_[0] == 'loaded' and v_ == p]:
                    vname = key[1]
                    del env.facts[key]
                    if vname not in env.vars and env.facts.get(('var', vname)) is not False:
                        oid = 'T%s_%s' % (vname, n.get('l'))
                        self.objnames[oid] = '%s (taken from %s)' % (vname, p)
                        env.objs[oid] = O
                        env.vars[vname] = oid
            if p:
                self.invalidate(p, env)
            ck = cond_key_expr(n['lhs'])
            if ck is not None and n['op'] == '=':
                if val == 'NULL' or (val is None and const_of(n['rhs']) == 0):
                    env.facts[ck] = False
                elif val is not None:
                    env.facts[ck] = True
            return val
        if k == 'un':
            if 'e' not in n:
                return None
            if n.get('op') == '&':
                e = strip_all_casts(n['e'])
                if isinstance(e, dict) and e.get('k') == 'ref':
                    if e['n'] in self.ptrvars:
                        # address of a tracked variable escapes: its binding
                        # is unknown afterwards
                        if e['n'] in env.vars and env.objs.get(env.vars[e['n']]) == O:
                            self.undecided.append('address of owned variable %s taken (line %s)' % (e['n'], n.get('l')))
                        env.vars.pop(e['n'], None)
                        return None
                    for t in ('var', 'varz', 'src'):
                        env.facts.pop((t, e['n']), None)
                    self.invalidate(e['n'], env)
                    return None
                self.eval_lhs(n['e'], env)
                return None
            if is_incdec(n):
                l = strip(n['e'])
                if isinstance(l, dict) and l.get('k') == 'ref':
                    for t in ('var', 'varz', 'src'):
                        env.facts.pop((t, l['n']), None)
                    self.invalidate(l['n'], env)
                else:
                    p = path_of(n['e'])
                    if p:
                        self.invalidate(p, env)
            self.eval(n['e'], env)
            return None
        if k == 'call':
            return self.call(n, env)
        if k == 'cond':
            for c in ('c', 'a', 'bb'):
                if isinstance(n.get(c), dict):
                    self.eval(n[c], env)
            return None
        if k == 'stmtexpr':
            v = None
            for b in n.get('body', []):
                v = self.eval(b, env)
            return v
        if k == 'int':
            return 'NULL' if n.get('v') == 0 else None
        if k == 'va_arg' and self.own.va_owned and n.get('t') in self.own.tracked:
            oid = 'V%s' % n.get('i')
            self.objnames[oid] = 'va_arg(%s)' % n.get('t')
            env.objs[oid] = O
            return oid
        for c in children(n):
            self.eval(c, env)
        return None

    def value_only(self, m, env):
        m = strip_all_casts(m)
        if isinstance(m, dict) and m.get('k') == 'ref' and m['n'] in env.vars:
            return env.vars[m['n']]
        if isinstance(m, dict) and m.get('k') == 'call':
            for suffix in ('c', 'b', ''):
                oid = 'R%s%s' % (m.get('i'), suffix)
                if oid in env.objs:
                    return oid
        return None

    def eval_lhs(self, n, env):
        for x in walk(n):
            if x.get('k') == 'ref' and x['n'] in env.vars:
                if env.objs.get(env.vars[x['n']]) == C:
                    self.violation('use-after-transfer', x['n'], x.get('l'), env, self.cur_trail,
                                   'write through %s after it was freed or handed on' % x['n'])
            elif x.get('k') == 'call':
                self.call(x, env)

    def invalidate(self, name, env):
        pat = re.compile(r'(?<![A-Za-z0-9_>.])' + re.escape(name) + r'(?![A-Za-z0-9_])')
        for key in [k for k in env.facts if isinstance(k, str) and pat.search(k)]:
            del env.facts[key]

    def assign_var(self, name, val, rhs, env, line):
        self.invalidate(name, env)
        for t in ('var', 'varz', 'src', 'loaded'):
            env.facts.pop((t, name), None)
        if name in self.ptrvars and val is None:
            # v = s->field: remembered, so that a later `s->field = NULL` is seen as v taking the object over
            r0 = strip_all_casts(rhs) if isinstance(rhs, dict) else None
            if isinstance(r0, dict) and r0.get('k') == 'mem' and r0.get('t') in self.own.tracked:
                lp = path_of(r0)
                if lp:
                    env.facts[('loaded', name)] = lp
        if name in self.ptrvars:
            old = env.vars.get(name)
            if old is not None and env.objs.get(old) == O and val != old and old not in env.esc:
                if not any(v == old for k2, v in env.vars.items() if k2 != name):
                    self.violation('leak', name, line, env, self.cur_trail,
                                   '%s overwritten while still owned' % name)
            if val == 'NULL' or (val is None and const_of(rhs) == 0):
                env.vars[name] = 'NULL'
                env.objs['NULL'] = N
            elif val is not None:
                env.vars[name] = val
            else:
                env.vars.pop(name, None)
            return
        r = strip_all_casts(self.fn.resolve(rhs)) if isinstance(rhs, dict) else None
        if isinstance(r, dict) and r.get('k') == 'call':
            if r.get('fn'):
                env.facts[('src', name)] = r['fn']
            if self._truth(r, env) is True:
                env.facts[('var', name)] = True
            f = env.facts.get(('call', r.get('i')))
            if f is not None:
                env.facts[('var', name)] = f
            f = env.facts.get(('callz', r.get('i')))
            if f is not None:
                env.facts[('varz', name)] = f
                env.facts[('var', name)] = not f
        elif isinstance(r, dict):
            c = const_of(r)
            if c is not None:
                env.facts[('var', name)] = (c != 0)
                env.facts[('varz', name)] = (c == 0)

    def call(self, n, env):
        name = self.callee_name(n)
        args = n.get('args', [])
        if name is None:
            cp = path_of(n.get('callee')) or ''
            if isinstance(n.get('callee'), dict):
                self.eval(n['callee'], env)
            vals = [self.argval(a, env) for a in args]
            if cp.endswith('->upipe_input') and len(vals) > 1:
                self.apply(CONSUME, vals[1], env, n, 1, 'upipe_input slot')
            elif (cp.endswith('->uref_free') or cp.endswith('->ubuf_free')) and vals:
                self.apply(CONSUME, vals[0], env, n, 0, 'free slot')
            return None
        if name == '__builtin_expect':
            return self.eval(args[0], env)
        if LOUD_RE.match(name):
            env.loud = True
        objs = [self.argval(a, env) for a in args]
        if OUTPARAM_PRODUCER_RE.search(name) and args:
            # the generated X_alloc_flow hands a duplicate of the flow definition to its caller through its last argument;
            # only the path on which the allocation succeeded is followed (failures of allocations are out of scope)
            a0 = strip_all_casts(args[-1])
            v0 = strip_all_casts(a0.get('e')) if isinstance(a0, dict) and a0.get('k') == 'un' and a0.get('op') == '&' else None
            if isinstance(v0, dict) and v0.get('k') == 'ref' and v0.get('n') in self.ptrvars:
                oid = 'F%s' % n['i']
                self.objnames[oid] = '%s (from %s)' % (v0['n'], name)
                env.objs[oid] = O
                env.vars[v0['n']] = oid
                env.facts[('call', n['i'])] = True
        for i, oid in enumerate(objs):
            if oid == 'NULL' and self.is_reflike(args[i]) and not env.af:
                a0 = strip_all_casts(args[i])
                if isinstance(a0, dict) and a0.get('k') == 'ref':
                    act0 = self.own.action(self.unit, name, i)
                    if FORWARD_RE.search(name) and isinstance(act0, frozenset) and all(a == C for a, _ in act0):
                        self.null_deliveries.add((name, a0['n'], n.get('l'), tuple(self.cur_trail[-12:])))
            if oid is None or oid == 'NULL' or oid not in env.objs:
                continue
            act = self.own.action(self.unit, name, i)
            if env.objs.get(oid) == C:
                vn = self.varname(oid, env)
                consuming = isinstance(act, frozenset) and any(a in (C, K) for a, _ in act)
                if consuming:
                    self.violation('double-free', vn, n.get('l'), env, self.cur_trail,
                                   '%s passed to consuming %s after it was already freed or handed on' % (vn, name))
                else:
                    self.violation('use-after-transfer', vn, n.get('l'), env, self.cur_trail,
                                   '%s passed to %s after it was freed or handed on' % (vn, name))
                continue
            self.apply(act, oid, env, n, i, name)
        if name in ALIAS_FNS and args:
            return objs[ALIAS_FNS[name]]
        p = self.own.is_producer(self.unit, name, n)
        if p:
            ok = self.cur_choice.get(n['i'], True)
            oid = 'R%s' % n['i']
            self.objnames[oid] = '%s()' % name
            if ok:
                # a second object from the same call site (loop) while the
                # first one is still referenced gets its own identity
                for suffix in ('', 'b', 'c'):
                    cand = oid + suffix
                    if cand not in env.objs or cand not in env.vars.values():
                        oid = cand
                        break
                else:
                    self.undecided.append('more than three live objects from the call at line %s' % n.get('l'))
                env.objs[oid] = O
                return oid
            if p == 'alloc':
                env.af = True
            else:
                self.null_is_af = False
            return 'NULL'
        return None

    def argval(self, a, env):
        """value of a call argument; handing a variable over is not a 'use'"""
        if self.is_reflike(a):
            return self.obj_of(a, env)
        return self.eval(a, env)

    def varname(self, oid, env):
        for k, v in env.vars.items():
            if v == oid:
                return k
        if oid.startswith('P') and oid[1:].isdigit():
            return self.fn.params[int(oid[1:])]['n']
        return self.objnames.get(oid.rstrip('bc'), oid)

    def apply(self, act, oid, env, n, idx, name):
        if oid is None or oid == 'NULL' or oid not in env.objs:
            return
        atom = env.objs[oid]
        if atom == N:
            return
        if act == 'unkeep':
            if atom == K:
                env.objs[oid] = O
            return
        if act == 'escape':
            env.esc = env.esc | {oid}
            return
        if act == 'consume_if_result':
            if self.cur_choice.get(n['i'], True):
                env.objs[oid] = C
                env.how[oid] = name
            return
        if not isinstance(act, frozenset):
            return
        if len(act) == 1:
            out = next(iter(act))
        else:
            out = self.cur_choice.get(n['i'])
            if out is None or out not in act:
                out = sorted(act, key=str)[0]
        a, rk = out
        if rk is True or rk is False:
            env.facts[('call', n['i'])] = rk
        elif rk == 'zero':
            env.facts[('callz', n['i'])] = True
            env.facts[('call', n['i'])] = False
        elif rk == 'nonzero':
            env.facts[('callz', n['i'])] = False
            env.facts[('call', n['i'])] = True
            if len(act) > 1 and a != C:
                # the failing outcome of a fallible call, whether or not the
                # caller looks at the result
                env.err = env.err | {name}
        if a == C and atom == K and name in ('uref_free', 'ubuf_free') and len(act) == 1:
            self.violation('double-free', self.varname(oid, env), n.get('l'), env, self.cur_trail,
                           '%s freed after it was handed to %s, which keeps it: the keeper frees it again' % (self.varname(oid, env), env.how.get(oid, 'a keeper')))
        if a == C:
            env.objs[oid] = C
            env.how[oid] = name
            if FORWARD_RE.search(name):
                env.nout = min(2, env.nout + 1)
        elif a == K and atom == O:
            env.objs[oid] = K
            env.how[oid] = name

    def at_exit(self, env, retexpr, trail, val, line=None):
        fn = self.fn
        isbool = fn.ret in ('bool', '_Bool')
        rk = None
        if retexpr is not None:
            r = strip_all_casts(fn.resolve(retexpr))
            c = const_of(r) if isinstance(r, dict) else None
            if c is not None:
                rk = bool(c) if isbool else ('zero' if c == 0 else 'nonzero')
            elif isinstance(r, dict):
                if isbool:
                    rk = self.truth(r, env, trail)
                else:
                    z = None
                    if r.get('k') == 'call':
                        z = env.facts.get(('callz', r.get('i')))
                    elif r.get('k') == 'ref':
                        z = env.facts.get(('varz', r['n']))
                    if z is not None:
                        rk = 'zero' if z else 'nonzero'
            if val is not None:
                if val == 'NULL':
                    self.returns.append('null')
                    if not env.af:
                        self.null_is_af = False
                elif env.objs.get(val) == O:
                    self.returns.append('owned')
                    env.objs[val] = C
                else:
                    self.returns.append('other')
            else:
                self.returns.append('null' if c == 0 else 'other')
                if c == 0 and not env.af:
                    self.null_is_af = False
        for i in self.owned_params:
            self.exits.append((env.objs.get('P%d' % i), rk, env.af, line, env.err))
            self.exit_how.append((env.objs.get('P%d' % i), env.how.get('P%d' % i), env.af, line, env.err, tuple(trail[-16:]), env.loud, env.nout))
        for oid, atom in env.objs.items():
            if atom == O:
                if oid in env.esc:
                    self.esc_leaks.add((self.varname(oid, env), line))
                    continue
                self.violation('leak', self.varname(oid, env), line or fn.j.get('endline'), env, trail,
                               'owned object %s neither freed, forwarded nor kept at function exit' % self.varname(oid, env))
