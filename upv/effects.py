"""Field-effect analysis (DESIGN §3.3): for each function the set of stores
to memory not local to the call, classified by the *origin* of the address
(which parameter / global / va_arg out-pointer the address is derived from),
closed over callees with bodies (TU-local and header inline functions)."""
from .facts import (strip, strip_all_casts, walk, is_assign, is_incdec,
                    children, const_of)

ALLOC_FNS = {'malloc', 'calloc', 'realloc', 'strdup', 'strndup', 'aligned_alloc'}
# external functions that write through their first argument
WRITE_ARG0 = {'memcpy', 'memmove', 'memset', 'strcpy', 'strncpy', 'snprintf',
              'sprintf', 'vsnprintf', 'strcat', 'strncat', '__builtin_memcpy',
              '__builtin_memset', '__builtin_memmove', '__builtin___memcpy_chk',
              '__builtin___memset_chk', '__builtin___memmove_chk',
              '__builtin___snprintf_chk', '__builtin___strcpy_chk'}
ATOMIC_READ = {'__atomic_load_n', '__atomic_load'}

P = 'param'
G = 'global'
VA = 'vaarg'
FRESH = ('fresh',)
UNK = ('unknown',)


class Effect:
    __slots__ = ('origin', 'rec', 'field', 'fn', 'line', 'file', 'via', 'kind', 'path')

    def __init__(self, origin, rec, field, fn, line, file, kind='store', via=(), path=None):
        self.origin = origin
        self.rec = rec
        self.field = field
        self.fn = fn
        self.line = line
        self.file = file
        self.via = via
        self.kind = kind
        self.path = path

    def rebase(self, origin, via):
        return Effect(origin, self.rec, self.field, self.fn, self.line,
                      self.file, self.kind, (via,) + tuple(self.via), self.path)

    def key(self):
        return (self.origin, self.rec, self.field, self.fn, self.line, self.kind)

    def describe(self):
        s = '%s of %s.%s in %s (%s:%s)' % (self.kind, self.rec, self.field,
                                           self.fn, self.file, self.line)
        if self.via:
            s += ' via ' + ' > '.join(self.via)
        return s


def lvalue_local(n):
    """True if the lvalue designates (part of) a local variable itself: no
    pointer dereference between the root variable and the stored location"""
    n = strip(n)
    while isinstance(n, dict):
        k = n.get('k')
        if k == 'ref':
            return n.get('d') in ('local', 'param', 'slocal')
        if k == 'mem' and not n.get('arrow'):
            n = strip(n['b'])
            continue
        if k == 'idx':
            b = strip_all_casts(n['b'])
            # array-typed base (decayed): continue, pointer base: deref
            bt = (b.get('t') or '') if isinstance(b, dict) else ''
            if '[' in bt:
                n = b
                continue
            return False
        return False
    return False


class Summary:
    def __init__(self):
        self.ret = set()       # origins of the returned value
        self.effects = []      # Effect list (origins in callee terms)
        self.indirect = []     # indirect calls (path, line)
        self.extcalls = set()  # external functions called (no body)
        self.calls = set()     # all direct callee names (transitive)
        self.recursive = False


class Effects:
    def __init__(self, prog):
        self.prog = prog
        self.memo = {}
        self.stack = []

    # -- origins ------------------------------------------------------------
    def var_origins(self, unit, fn):
        """flow-insensitive origins of each local / param variable"""
        key = ('vo', unit.name if unit else None, fn.name)
        if key in self.memo:
            return self.memo[key]
        org = {}
        for i, p in enumerate(fn.params):
            org[p['n']] = {(P, i)}
        self.memo[key] = org   # provisional (recursion)
        assigns = []
        for bid, s, x in fn.nodes():
            if x.get('k') == 'decl':
                for v in x['vars']:
                    org.setdefault(v['n'], set())
                    if isinstance(v.get('init'), dict):
                        assigns.append((v['n'], v['init']))
            elif is_assign(x):
                l = strip(x['lhs'])
                if isinstance(l, dict) and l.get('k') == 'ref' and l.get('d') in ('local', 'param', 'slocal'):
                    assigns.append((l['n'], x['rhs']))
        changed = True
        it = 0
        while changed and it < 10:
            changed = False
            it += 1
            for name, rhs in assigns:
                o = self.origin(unit, fn, rhs, org)
                if not o <= org.setdefault(name, set()):
                    org[name] |= o
                    changed = True
        return org

    def origin(self, unit, fn, n, org=None):
        if org is None:
            org = self.var_origins(unit, fn)
        n = fn.resolve(n) if isinstance(n, dict) and n.get('k') == 'ext' else n
        n = strip(n)
        if not isinstance(n, dict):
            return set()
        k = n.get('k')
        if k == 'ext':
            return {UNK}
        if k == 'ref':
            d = n.get('d')
            if d in ('local', 'param', 'slocal'):
                return set(org.get(n['n'], set()))
            if d == 'global':
                return {(G, n['n'])}
            return set()
        if k in ('int', 'str', 'float', 'sizeof', 'offsetof', 'zero'):
            return set()
        if 'cv' in n:
            return set()
        if k == 'mem':
            return self.origin(unit, fn, n['b'], org)
        if k in ('cast', 'container_of', 'opaque', 'choose', 'complit'):
            return self.origin(unit, fn, n['e'], org)
        if k == 'un':
            if 'e' not in n:
                return set()
            if n.get('op') in ('!',):
                return set()
            return self.origin(unit, fn, n['e'], org)
        if k == 'idx':
            return self.origin(unit, fn, n['b'], org)
        if k == 'bin':
            op = n.get('op')
            if op in ('==', '!=', '<', '>', '<=', '>=', '&&', '||'):
                return set()
            if is_assign(n):
                return self.origin(unit, fn, n['rhs'], org)
            if op == ',':
                return self.origin(unit, fn, n['rhs'], org)
            return self.origin(unit, fn, n.get('lhs'), org) | self.origin(unit, fn, n.get('rhs'), org)
        if k == 'cond':
            return self.origin(unit, fn, n.get('a'), org) | self.origin(unit, fn, n.get('bb'), org)
        if k == 'va_arg':
            return {(VA,)}
        if k == 'stmtexpr':
            b = n.get('body') or []
            return self.origin(unit, fn, b[-1], org) if b else set()
        if k == 'atomic':
            return set()
        if k == 'call':
            name = n.get('fn')
            if name is None:
                return {UNK}
            if name in ALLOC_FNS:
                return {FRESH}
            if name == '__builtin_expect':
                return self.origin(unit, fn, n['args'][0], org)
            callee = self.prog.lookup(unit, name)
            if callee is None:
                # external: pointer results are assumed fresh/unknown
                return {UNK} if '*' in (n.get('t') or '') else set()
            sm = self.summary(self._unit_of(callee, unit), callee)
            out = set()
            for o in sm.ret:
                if o[0] == P:
                    if o[1] < len(n['args']):
                        out |= self.origin(unit, fn, n['args'][o[1]], org)
                else:
                    out.add(o)
            return out
        return {UNK}

    def _unit_of(self, callee, unit):
        return callee.unit

    # -- summaries ----------------------------------------------------------
    def summary(self, unit, fn):
        key = ('sm', unit.name if unit else None, fn.name)
        if key in self.memo:
            return self.memo[key]
        sm = Summary()
        if key in self.stack:
            sm.recursive = True
            return sm
        self.stack.append(key)
        try:
            org = self.var_origins(unit, fn)
            sm.effects, sm.indirect, ext, calls = self.block_effects(unit, fn, set(fn.blocks))
            sm.extcalls = ext
            sm.calls = calls
            for bid, s in fn.all_stmts():
                if s.get('k') == 'return' and isinstance(s.get('e'), dict):
                    sm.ret |= self.origin(unit, fn, s['e'], org)
        finally:
            self.stack.pop()
        self.memo[key] = sm
        return sm

    def _store_effects(self, unit, fn, lv, node, kind, out, org):
        lvs = strip(lv)
        if lvalue_local(lvs):
            return
        os_ = self.origin(unit, fn, lvs, org)
        rec = field = None
        if isinstance(lvs, dict) and lvs.get('k') == 'mem':
            rec, field = lvs.get('rec'), lvs.get('f')
        elif isinstance(lvs, dict) and lvs.get('k') == 'idx':
            b = strip_all_casts(lvs['b'])
            if isinstance(b, dict) and b.get('k') == 'mem':
                rec, field = b.get('rec'), b.get('f') + '[]'
        from .facts import path_of
        pth = path_of(lvs)
        if not os_:
            os_ = {UNK}
        for o in os_:
            if o == FRESH:
                continue
            out.append(Effect(o, rec, field, fn.name, node.get('l'), fn.file, kind, (), pth))

    def block_effects(self, unit, fn, blocks, skip=None):
        """effects of the statements of the given blocks of fn (callees
        included)"""
        org = self.var_origins(unit, fn)
        out, indirect, ext, calls = [], [], set(), set()
        for bid in blocks:
            for s in fn.stmts(bid):
                for x in walk(s):
                    k = x.get('k')
                    if is_assign(x):
                        self._store_effects(unit, fn, x['lhs'], x, 'store', out, org)
                    elif is_incdec(x):
                        self._store_effects(unit, fn, x['e'], x, 'store', out, org)
                    elif k == 'atomic':
                        if x.get('op') not in ATOMIC_READ and x.get('args'):
                            a0 = strip_all_casts(x['args'][0])
                            # address expression: the object is *a0
                            self._store_effects(unit, fn, {'k': 'un', 'op': '*', 'e': a0, 'l': x.get('l')}, x, 'atomic', out, org)
                    elif k == 'call':
                        name = x.get('fn')
                        if name is None:
                            from .facts import path_of
                            indirect.append((path_of(x.get('callee')), x.get('l')))
                            continue
                        if name in ('__builtin_expect', '__builtin_va_end', '__builtin_va_start', '__builtin_va_copy'):
                            continue
                        if skip is not None and skip(x):
                            continue
                        calls.add(name)
                        if name in WRITE_ARG0 and x.get('args'):
                            a0 = strip_all_casts(x['args'][0])
                            self._store_effects(unit, fn, {'k': 'un', 'op': '*', 'e': a0, 'l': x.get('l')}, x, 'libwrite:' + name, out, org)
                            continue
                        callee = self.prog.lookup(unit, name)
                        if callee is None:
                            ext.add(name)
                            continue
                        sm = self.summary(callee.unit, callee)
                        ext |= sm.extcalls
                        calls |= sm.calls
                        indirect += sm.indirect
                        for e in sm.effects:
                            if e.origin[0] == P:
                                i = e.origin[1]
                                if i >= len(x['args']):
                                    continue
                                a = x['args'][i]
                                # a store through the callee's parameter
                                # writes into what the actual argument points
                                # to; &local => local store
                                sa = strip_all_casts(a)
                                if isinstance(sa, dict) and sa.get('k') == 'un' and sa.get('op') == '&' and lvalue_local(sa.get('e')):
                                    continue
                                os_ = self.origin(unit, fn, a, org) or {UNK}
                                for o in os_:
                                    if o == FRESH:
                                        continue
                                    out.append(e.rebase(o, '%s:%s' % (fn.name, x.get('l'))))
                            else:
                                out.append(e.rebase(e.origin, '%s:%s' % (fn.name, x.get('l'))))
        return out, indirect, ext, calls
