"""A small abstract machine over the extracted CFGs, used for the exhaustive
finite-domain checks (C18, C14): integers that belong to the finite domain
are tracked exactly, everything else is the symbol SYM; pointers into the
buffer under analysis are positions ('p', region, index); every shift and
every dereference is checked.

No Upipe code is compiled or executed: the machine walks the JSON CFG."""
from .facts import strip, strip_all_casts, walk, is_assign, is_incdec, const_of, path_of

SYM = 'sym'


M64 = (1 << 64) - 1


class Lin:
    """integer linear form over named symbols, arithmetic modulo 2^64"""
    __slots__ = ('c', 'k')

    def __init__(self, coefs=None, const=0):
        self.c = {s: v & M64 for s, v in (coefs or {}).items() if v & M64}
        self.k = const & M64

    @staticmethod
    def sym(name):
        return Lin({name: 1}, 0)

    @staticmethod
    def of(v):
        return v if isinstance(v, Lin) else Lin({}, v)

    def add(self, o, sign=1):
        o = Lin.of(o)
        c = dict(self.c)
        for s, v in o.c.items():
            c[s] = (c.get(s, 0) + sign * v) & M64
        return Lin(c, self.k + sign * o.k)

    def is_const(self):
        return not self.c

    def key(self):
        return (tuple(sorted(self.c.items())), self.k)

    def __eq__(self, o):
        return isinstance(o, Lin) and self.key() == o.key()

    def __hash__(self):
        return hash(self.key())

    def __repr__(self):
        parts = []
        for s, v in sorted(self.c.items()):
            if v == 1:
                parts.append('+' + s)
            elif v == M64:
                parts.append('-' + s)
            else:
                parts.append('+%d*%s' % (v, s))
        if self.k or not parts:
            parts.append('+%d' % self.k if self.k < (1 << 63) else '-%d' % ((1 << 64) - self.k))
        return ''.join(parts).lstrip('+')


class Undecided(Exception):
    pass


class PathEnd(Exception):
    """the path ends here (failed precondition / noreturn)"""


class Finding(Exception):
    def __init__(self, kind, line, detail):
        Exception.__init__(self, '%s at line %s: %s' % (kind, line, detail))
        self.kind = kind
        self.line = line
        self.detail = detail


def width_of(n, default=32):
    w = n.get('w')
    return w if w else default


def wrap(v, n):
    """wrap an int to the C type of node n"""
    if not isinstance(v, int) or isinstance(v, bool):
        return v
    w = n.get('w')
    if not w:
        return v
    if n.get('s'):
        m = 1 << w
        v &= m - 1
        return v - m if v >= (m >> 1) else v
    return v & ((1 << w) - 1)


class Machine:
    """subclass and provide: field_load(obj, rec, field), field_store(obj, rec,
    field, value, node), call(fn, node, args) -> value (or raise
    NotImplementedError to get SYM)"""

    max_steps = 4000
    max_depth = 4

    def __init__(self, prog, unit):
        self.prog = prog
        self.unit = unit
        self.steps = 0
        self.regions = {}     # region name -> size (number of valid octets)
        self.choices = []
        self.choice_i = 0
        self.choice_log = []
        self.shifts_checked = 0
        self.derefs_checked = 0
        self.cells = {}        # addressable locals: (id(env), name) -> env
        self.compares = []     # symbolic comparisons decided by choice: (op, lhs, rhs, outcome)

    # -- nondeterminism --------------------------------------------------
    def choose(self, n):
        """pick one of n alternatives following the script"""
        if self.choice_i < len(self.choices):
            c = self.choices[self.choice_i]
        else:
            c = 0
        self.choice_i += 1
        self.choice_log.append(n)
        return c

    # -- running -----------------------------------------------------------
    def run(self, fn, args, depth=0):
        if depth > self.max_depth:
            raise Undecided('call depth')
        env = {}
        for p, a in zip(fn.params, args):
            env[p['n']] = a
        bid = fn.entry
        while True:
            self.steps += 1
            if self.steps > self.max_steps:
                raise Undecided('step bound exceeded in %s' % fn.name)
            blk = fn.blocks[bid]
            for s in fn.stmts(bid):
                r = self.exec(fn, s, env, depth)
                if r is not None:
                    return r[1]
            if blk.get('noret'):
                raise PathEnd()
            if bid == fn.exit:
                return None
            succs = fn.succ[bid]
            c = fn.cond(bid)
            if c:
                raw = blk['term'].get('cond') if blk.get('term') else None
                # the extractor names the last evaluated operand of `a && b`
                # as the condition; when the operands are joined in this very
                # block (do-while), that operand may not have been evaluated
                # on this path: the value of the whole expression decides
                if isinstance(raw, dict) and raw.get('k') == 'ext':
                    for s in fn.stmts(bid):
                        r = s
                        while isinstance(r, dict) and r.get('k') == 'bin' and r.get('op') in ('&&', '||'):
                            r = r.get('rhs')
                        if r is not s and isinstance(r, dict) and r.get('i') == raw.get('i') and ('val', s.get('i')) in env:
                            raw = {'k': 'ext', 'i': s['i']}
                v = self.truth(self.eval(fn, raw if isinstance(raw, dict) else c[0], env, depth))
                if v is None:
                    # a branch on symbolic data: if one arm is an assertion
                    # failure, the other one is taken; otherwise both matter
                    arms = [c[1], c[2]]
                    nr = [a is not None and self.is_abort_arm(fn, a) for a in arms]
                    if nr[0] and not nr[1]:
                        bid = arms[1]
                    elif nr[1] and not nr[0]:
                        bid = arms[0]
                    else:
                        k = self.choose(2)
                        bid = arms[k]
                else:
                    bid = c[1] if v else c[2]
                if bid is None:
                    raise PathEnd()
            elif blk.get('term') and blk['term'].get('cls') == 'SwitchStmt':
                v = self.eval(fn, blk['term'].get('cond'), env, depth)
                if not isinstance(v, int):
                    raise Undecided('switch on symbolic value in %s' % fn.name)
                tgt, dflt = None, None
                for s in succs:
                    if s is None:
                        continue
                    lab = fn.label(s)
                    if lab and lab.get('k') == 'case':
                        if lab.get('v') == v or (lab.get('hi') is not None and lab['v'] <= v <= lab['hi']):
                            tgt = s
                    else:
                        dflt = s
                bid = tgt if tgt is not None else dflt
                if bid is None:
                    return None
            else:
                nxt = [s for s in succs if s is not None]
                if not nxt:
                    return None
                bid = nxt[0]

    def is_abort_arm(self, fn, bid, depth=0):
        b = fn.blocks[bid]
        if b.get('noret'):
            return True
        if depth < 2 and not b.get('term') and len([s for s in fn.succ[bid] if s is not None]) == 1 and not fn.stmts(bid):
            return self.is_abort_arm(fn, [s for s in fn.succ[bid] if s is not None][0], depth + 1)
        return False

    @staticmethod
    def truth(v):
        if v is None or v == SYM:
            return None
        if isinstance(v, tuple):
            if v[0] == 'null':
                return False
            return True
        return bool(v)

    def exec(self, fn, s, env, depth):
        k = s.get('k')
        if k == 'decl':
            for v in s['vars']:
                env[v['n']] = wrap(self.eval(fn, v['init'], env, depth), v) if isinstance(v.get('init'), dict) else SYM
            return None
        if k == 'return':
            return ('return', self.eval(fn, s['e'], env, depth) if isinstance(s.get('e'), dict) else None)
        v = self.eval(fn, s, env, depth)
        if 'i' in s:
            env[('val', s['i'])] = v      # the terminator may refer to it
        return None

    # -- lvalues -------------------------------------------------------------
    def lvalue(self, fn, n, env, depth):
        """('var', name) | ('field', obj, rec, field) | ('mem', ptr) | None"""
        n = strip(n)
        if not isinstance(n, dict):
            return None
        k = n.get('k')
        if k == 'ref':
            return ('var', n['n'])
        if k == 'mem':
            if n.get('arrow'):
                obj = self.eval(fn, n['b'], env, depth)
            else:
                lv = self.lvalue(fn, n['b'], env, depth)
                obj = ('lv',) + tuple(x for x in lv if not isinstance(x, dict)) if lv else SYM
            return ('field', obj, n.get('rec'), n['f'])
        if k == 'un' and n.get('op') == '*':
            return ('mem', self.eval(fn, n['e'], env, depth), n)
        if k == 'idx':
            b = self.eval(fn, n['b'], env, depth)
            x = self.eval(fn, n['x'], env, depth)
            if isinstance(b, tuple) and b[0] == 'p' and isinstance(x, int):
                return ('mem', ('p', b[1], b[2] + x), n)
            return ('mem', SYM, n)
        if k == 'cast':
            return self.lvalue(fn, n['e'], env, depth)
        return None

    def load(self, fn, lv, env, node):
        if lv is None:
            return SYM
        if lv[0] == 'var':
            return env.get(lv[1], SYM)
        if lv[0] == 'field':
            return self.field_load(lv[1], lv[2], lv[3])
        if lv[0] == 'mem':
            p = lv[1]
            if isinstance(p, tuple) and p[0] == 'addr':
                if p[1] == 'var':
                    return self.cells[(p[3], p[2])].get(p[2], SYM)
                if p[1] == 'field':
                    return self.field_load(p[2], p[3], p[4])
            return self.deref(lv[1], node, write=False)
        return SYM

    def store(self, fn, lv, v, env, node):
        if lv is None:
            return
        if lv[0] == 'var':
            env[lv[1]] = v
        elif lv[0] == 'field':
            self.field_store(lv[1], lv[2], lv[3], v, node)
        elif lv[0] == 'mem':
            p = lv[1]
            if isinstance(p, tuple) and p[0] == 'addr':
                if p[1] == 'var':
                    self.cells[(p[3], p[2])][p[2]] = v
                    return
                if p[1] == 'field':
                    self.field_store(p[2], p[3], p[4], v, node)
                    return
            self.deref(lv[1], node, write=True)

    def deref(self, p, node, write):
        if isinstance(p, tuple) and p[0] == 'p':
            self.derefs_checked += 1
            size = self.regions.get(p[1])
            if size is not None and not (0 <= p[2] < size):
                raise Finding('out-of-bounds %s' % ('write' if write else 'read'), node.get('l'),
                              'octet %d of a %d-octet buffer' % (p[2], size))
            return SYM
        if isinstance(p, tuple) and p[0] == 'out':
            return SYM
        return SYM

    # -- hooks ---------------------------------------------------------------
    def field_load(self, obj, rec, field):
        return SYM

    def field_store(self, obj, rec, field, v, node):
        pass

    def call(self, fn, node, args, env, depth):
        raise NotImplementedError

    # -- expressions -----------------------------------------------------------
    def eval(self, fn, n, env, depth):
        if isinstance(n, dict) and n.get('k') == 'ext' and ('val', n.get('i')) in env:
            return env[('val', n['i'])]   # already evaluated as a statement: no second evaluation
        n = fn.resolve(n) if isinstance(n, dict) else n
        if not isinstance(n, dict):
            return SYM
        k = n.get('k')
        if 'cv' in n and k not in ('call',):
            return n['cv']
        if 'cvs' in n and k not in ('call',):
            return int(n['cvs'])
        if k == 'int':
            if 'vs' in n:
                return int(n['vs'])
            return n.get('v', SYM)
        if k == 'cast':
            v = self.eval(fn, n['e'], env, depth)
            if n.get('ck') in ('IntegralCast', 'IntegralToBoolean') and isinstance(v, int):
                if n.get('ck') == 'IntegralToBoolean':
                    return int(v != 0)
                return wrap(v, n)
            if n.get('ck') == 'PointerToBoolean':
                t = self.truth(v)
                return SYM if t is None else int(t)
            if n.get('ck') == 'NullToPointer':
                return ('null',)
            return v
        if k == 'ref':
            if n.get('d') == 'enum':
                return n.get('v')
            return env.get(n['n'], SYM)
        if k in ('mem', 'idx'):
            return self.load(fn, self.lvalue(fn, n, env, depth), env, n)
        if k == 'un':
            op = n.get('op')
            if op == '!':
                t = self.truth(self.eval(fn, n['e'], env, depth))
                return SYM if t is None else (0 if t else 1)
            if op == '*':
                return self.load(fn, self.lvalue(fn, n, env, depth), env, n)
            if op == '&':
                lv = self.lvalue(fn, n['e'], env, depth)
                if lv and lv[0] == 'var':
                    self.cells[(id(env), lv[1])] = env
                    return ('addr', 'var', lv[1], id(env))
                if lv and lv[0] == 'mem' and isinstance(lv[1], tuple) and lv[1][0] == 'p':
                    return lv[1]        # &p[i] is p + i
                return ('addr',) + tuple(lv[:4]) if lv else SYM
            if is_incdec(n):
                lv = self.lvalue(fn, n['e'], env, depth)
                old = self.load(fn, lv, env, n)
                d = 1 if '++' in op else -1
                if isinstance(old, int):
                    new = wrap(old + d, n)
                elif isinstance(old, tuple) and old[0] == 'p':
                    new = ('p', old[1], old[2] + d)
                else:
                    new = SYM
                self.store(fn, lv, new, env, n)
                return old if op.startswith('post') else new
            v = self.eval(fn, n['e'], env, depth)
            if isinstance(v, int):
                if op == '-':
                    return wrap(-v, n)
                if op == '~':
                    return wrap(~v, n)
                if op == '+':
                    return v
            return SYM
        if k == 'bin':
            return self.binop(fn, n, env, depth)
        if k == 'cond':
            t = self.truth(self.eval(fn, n.get('c'), env, depth))
            if t is None:
                # both arms may be evaluated in other blocks already
                return SYM
            return self.eval(fn, n['a'] if t else n['bb'], env, depth)
        if k == 'call':
            name = n.get('fn')
            if name == '__builtin_expect':
                return self.eval(fn, n['args'][0], env, depth)
            args = n.get('args', [])
            try:
                return self.call(fn, n, args, env, depth)
            except NotImplementedError:
                for a in args:
                    self.eval(fn, a, env, depth)
                return SYM
        if k == 'stmtexpr':
            v = SYM
            for b in n.get('body', []):
                if b.get('k') == 'decl':
                    self.exec(fn, b, env, depth)
                else:
                    v = self.eval(fn, b, env, depth)
            return v
        if k == 'container_of':
            return self.eval(fn, n['e'], env, depth)
        if k == 'sizeof':
            return n.get('cv', SYM)
        return SYM

    def binop(self, fn, n, env, depth):
        op = n.get('op')
        if is_assign(n):
            lv = self.lvalue(fn, n['lhs'], env, depth)
            if op == '=':
                v = self.eval(fn, n['rhs'], env, depth)
                v = wrap(v, n)
                self.store(fn, lv, v, env, n)
                return v
            old = self.load(fn, lv, env, n)
            r = self.eval(fn, n['rhs'], env, depth)
            # compound assignment computes in the computation type
            cn = {'w': n.get('cw', n.get('w')), 's': n.get('cs', n.get('s')), 'l': n.get('l')}
            v = self.arith(op[:-1], old, r, cn, n)
            v = wrap(v, n)
            self.store(fn, lv, v, env, n)
            return v
        if op == ',':
            self.eval(fn, n['lhs'], env, depth)
            return self.eval(fn, n['rhs'], env, depth)
        a = self.eval(fn, n['lhs'], env, depth)
        b = self.eval(fn, n['rhs'], env, depth)
        return self.arith(op, a, b, n, n)

    def arith(self, op, a, b, tn, node):
        if isinstance(a, Lin) or isinstance(b, Lin):
            if not (isinstance(a, (int, Lin)) and isinstance(b, (int, Lin))) or isinstance(a, bool) or isinstance(b, bool):
                return SYM
            la, lb = Lin.of(a), Lin.of(b)
            if op == '+':
                r = la.add(lb)
                return r.k if r.is_const() else r
            if op == '-':
                r = la.add(lb, -1)
                return r.k if r.is_const() else r
            if op in ('==', '!=', '<', '>', '<=', '>='):
                if la == lb:
                    return int(op in ('==', '<=', '>='))
                d = la.add(lb, -1)
                if d.is_const() or la.is_const() or lb.is_const():
                    # forms that differ by a constant are different values; a
                    # generic symbolic value is not any particular constant
                    if op == '==':
                        return 0
                    if op == '!=':
                        return 1
                k = self.choose(2)
                out = bool(k == 0)
                self.compares.append((op, la, lb, out))
                return int(out)
            return SYM
        if op in ('<<', '>>'):
            self.shifts_checked += 1
            w = width_of(tn)
            if isinstance(b, int):
                if not (0 <= b < w):
                    raise Finding('shift out of range', node.get('l'), 'shift of a %d-bit operand by %d' % (w, b))
            else:
                raise Undecided('shift by a symbolic amount at line %s' % node.get('l'))
            if isinstance(a, int):
                return wrap(a << b if op == '<<' else a >> b, tn)
            return SYM
        pa = isinstance(a, tuple) and a[0] == 'p'
        pb = isinstance(b, tuple) and b[0] == 'p'
        if pa or pb:
            if op == '+' and pa and isinstance(b, int):
                return ('p', a[1], a[2] + b)
            if op == '+' and pb and isinstance(a, int):
                return ('p', b[1], b[2] + a)
            if op == '-' and pa and isinstance(b, int):
                return ('p', a[1], a[2] - b)
            if op == '-' and pa and pb and a[1] == b[1]:
                return a[2] - b[2]
            if pa and pb and a[1] == b[1] and op in ('==', '!=', '<', '>', '<=', '>='):
                x, y = a[2], b[2]
                return int({'==': x == y, '!=': x != y, '<': x < y, '>': x > y, '<=': x <= y, '>=': x >= y}[op])
            if op in ('==', '!=') and ((pa and isinstance(b, tuple) and b[0] == 'null') or (pb and isinstance(a, tuple) and a[0] == 'null')):
                return int(op == '!=')
            if op in ('==', '!=') and ((pa and b == 0) or (pb and a == 0)):
                return int(op == '!=')
            return SYM
        if op in ('==', '!='):
            na = isinstance(a, tuple) and a[0] == 'null'
            nb = isinstance(b, tuple) and b[0] == 'null'
            if na or nb:
                other = b if na else a
                if isinstance(other, tuple):
                    eq = other[0] == 'null'
                    return int(eq if op == '==' else not eq)
                if other == 0:
                    return int(op == '==')
                return SYM
            if isinstance(a, tuple) and isinstance(b, tuple):
                # two object designators: identity
                return int((a == b) if op == '==' else (a != b))
            if isinstance(a, tuple) or isinstance(b, tuple):
                for x, y in ((a, b), (b, a)):
                    if isinstance(x, tuple) and y == 0:
                        return int(op == '!=')
                return SYM
        if op in ('&&', '||'):
            ta, tb = self.truth(a), self.truth(b)
            if op == '&&':
                if ta is False or tb is False:
                    return 0
                return 1 if (ta and tb) else SYM
            if ta or tb:
                return 1
            return 0 if (ta is False and tb is False) else SYM
        if not (isinstance(a, int) and isinstance(b, int)):
            # algebraic facts that hold for any value
            if op == '&' and (a == 0 or b == 0):
                return 0
            if op == '*' and (a == 0 or b == 0):
                return 0
            return SYM
        try:
            if op == '+':
                r = a + b
            elif op == '-':
                r = a - b
            elif op == '*':
                r = a * b
            elif op == '/':
                if b == 0:
                    raise Finding('division by zero', node.get('l'), '')
                r = abs(a) // abs(b) * (1 if (a >= 0) == (b >= 0) else -1)
            elif op == '%':
                if b == 0:
                    raise Finding('division by zero', node.get('l'), '')
                r = abs(a) % abs(b) * (1 if a >= 0 else -1)
            elif op == '&':
                r = a & b
            elif op == '|':
                r = a | b
            elif op == '^':
                r = a ^ b
            elif op in ('==', '!=', '<', '>', '<=', '>='):
                return int({'==': a == b, '!=': a != b, '<': a < b, '>': a > b, '<=': a <= b, '>=': a >= b}[op])
            else:
                return SYM
        except Finding:
            raise
        return wrap(r, tn)


def explore(make_machine, fn, args_of, max_scripts=64):
    """run the machine for every nondeterministic script; yields (machine,
    outcome) where outcome is ('ok', ret) | ('finding', Finding) |
    ('undecided', msg) | ('end',)"""
    scripts = [[]]
    done = 0
    while scripts and done < max_scripts:
        sc = scripts.pop()
        m = make_machine()
        m.choices = list(sc)
        done += 1
        try:
            ret = m.run(fn, args_of(m))
            out = ('ok', ret)
        except Finding as f:
            out = ('finding', f)
        except Undecided as u:
            out = ('undecided', str(u))
        except PathEnd:
            out = ('end',)
        # schedule the alternatives of choices made beyond the script
        for i in range(len(sc), len(m.choice_log)):
            n = m.choice_log[i]
            for alt in range(1, n):
                scripts.append(list(sc) + [0] * (i - len(sc)) + [alt])
        yield m, out
