"""Ghost model of block buffers for the abstract machine (upv.absint).

A block ubuf is a list of octet tokens: an int (a concrete octet chosen by
the finite-domain driver, e.g. a header field), or a symbolic token
('b', name) that stands for "some payload octet" and is compared by identity
only (so that "the output is exactly the carried payload, in order" is a
statement about token sequences).  urefs carry a ubuf and an attribute
dictionary.  The machine interprets the extracted CFGs of the functions under
analysis and of the inline accessors they call; the block / uref API itself
is replaced by this model (its own behaviour is the subject of C02/C03).

Everything is checked on the way: reads and writes outside a mapped window or
a local array, reads of octets of a local array that were never written,
use of a freed buffer, double free.  Nothing of Upipe is compiled or run."""
import re

from .absint import Machine, Finding, Undecided, PathEnd, SYM, wrap
from .facts import strip_all_casts

UNINIT = ('uninit',)
ARRAY_RE = re.compile(r'^(?:const )?(?:uint8_t|unsigned char|char|int8_t)\[(\d+)\]$')
ATTR_RE = re.compile(r'^uref_(\w+?)_(set|get|delete|match|cmp)_(\w+)$')
LOG_RE = re.compile(r'^(upipe|uprobe)_(verbose|dbg|notice|info|warn|err|log)(_va)?$')
THROW_RE = re.compile(r'^(upipe|uprobe)_throw(_\w+)?$')
CONV_RE = re.compile(r'_(from|to)_\w+$')


class GBuf:
    def __init__(self, i, data):
        self.id = i
        self.data = list(data)
        self.freed = False
        self.merged = False
        self.segs = None          # optional segmentation (list of segment sizes): read / write map to the end of a segment
        self.shared = False       # a shared area: write mappings are refused


class GUref:
    def __init__(self, i, ubuf, attrs=None):
        self.id = i
        self.ubuf = ubuf          # buffer id or None
        self.attrs = dict(attrs or {})
        self.freed = False
        self.state = 'owned'      # owned | output | freed


class BlockMachine(Machine):
    max_steps = 20000

    def __init__(self, prog, unit, pipe_rec=None, state=None, inline=()):
        Machine.__init__(self, prog, unit)
        self.pipe_rec = pipe_rec
        self.f = dict(state or {})
        self.urefs = {}
        self.bufs = {}
        self.mem = {}             # (region, idx) -> token
        self.heap = {}            # (object, 'next'|'prev') -> object: the links of uchain structures
        self.objf = {}            # (object, field) -> value: fields of objects other than the pipe
        self.token_values = False     # loads of symbolic payload octets yield the token (for copy / swap loops)
        self.fragment_reads = False   # read/write may map less than asked (segment boundary): explored both ways
        self.views = {}           # region -> (buf id, offset) for mapped windows
        self.track = set()        # regions whose octets must be written before they are read
        self.events = []          # ('output', uref id, tokens, attrs) | ('throw', name, ...) | ('log', name)
        self.nreg = 0
        self.inline = tuple(inline)
        self.output_fns = set()   # names of the pipe's output function(s): (upipe, uref, upump_p)
        self.err_invalid = self._enum('UBASE_ERR_INVALID', 6)
        self.err_alloc = self._enum('UBASE_ERR_ALLOC', 2)
        self.err_busy = self._enum('UBASE_ERR_BUSY', 8)
        self.reads_checked = 0

    def _enum(self, name, default):
        for u in [self.unit, self.prog.hdr]:
            if u is not None and name in u.enumerators:
                return u.enumerators[name]
        return default

    # ---- construction helpers (used by the drivers) -----------------------
    def new_buf(self, data):
        i = len(self.bufs)
        self.bufs[i] = GBuf(i, data)
        return ('ubuf', i)

    def new_uref(self, data=None, attrs=None):
        i = len(self.urefs)
        b = None
        if data is not None:
            b = self.new_buf(data)[1]
        self.urefs[i] = GUref(i, b, attrs)
        return ('uref', i)

    def data_of(self, v):
        """token list of a uref / ubuf value (None if it has no buffer)"""
        if isinstance(v, tuple) and v[0] == 'uref':
            u = self.urefs[v[1]]
            return None if u.ubuf is None else self.bufs[u.ubuf].data
        if isinstance(v, tuple) and v[0] == 'ubuf':
            return self.bufs[v[1]].data
        return None

    def region(self, size, prefix='r', track=False):
        self.nreg += 1
        name = '%s#%d' % (prefix, self.nreg)
        self.regions[name] = size
        if track:
            self.track.add(name)
        return name

    # ---- memory -----------------------------------------------------------
    def exec(self, fn, s, env, depth):
        if s.get('k') == 'decl':
            for v in s['vars']:
                m = ARRAY_RE.match(v.get('t') or '')
                if m and not isinstance(v.get('init'), dict):
                    r = self.region(int(m.group(1)), 'local:%s' % v['n'], track=True)
                    env[v['n']] = ('p', r, 0)
                else:
                    env[v['n']] = wrap(self.eval(fn, v['init'], env, depth), v) if isinstance(v.get('init'), dict) else SYM
            return None
        return Machine.exec(self, fn, s, env, depth)

    def tok_at(self, p, node, write=False):
        """bounds / liveness / initialisation checks of one octet access;
        returns the raw token for reads"""
        ln = node.get('l') if isinstance(node, dict) else None
        self.derefs_checked += 1
        size = self.regions.get(p[1])
        if size is not None and not (0 <= p[2] < size):
            raise Finding('out-of-bounds %s' % ('write' if write else 'read'), ln,
                          'octet %d of a %d-octet window (%s)' % (p[2], size, p[1].split('#')[0]))
        if p[1] in self.views:
            b, off = self.views[p[1]]
            buf = self.bufs[b]
            if buf.freed and not buf.merged:
                raise Finding('use after free', ln, 'access through a window of freed buffer %d' % b)
            if off + p[2] >= len(buf.data):
                raise Finding('out-of-bounds %s' % ('write' if write else 'read'), ln, 'window beyond the end of the buffer')
            if write:
                return None
            v = buf.data[off + p[2]]
        else:
            if write:
                return None
            v = self.mem.get((p[1], p[2]), UNINIT if p[1] in self.track else SYM)
        self.reads_checked += 1
        if v == UNINIT:
            raise Finding('read of an octet that was never written', ln, 'octet %d of %s' % (p[2], p[1].split('#')[0]))
        return v

    def deref(self, p, node, write):
        if isinstance(p, tuple) and p[0] == 'p':
            v = self.tok_at(p, node, write)
            if self.token_values and isinstance(v, tuple) and v and v[0] == 'b':
                return v          # a payload octet moved around as a value keeps its identity
            return v if isinstance(v, int) else SYM
        return SYM

    def mem_write(self, p, v, node=None):
        if isinstance(p, tuple) and p[0] == 'p':
            if isinstance(v, int):
                v &= 0xff
            if p[1] in self.views:
                b, off = self.views[p[1]]
                self.bufs[b].data[off + p[2]] = v
            else:
                self.mem[(p[1], p[2])] = v

    def store(self, fn, lv, v, env, node):
        Machine.store(self, fn, lv, v, env, node)
        if lv is not None and lv[0] == 'mem':
            self.mem_write(lv[1], v, node)

    def write_to(self, dst, idx, tok, node):
        """store a token at dst+idx where dst is a pointer value or the
        address of a variable"""
        if isinstance(dst, tuple) and dst[0] == 'p':
            p = ('p', dst[1], dst[2] + idx)
            self.tok_at(p, node, write=True)
            self.mem_write(p, tok)
        elif isinstance(dst, tuple) and dst[0] == 'addr' and dst[1] == 'var':
            if idx != 0:
                raise Finding('out-of-bounds write', node.get('l'), 'octet %d of a scalar variable' % idx)
            self.cells[(dst[3], dst[2])][dst[2]] = tok if isinstance(tok, int) else SYM if tok == UNINIT else tok
        elif isinstance(dst, tuple) and dst[0] == 'addr' and dst[1] == 'field':
            self.field_store(dst[2], dst[3], dst[4], tok, node)

    def out_store(self, dst, v, node):
        if isinstance(dst, tuple) and dst[0] == 'addr' and dst[1] == 'var':
            self.cells[(dst[3], dst[2])][dst[2]] = v
        elif isinstance(dst, tuple) and dst[0] == 'addr' and dst[1] == 'field':
            self.field_store(dst[2], dst[3], dst[4], v, node)

    def in_load(self, src):
        if isinstance(src, tuple) and src[0] == 'addr' and src[1] == 'var':
            return self.cells[(src[3], src[2])].get(src[2], SYM)
        if isinstance(src, tuple) and src[0] == 'addr' and src[1] == 'field':
            return self.field_load(src[2], src[3], src[4])
        return SYM

    # ---- fields -------------------------------------------------------------
    def field_load(self, obj, rec, field):
        if isinstance(obj, tuple) and obj[0] == 'uref' and rec == 'uref':
            u = self.urefs[obj[1]]
            if field == 'ubuf':
                return ('ubuf', u.ubuf) if u.ubuf is not None else ('null',)
            return SYM
        if rec == 'uchain' and field in ('next', 'prev'):
            return self.heap.get((obj, field), ('null',))
        if (obj, field) in self.objf:
            return self.objf[(obj, field)]
        if rec == self.pipe_rec:
            return self.f.get(field, SYM)
        return SYM

    def make_list(self, head, elems):
        """circular doubly linked list (ulist) with the given head object"""
        ring = [head] + list(elems)
        for i, x in enumerate(ring):
            self.heap[(x, 'next')] = ring[(i + 1) % len(ring)]
            self.heap[(x, 'prev')] = ring[(i - 1) % len(ring)]

    def list_of(self, head):
        out, x, n = [], self.heap.get((head, 'next'), head), 0
        while x != head and n < 64:
            out.append(x)
            x = self.heap.get((x, 'next'), head)
            n += 1
        return out

    def head(self, rec, field):
        return ('addr', 'field', ('obj', 'pipe'), rec, field)

    def field_store(self, obj, rec, field, v, node):
        if isinstance(obj, tuple) and obj[0] == 'uref' and rec == 'uref' and field == 'ubuf':
            self.urefs[obj[1]].ubuf = v[1] if isinstance(v, tuple) and v[0] == 'ubuf' else None
            return
        if rec == 'uchain' and field in ('next', 'prev'):
            self.heap[(obj, field)] = v
            return
        if (obj, field) in self.objf:
            self.objf[(obj, field)] = v
            return
        if rec == self.pipe_rec:
            self.f[field] = v

    # ---- object helpers -----------------------------------------------------
    def buf_of(self, v, node, what):
        """GBuf designated by a uref / ubuf value, or None"""
        if isinstance(v, tuple) and v[0] == 'uref':
            u = self.urefs[v[1]]
            if u.freed:
                raise Finding('use after free', node.get('l'), '%s on freed uref %d' % (what, v[1]))
            if u.ubuf is None:
                return None
            b = self.bufs[u.ubuf]
        elif isinstance(v, tuple) and v[0] == 'ubuf':
            b = self.bufs[v[1]]
        else:
            return None
        if b.freed:
            raise Finding('use after free', node.get('l'), '%s on freed buffer %d' % (what, b.id))
        return b

    def free_buf(self, i, node):
        b = self.bufs[i]
        if b.freed:
            raise Finding('double free', node.get('l'), 'buffer %d' % i)
        b.freed = True

    def norm(self, buf, off, size, node):
        """normalise (offset, size) against the buffer; None if refused"""
        n = len(buf.data)
        if not isinstance(off, int) or not isinstance(size, int):
            raise Undecided('symbolic offset or size at line %s' % node.get('l'))
        if off < 0:
            off += n
        if off < 0 or off > n:
            return None
        if size == -1:
            size = n - off
        if size < 0 or off + size > n:
            return None
        return off, size

    # ---- calls ----------------------------------------------------------------
    def call(self, fn, node, args, env, depth):
        name = node.get('fn')
        if name is None:
            raise NotImplementedError
        if name in ('__assert_fail', 'abort'):
            raise PathEnd()
        vals = [self.eval(fn, a, env, depth) for a in args]
        r = self.extra_api(fn, node, name, vals)
        if r is NotImplemented:
            r = self.api(fn, node, name, vals, env, depth)
        if r is not NotImplemented:
            return r
        callee = self.prog.lookup(self.unit, name)
        if callee is not None and callee.blocks and self.may_inline(callee):
            return self.run(callee, vals, depth + 1)
        return SYM

    def extra_api(self, fn, node, name, v):
        return NotImplemented

    def may_inline(self, callee):
        f = callee.file or ''
        if '/stubs/' in f or f.startswith('stubs/') or 'bitstream/' in f:
            return True
        if callee.name in self.inline or any(callee.name.startswith(p) for p in self.inline if p.endswith('_')):
            return True
        if callee.name.startswith(('ulist_', 'uchain_')) and f.endswith(('upipe/ulist.h', 'upipe/ubase.h')):
            return True       # pure link manipulation, interpreted on the ghost heap
        return False

    def api(self, fn, node, name, v, env, depth):
        ln = node.get('l')
        if name in self.output_fns:
            self.output(v[1], ln, v[0])
            return None
        if name == 'ubase_check':
            return SYM if not isinstance(v[0], int) else int(v[0] == 0)
        if name in ('__builtin_expect',):
            return v[0]
        if (CONV_RE.search(name) and len(v) == 1 and not name.startswith(('uref_', 'ubuf_'))) or name in ('uref_to_uchain', 'uref_from_uchain'):
            return v[0]       # a structure and the uchain embedded in it are one object here
        if LOG_RE.match(name):
            self.events.append(('log', name, ln))
            return None
        if THROW_RE.match(name):
            self.events.append(('throw', name, tuple(x for x in v[1:] if isinstance(x, (int, tuple))), ln))
            return 0
        if name in ('memset',):
            dst, val, n = v
            if not isinstance(n, int):
                raise Undecided('memset of a symbolic length at line %s' % ln)
            for i in range(n):
                self.write_to(dst, i, val if isinstance(val, int) else SYM, node)
            return dst
        if name in ('memcpy', 'memmove'):
            dst, src, n = v
            if not isinstance(n, int):
                raise Undecided('memcpy of a symbolic length at line %s' % ln)
            toks = [self.tok_at(('p', src[1], src[2] + i), node) if isinstance(src, tuple) and src[0] == 'p' else SYM for i in range(n)]
            for i, t in enumerate(toks):
                self.write_to(dst, i, t, node)
            return dst
        # ---- uref / ubuf life cycle
        if name == 'uref_free':
            if isinstance(v[0], tuple) and v[0][0] == 'uref':
                u = self.urefs[v[0][1]]
                if u.freed:
                    raise Finding('double free', ln, 'uref %d' % u.id)
                if u.state == 'output':
                    raise Finding('free after output', ln, 'uref %d was handed to the output and is freed afterwards' % u.id)
                u.freed = True
                u.state = 'freed'
                if u.ubuf is not None:
                    self.free_buf(u.ubuf, node)
            return None
        if name == 'ubuf_free':
            if isinstance(v[0], tuple) and v[0][0] == 'ubuf':
                self.free_buf(v[0][1], node)
            return None
        if name == 'uref_dup':
            if not (isinstance(v[0], tuple) and v[0][0] == 'uref'):
                return SYM
            u = self.urefs[v[0][1]]
            b = self.buf_of(v[0], node, name)
            return self.new_uref(None if b is None else b.data, u.attrs)
        if name in ('ubuf_dup',):
            b = self.buf_of(v[0], node, name)
            if b is None:
                return ('null',)
            return self.new_buf(b.data)
        if name == 'uref_detach_ubuf':
            u = self.urefs[v[0][1]]
            r = ('ubuf', u.ubuf) if u.ubuf is not None else ('null',)
            u.ubuf = None
            return r
        if name == 'uref_attach_ubuf':
            u = self.urefs[v[0][1]]
            if u.ubuf is not None:
                self.free_buf(u.ubuf, node)
            u.ubuf = v[1][1] if isinstance(v[1], tuple) and v[1][0] == 'ubuf' else None
            return None
        if name == 'ubuf_block_copy':
            b = self.buf_of(v[1], node, name)
            if b is None:
                return ('null',)
            n = self.norm(b, v[2], v[3], node)
            if n is None:
                return ('null',)
            return self.new_buf(b.data[n[0]:n[0] + n[1]])
        if name in ('ubuf_block_alloc',):
            if not isinstance(v[1], int):
                raise Undecided('allocation of a symbolic size at line %s' % ln)
            return self.new_buf([UNINIT] * v[1])
        if name == 'uref_block_alloc':
            if not isinstance(v[2], int):
                raise Undecided('allocation of a symbolic size at line %s' % ln)
            return self.new_uref([UNINIT] * v[2])
        if name == 'ubuf_block_alloc_from_opaque':
            src, n = v[1], v[2]
            if not (isinstance(src, tuple) and src[0] == 'p' and isinstance(n, int)):
                raise Undecided('alloc_from_opaque of a symbolic source at line %s' % ln)
            toks = [self.tok_at(('p', src[1], src[2] + i), node) for i in range(n)]
            return self.new_buf(toks)
        # ---- block operations
        m = re.match(r'^(uref|ubuf)_block_(\w+)$', name)
        if m:
            op = m.group(2)
            r = self.block_op(fn, node, op, v, env, depth)
            if r is not NotImplemented:
                return r
        m = ATTR_RE.match(name)
        if m and isinstance(v[0], tuple) and v[0][0] == 'uref':
            return self.attr_op(node, m.group(1), m.group(2), m.group(3), v)
        if name in ('uref_attr_set_priv', 'uref_attr_get_priv', 'uref_attr_delete_priv'):
            return self.attr_op(node, 'attr', name.split('_')[2], 'priv', v)
        return NotImplemented

    def attr_op(self, node, group, op, key, v):
        u = self.urefs[v[0][1]]
        if u.freed:
            raise Finding('use after free', node.get('l'), 'attribute access on freed uref %d' % u.id)
        k = '%s.%s' % (group, key)
        if op in ('set', 'get') and len(v) > 2:
            k += '[%s]' % (v[2],)        # indexed attribute (printf-style name)
        elif op == 'delete' and len(v) > 1:
            k += '[%s]' % (v[1],)
        if op == 'set':
            u.attrs[k] = v[1] if len(v) > 1 else True
            return 0
        if op == 'get':
            if k not in u.attrs:
                return self.err_invalid
            if len(v) > 1:
                self.out_store(v[1], u.attrs[k], node)
            return 0
        if op == 'delete':
            if k in u.attrs:
                del u.attrs[k]
                return 0
            return self.err_invalid
        return SYM

    def block_op(self, fn, node, op, v, env, depth):
        ln = node.get('l')
        if op in ('set_start', 'set_end', 'get_start', 'get_end', 'delete_start', 'delete_end', 'set_header_size', 'get_header_size'):
            kind, key = op.split('_', 1)
            return self.attr_op(node, 'block', kind, key, v)
        b = self.buf_of(v[0], node, op) if v and isinstance(v[0], tuple) and v[0][0] in ('uref', 'ubuf') else None
        if op == 'size':
            if b is None:
                return self.err_invalid
            self.out_store(v[1], len(b.data), node)
            return 0
        if op == 'peek':
            if b is None:
                return ('null',)
            n = self.norm(b, v[1], v[2], node)
            if n is None:
                return ('null',)
            r = self.region(n[1], 'peek')
            self.views[r] = (b.id, n[0])
            return ('p', r, 0)
        if op == 'peek_unmap' or op == 'unmap':
            return 0
        if op == 'extract':
            if b is None:
                return self.err_invalid
            n = self.norm(b, v[1], v[2], node)
            if n is None:
                return self.err_invalid
            for i in range(n[1]):
                self.write_to(v[3], i, b.data[n[0] + i], node)
            return 0
        if op in ('read', 'write'):
            if b is None:
                return self.err_invalid
            want = self.in_load(v[2])
            n = self.norm(b, v[1], want if isinstance(want, int) else -1, node)
            if n is None or (n[1] == 0 and want != 0):
                return self.err_invalid
            if op == 'write' and b.shared:
                return self.err_busy
            if b.segs:
                end = 0
                for sz in b.segs:
                    end += sz
                    if n[0] < end:
                        break
                n = (n[0], min(n[1], end - n[0]))
            if self.fragment_reads and n[1] > 1 and self.choose(2) == 1:
                n = (n[0], 1)         # a segment boundary after one octet
            r = self.region(n[1], 'map')
            self.views[r] = (b.id, n[0])
            self.out_store(v[2], n[1], node)
            self.out_store(v[3], ('p', r, 0), node)
            return 0
        if op == 'resize':
            if b is None:
                return self.err_invalid
            skip, new = v[1], v[2]
            if not isinstance(skip, int) or not isinstance(new, int):
                raise Undecided('resize by a symbolic amount at line %s' % ln)
            n = len(b.data)
            if skip < 0:
                raise Undecided('extension of a buffer at line %s' % ln)
            if skip > n:
                return self.err_invalid
            if new == -1:
                new = n - skip
            if new < 0 or skip + new > n:
                return self.err_invalid
            b.data[:] = b.data[skip:skip + new]
            if b.segs:
                segs, pos, out = b.segs, 0, []
                for sz in segs:
                    lo, hi = max(pos, skip), min(pos + sz, skip + new)
                    if hi > lo:
                        out.append(hi - lo)
                    pos += sz
                b.segs = out or None
            return 0
        if op == 'splice':
            if b is None:
                return ('null',)
            n = self.norm(b, v[1], v[2], node)
            if n is None:
                return ('null',)
            if v[0][0] == 'uref':
                return self.new_uref(b.data[n[0]:n[0] + n[1]], self.urefs[v[0][1]].attrs)
            return self.new_buf(b.data[n[0]:n[0] + n[1]])
        if op == 'truncate':
            if b is None or not isinstance(v[1], int):
                return self.err_invalid
            if v[1] < 0 or v[1] > len(b.data):
                return self.err_invalid
            del b.data[v[1]:]
            return 0
        if op == 'scan':
            if b is None:
                return self.err_invalid
            start = self.in_load(v[1])
            if not isinstance(start, int) or not isinstance(v[2], int):
                raise Undecided('scan with a symbolic offset or word at line %s' % ln)
            for i in range(start, len(b.data)):
                if b.data[i] == (v[2] & 0xff):
                    self.out_store(v[1], i, node)
                    return 0
            self.out_store(v[1], len(b.data), node)
            return self.err_invalid
        if op == 'append':
            o = v[1]
            if b is None or not (isinstance(o, tuple) and o[0] == 'ubuf'):
                return self.err_invalid
            ob = self.bufs[o[1]]
            if ob.freed:
                raise Finding('use after free', ln, 'append of freed buffer %d' % ob.id)
            b.data.extend(ob.data)
            ob.freed = True           # merged: no longer an object of its own
            ob.merged = True
            return 0
        if op == 'split':
            if b is None or not isinstance(v[1], int):
                return ('null',)
            off = v[1]
            if off < 0 or off > len(b.data):
                return ('null',)
            tail = b.data[off:]
            b.data[:] = b.data[:off]
            if v[0][0] == 'uref':
                return self.new_uref(tail, self.urefs[v[0][1]].attrs)
            return self.new_buf(tail)
        if op == 'delete':
            if b is None:
                return self.err_invalid
            n = self.norm(b, v[1], v[2], node)
            if n is None:
                return self.err_invalid
            del b.data[n[0]:n[0] + n[1]]
            return 0
        if op == 'insert':
            o = v[2]
            if b is None or not isinstance(v[1], int) or not (isinstance(o, tuple) and o[0] == 'ubuf'):
                return self.err_invalid
            if v[1] < 0 or v[1] > len(b.data):
                return self.err_invalid
            ob = self.bufs[o[1]]
            b.data[v[1]:v[1]] = ob.data
            ob.freed = True
            ob.merged = True
            return 0
        if op == 'compare':
            o = self.buf_of(v[2], node, op) if isinstance(v[2], tuple) else None
            if b is None or o is None or not isinstance(v[1], int):
                return self.err_invalid
            seg = b.data[v[1]:v[1] + len(o.data)]
            return 0 if seg == o.data and len(seg) == len(o.data) else self.err_invalid
        if op == 'equal':
            o = self.buf_of(v[1], node, op) if isinstance(v[1], tuple) else None
            if b is None or o is None:
                return self.err_invalid
            return 0 if b.data == o.data else self.err_invalid
        return NotImplemented

    # ---- end-of-run reports ---------------------------------------------------
    def output(self, uref_val, ln=None, pipe=None):
        u = self.urefs[uref_val[1]]
        if u.freed:
            raise Finding('use after free', ln, 'freed uref %d handed to the output' % u.id)
        if u.state == 'output':
            raise Finding('double output', ln, 'uref %d handed to the output twice' % u.id)
        u.state = 'output'
        data = None if u.ubuf is None else list(self.bufs[u.ubuf].data)
        self.events.append(('output', u.id, data, dict(u.attrs), pipe))

    def leaked(self, keep=()):
        """urefs / buffers neither freed, output, nor referenced by `keep`
        (values still stored in the pipe)"""
        held_u, held_b = set(), set()
        for k in keep:
            if isinstance(k, tuple) and k[0] == 'uref':
                held_u.add(k[1])
            if isinstance(k, tuple) and k[0] == 'ubuf':
                held_b.add(k[1])
        for u in self.urefs.values():
            if u.state != 'freed' and u.ubuf is not None:
                held_b.add(u.ubuf)
        lu = [u.id for u in self.urefs.values() if u.state == 'owned' and u.id not in held_u]
        lb = [b.id for b in self.bufs.values() if not b.freed and b.id not in held_b]
        return lu, lb
