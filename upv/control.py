"""Slot resolution and per-command slices of control functions (DESIGN §1,
§3.4)."""
from .facts import strip, strip_all_casts, walk, is_assign, enum_name, const_of

MGR_SLOTS = ('upipe_alloc', 'upipe_input', 'upipe_control', 'upipe_mgr_control')


def fn_ref(n):
    n = strip_all_casts(n)
    if isinstance(n, dict) and n.get('k') == 'ref' and n.get('d') == 'fn':
        return n['n']
    if isinstance(n, dict) and n.get('k') == 'un' and n.get('op') == '&':
        return fn_ref(n.get('e'))
    return None


def mgr_slots(unit):
    """list of dicts {slot: function name} for each upipe_mgr descriptor found
    in the unit: static initialisers of struct upipe_mgr (possibly nested in
    a larger struct) and stores `X.upipe_control = f` grouped by function"""
    out = []

    def from_init(tree, where):
        for x in walk(tree):
            if x.get('k') == 'initlist' and 'struct upipe_mgr' == (x.get('t') or '').replace('const ', ''):
                d = {}
                for e in x['elts']:
                    if e.get('f') in MGR_SLOTS:
                        f = fn_ref(e['e'])
                        if f:
                            d[e['f']] = f
                if d:
                    d['_where'] = where
                    out.append(d)

    for g in unit.globals.values():
        if isinstance(g.get('init'), dict):
            from_init(g['init'], 'global %s' % g['name'])
    for fn in unit.funcs.values():
        # compound literals `(struct upipe_mgr){ ... }` assigned at run time
        for bid, st in fn.all_stmts():
            from_init(st, 'function %s' % fn.name)
    for fn in unit.funcs.values():
        d = {}
        for bid, s, x in fn.nodes():
            if is_assign(x) and x['op'] == '=':
                l = strip(x['lhs'])
                if isinstance(l, dict) and l.get('k') == 'mem' and l.get('rec') == 'upipe_mgr' and l.get('f') in MGR_SLOTS:
                    f = fn_ref(x['rhs'])
                    if f:
                        # several managers may be initialised in one function
                        if l['f'] in d:
                            d['_where'] = 'function %s' % fn.name
                            out.append(d)
                            d = {}
                        d[l['f']] = f
            elif x.get('k') == 'decl':
                for v in x['vars']:
                    if isinstance(v.get('init'), dict):
                        from_init(v['init'], 'function %s' % fn.name)
        if d:
            d['_where'] = 'function %s' % fn.name
            out.append(d)
    return out


def command_param(fn):
    """index of the `int command` parameter of a control-like function"""
    for i, p in enumerate(fn.params):
        if p['n'] == 'command' and p['t'] in ('int', 'enum upipe_command'):
            return i
    # signature (struct upipe *, int, va_list)
    if len(fn.params) == 3 and fn.params[1]['t'] == 'int' and 'va_list' in fn.params[2]['t']:
        return 1
    return None


def is_param_ref(n, fn, idx):
    n = strip_all_casts(n)
    return isinstance(n, dict) and n.get('k') == 'ref' and n.get('d') == 'param' and n.get('pi') == idx


class Slice:
    def __init__(self, fn, blocks, case_block, name, value):
        self.fn = fn
        self.blocks = blocks
        self.case_block = case_block
        self.name = name
        self.value = value


def handled_continuation(fn, bid, callnode):
    """blocks of fn executed only when the dispatch call returned something
    else than UBASE_ERR_UNHANDLED: (first block, set of blocks) or None"""
    var = None
    for st in fn.stmts(bid):
        if st.get('k') == 'decl':
            for v in st['vars']:
                if isinstance(v.get('init'), dict) and any(y is callnode for y in walk(v['init'])):
                    var = v['n']
        elif is_assign(st) and any(y is callnode for y in walk(st['rhs'])):
            l = strip(st['lhs'])
            if isinstance(l, dict) and l.get('k') == 'ref':
                var = l['n']
    if var is None:
        return None
    # the test may sit in this block or in a following straight-line block
    b = bid
    for _ in range(3):
        c = fn.cond(b)
        if c:
            n = strip_all_casts(c[0])
            from .facts import strip_expect
            n, neg = strip_expect(n)
            if isinstance(n, dict) and n.get('k') == 'bin' and n.get('op') in ('!=', '==') and 'lhs' in n:
                l = strip_all_casts(n['lhs'])
                if isinstance(l, dict) and l.get('k') == 'ref' and l['n'] == var and enum_name(n['rhs']) == 'UBASE_ERR_UNHANDLED':
                    handled_true = (n['op'] == '!=') != neg
                    hs, us = (c[1], c[2]) if handled_true else (c[2], c[1])
                    if hs is None:
                        return None
                    blocks = fn.reachable_from(hs) - (fn.reachable_from(us) if us is not None else set()) - {fn.exit}
                    return (hs, blocks) if blocks else None
            return None
        nxt = [s for s in fn.succ[b] if s is not None]
        if len(nxt) != 1:
            return None
        b = nxt[0]
    return None


def command_slices(prog, unit, root, depth=0, seen=None):
    """returns ({command name: [Slice]}, info) for the control function root,
    following calls that pass the command parameter on"""
    seen = seen if seen is not None else set()
    res = {}
    info = {'dispatchers': [], 'undecided': []}
    if root.name in seen or depth > 4:
        return res, info
    seen.add(root.name)
    ci = command_param(root)
    if ci is None:
        info['undecided'].append('%s: no command parameter' % root.name)
        return res, info
    info['dispatchers'].append(root.name)
    nswitch = 0
    for bid, b in root.blocks.items():
        t = b.get('term')
        if not t or t.get('cls') != 'SwitchStmt':
            continue
        c = root.resolve(t.get('cond'))
        if not is_param_ref(c, root, ci):
            continue
        nswitch += 1
        for s in root.succ[bid]:
            if s is None:
                continue
            lab = root.label(s)
            if lab and lab.get('k') == 'case' and lab.get('n'):
                blocks = root.reachable_from(s) - {root.exit}
                res.setdefault(lab['n'], []).append(Slice(root, blocks, s, lab['n'], lab.get('v')))
    # calls that forward the command
    for bid, s, x in root.nodes():
        if x.get('k') == 'call' and x.get('fn'):
            if any(is_param_ref(a, root, ci) for a in x.get('args', [])):
                callee = prog.lookup(unit, x['fn'])
                if callee is None or callee.name == root.name:
                    continue
                if command_param(callee) is None:
                    # logging helpers etc. that merely receive the number
                    if not any('va_list' in p['t'] for p in callee.params):
                        continue
                sub, subinfo = command_slices(prog, callee.unit, callee, depth + 1, seen)
                for k, v in sub.items():
                    res.setdefault(k, []).extend(v)
                # code of the root that runs only when the callee *handled* the
                # command belongs to every command the callee handles
                hb = handled_continuation(root, bid, x)
                if hb:
                    for k in sub:
                        res.setdefault(k, []).append(Slice(root, hb[1], hb[0], k, None))
                info['dispatchers'] += subinfo['dispatchers']
                info['undecided'] += subinfo['undecided']
    return res, info
