#!/usr/bin/env python3
"""debug helper: explore one function with the ownership engine
   tools/owndbg.py lib/upipe-ts/upipe_ts_encaps.c upipe_ts_encaps_complete [param-index]"""
import sys, json, os
sys.path.insert(0, os.path.dirname(os.path.dirname(os.path.abspath(__file__))))
from upv import facts, own, ownrule
unit, fname = sys.argv[1], sys.argv[2]
owned = tuple(int(x) for x in sys.argv[3:])
stubs = unit.startswith(('lib/upipe-ts', 'lib/upipe-framers'))
prog = facts.load_program([unit], stubs=stubs)
u = prog.units[unit]
inputs = ownrule.input_functions(prog)
W = own.Own(prog, inputs, {})
fn = u.funcs[fname]
res = W.explore(u, fn, owned_params=owned)
for v in res['violations']:
    print(json.dumps(v.__dict__, default=str)[:1500])
print('exits', res.get('exits'), 'states', res['states'])
if os.environ.get('BLOCKS'):
    for b in sorted(fn.blocks):
        blk = fn.blocks[b]
        ls = sorted({x.get('l') for s in fn.stmts(b) for x in facts.walk(s) if x.get('l')})
        print(b, 'succ', fn.succ[b], 'lines', ls[:1], '..', ls[-1:] )
