// uxtract: LibTooling fact extractor for the Upipe static checks.
//
// usage: uxtract [--all] <out.json> <file.c> -- <clang flags>
//
// Emits, for one translation unit, a JSON document with
//   records   : struct layouts (field names, declared types with sugar)
//   enums     : enumerators and values
//   globals   : file-scope variables with initialisers (expression trees)
//   functions : every function definition whose expansion location is in the
//               main file (or every definition with --all), with its clang
//               CFG: per block the ordered top-level expression trees, the
//               terminator with its condition, the successors and the case
//               labels.
// No verdict is computed here.

#include "clang/AST/ASTConsumer.h"
#include "clang/AST/ASTContext.h"
#include "clang/AST/Expr.h"
#include "clang/AST/ParentMap.h"
#include "clang/AST/RecordLayout.h"
#include "clang/AST/RecursiveASTVisitor.h"
#include "clang/Analysis/CFG.h"
#include "clang/Frontend/CompilerInstance.h"
#include "clang/Frontend/FrontendAction.h"
#include "clang/Lex/Lexer.h"
#include "clang/Tooling/CompilationDatabase.h"
#include "clang/Tooling/Tooling.h"
#include "llvm/Support/JSON.h"
#include "llvm/Support/raw_ostream.h"

#include <map>
#include <set>
#include <string>
#include <vector>

using namespace clang;
using llvm::json::OStream;

static bool OptAll = false;
static std::string OutPath;
static bool HadError = false;

namespace {

class Emitter {
public:
  Emitter(ASTContext &Ctx, OStream &J)
      : Ctx(Ctx), SM(Ctx.getSourceManager()), J(J) {
    PP = Ctx.getPrintingPolicy();
    PP.SuppressTagKeyword = false;
  }

  ASTContext &Ctx;
  SourceManager &SM;
  OStream &J;
  PrintingPolicy PP = PrintingPolicy(LangOptions());

  // per function state
  std::map<const Stmt *, unsigned> ElemBlock; // stmt -> block id
  // shadowed locals get distinct names: second declaration of `x` is `x#2`
  std::map<const VarDecl *, std::string> LocalNames;
  std::map<std::string, unsigned> LocalCount;

  std::string localName(const VarDecl *VD) {
    if (!VD->isLocalVarDeclOrParm())
      return VD->getNameAsString();
    auto It = LocalNames.find(VD);
    if (It != LocalNames.end())
      return It->second;
    std::string N = VD->getNameAsString();
    unsigned &C = LocalCount[N];
    C++;
    std::string R = C == 1 ? N : N + "#" + std::to_string(C);
    LocalNames[VD] = R;
    return R;
  }
  std::map<const Stmt *, unsigned> Ids;
  unsigned NextId = 0;
  unsigned CurBlock = 0;
  const FunctionDecl *CurFn = nullptr;

  unsigned idOf(const Stmt *S) {
    auto It = Ids.find(S);
    if (It != Ids.end())
      return It->second;
    unsigned I = NextId++;
    Ids[S] = I;
    return I;
  }

  std::string relPath(StringRef P) {
    std::string S = P.str();
    if (S.rfind("/repo/", 0) == 0)
      return S.substr(6);
    // scratch copies: strip up to and including the first component that
    // holds "include/" or "lib/"
    for (const char *Key : {"/include/upipe", "/lib/upipe", "/lib/upump"}) {
      size_t Pos = S.find(Key);
      if (Pos != std::string::npos)
        return S.substr(Pos + 1);
    }
    return S;
  }

  std::string fileOf(SourceLocation L) {
    PresumedLoc P = SM.getPresumedLoc(SM.getExpansionLoc(L));
    if (P.isInvalid())
      return "";
    return relPath(P.getFilename());
  }
  unsigned lineOf(SourceLocation L) {
    PresumedLoc P = SM.getPresumedLoc(SM.getExpansionLoc(L));
    return P.isInvalid() ? 0 : P.getLine();
  }
  std::string spellLoc(SourceLocation L) {
    PresumedLoc P = SM.getPresumedLoc(SM.getSpellingLoc(L));
    if (P.isInvalid())
      return "";
    return relPath(P.getFilename()) + ":" + std::to_string(P.getLine());
  }
  // name of the outermost macro whose expansion produced L, and where that
  // macro is defined
  bool outerMacro(SourceLocation L, std::string &Name, std::string &DefLoc) {
    if (!L.isMacroID())
      return false;
    SourceLocation Cur = L;
    SourceLocation Last = L;
    while (Cur.isMacroID()) {
      Last = Cur;
      if (SM.isMacroArgExpansion(Cur))
        Cur = SM.getImmediateExpansionRange(Cur).getBegin();
      else
        Cur = SM.getImmediateExpansionRange(Cur).getBegin();
    }
    Name = Lexer::getImmediateMacroName(Last, SM, Ctx.getLangOpts()).str();
    // definition location of the text: spelling loc of the original L
    DefLoc = spellLoc(L);
    return true;
  }
  std::string immediateMacro(SourceLocation L) {
    if (!L.isMacroID())
      return "";
    return Lexer::getImmediateMacroName(L, SM, Ctx.getLangOpts()).str();
  }
  // all macro names on the expansion stack of L, innermost first
  void macroStack(SourceLocation L, std::vector<std::string> &Out) {
    while (L.isMacroID()) {
      if (SM.isMacroArgExpansion(L)) {
        L = SM.getImmediateExpansionRange(L).getBegin();
        continue;
      }
      Out.push_back(
          Lexer::getImmediateMacroName(L, SM, Ctx.getLangOpts()).str());
      L = SM.getImmediateExpansionRange(L).getBegin();
    }
  }

  std::string typeStr(QualType T) { return T.getAsString(PP); }

  // name of the (outermost) macro parameter a token was passed through
  std::string macroParam(SourceLocation L) {
    std::string Res;
    int Guard = 0;
    while (L.isMacroID() && Guard++ < 12) {
      if (SM.isMacroArgExpansion(L)) {
        // the expansion point of an argument token is the parameter's use
        // in the macro body; its spelling is the parameter name
        SourceLocation Use = SM.getImmediateExpansionRange(L).getBegin();
        SourceLocation Sp = SM.getSpellingLoc(Use);
        SmallString<32> Buf;
        Res = Lexer::getSpelling(Sp, Buf, SM, Ctx.getLangOpts()).str();
        // the argument text may itself come from an outer macro's parameter
        L = SM.getImmediateSpellingLoc(L);
      } else {
        break;
      }
    }
    return Res;
  }

  void intTypeAttrs(QualType T) {
    QualType C = T.getCanonicalType();
    if (C->isIntegerType() && !C->isIncompleteType()) {
      J.attribute("w", (int64_t)Ctx.getTypeSize(C));
      J.attribute("s", C->isSignedIntegerOrEnumerationType());
    }
  }

  // ---- expression trees -------------------------------------------------

  bool isExt(const Stmt *S) {
    auto It = ElemBlock.find(S);
    return It != ElemBlock.end() && It->second != CurBlock;
  }

  bool emitConst(const Expr *E) {
    if (!E->getType()->isIntegralOrEnumerationType() || E->isLValue())
      return false;
    Expr::EvalResult R;
    if (E->EvaluateAsInt(R, Ctx, Expr::SE_NoSideEffects)) {
      llvm::APSInt V = R.Val.getInt();
      if (V.isSigned())
        J.attribute("cv", V.getSExtValue());
      else if (V.getActiveBits() <= 63)
        J.attribute("cv", (int64_t)V.getZExtValue());
      else
        J.attribute("cvs", llvm::toString(V, 10));
      return true;
    }
    return false;
  }

  void tree(const Stmt *S) {
    if (!S) {
      J.value(nullptr);
      return;
    }
    if (isExt(S)) {
      J.object([&] {
        J.attribute("k", "ext");
        J.attribute("i", (int64_t)idOf(S));
        J.attribute("b", (int64_t)ElemBlock[S]);
        if (auto *E = dyn_cast<Expr>(S))
          J.attribute("t", typeStr(E->getType()));
      });
      return;
    }
    treeInline(S);
  }

  void treeInline(const Stmt *S) {
    if (auto *PE = dyn_cast<ParenExpr>(S)) {
      tree(PE->getSubExpr());
      return;
    }
    if (auto *CE = dyn_cast<ConstantExpr>(S)) {
      tree(CE->getSubExpr());
      return;
    }
    if (auto *FE = dyn_cast<FullExpr>(S)) {
      tree(FE->getSubExpr());
      return;
    }
    J.object([&] {
      J.attribute("i", (int64_t)idOf(S));
      SourceLocation BL = S->getBeginLoc();
      J.attribute("l", (int64_t)lineOf(BL));
      if (auto *E = dyn_cast<Expr>(S))
        exprBody(E);
      else
        stmtBody(S);
    });
  }

  void declRefAttrs(const ValueDecl *D) {
    if (auto *VD0 = dyn_cast<VarDecl>(D))
      J.attribute("n", localName(VD0));
    else
      J.attribute("n", D->getNameAsString());
    if (auto *PV = dyn_cast<ParmVarDecl>(D)) {
      J.attribute("d", "param");
      J.attribute("pi", (int64_t)PV->getFunctionScopeIndex());
    } else if (auto *VD = dyn_cast<VarDecl>(D)) {
      J.attribute("d", VD->hasLocalStorage() ? "local"
                       : VD->isStaticLocal() ? "slocal"
                                             : "global");
    } else if (isa<FunctionDecl>(D)) {
      J.attribute("d", "fn");
    } else if (auto *EC = dyn_cast<EnumConstantDecl>(D)) {
      J.attribute("d", "enum");
      J.attribute("v", EC->getInitVal().getExtValue());
    } else {
      J.attribute("d", "other");
    }
  }

  void exprBody(const Expr *E) {
    if (auto *IL = dyn_cast<IntegerLiteral>(E)) {
      J.attribute("k", "int");
      llvm::APInt V = IL->getValue();
      if (V.getActiveBits() <= 63)
        J.attribute("v", (int64_t)V.getZExtValue());
      else
        J.attribute("vs", llvm::toString(V, 10, false));
      intTypeAttrs(E->getType());
      return;
    }
    if (auto *CL = dyn_cast<CharacterLiteral>(E)) {
      J.attribute("k", "int");
      J.attribute("v", (int64_t)CL->getValue());
      return;
    }
    if (isa<FloatingLiteral>(E)) {
      J.attribute("k", "float");
      return;
    }
    if (auto *SL = dyn_cast<StringLiteral>(E)) {
      J.attribute("k", "str");
      if (SL->isAscii() || SL->isUTF8())
        J.attribute("v", SL->getString());
      return;
    }
    if (auto *DR = dyn_cast<DeclRefExpr>(E)) {
      J.attribute("k", "ref");
      declRefAttrs(DR->getDecl());
      {
        std::string MP = macroParam(DR->getLocation());
        if (!MP.empty())
          J.attribute("mp", MP);
      }
      J.attribute("t", typeStr(E->getType()));
      intTypeAttrs(E->getType());
      return;
    }
    if (auto *ME = dyn_cast<MemberExpr>(E)) {
      J.attribute("k", "mem");
      J.attribute("f", ME->getMemberDecl()->getNameAsString());
      {
        std::string MP = macroParam(ME->getMemberLoc());
        if (!MP.empty())
          J.attribute("mp", MP);
      }
      J.attribute("arrow", ME->isArrow());
      if (auto *FD = dyn_cast<FieldDecl>(ME->getMemberDecl()))
        J.attribute("rec", FD->getParent()->getNameAsString());
      J.attribute("t", typeStr(E->getType()));
      intTypeAttrs(E->getType());
      J.attributeBegin("b");
      tree(ME->getBase());
      J.attributeEnd();
      return;
    }
    if (auto *CE = dyn_cast<CallExpr>(E)) {
      J.attribute("k", "call");
      const FunctionDecl *FD = CE->getDirectCallee();
      if (FD) {
        J.attribute("fn", FD->getNameAsString());
        if (FD->isNoReturn() ||
            FD->hasAttr<NoReturnAttr>() /* __assert_fail etc. */)
          J.attribute("noret", true);
      } else {
        J.attributeBegin("callee");
        tree(CE->getCallee());
        J.attributeEnd();
      }
      J.attribute("t", typeStr(E->getType()));
      std::vector<std::string> MS;
      macroStack(CE->getBeginLoc(), MS);
      if (!MS.empty()) {
        J.attributeBegin("ms");
        J.array([&] {
          for (auto &M : MS)
            J.value(M);
        });
        J.attributeEnd();
      }
      J.attributeBegin("args");
      J.array([&] {
        for (const Expr *A : CE->arguments())
          tree(A);
      });
      J.attributeEnd();
      return;
    }
    if (auto *UO = dyn_cast<UnaryOperator>(E)) {
      J.attribute("k", "un");
      std::string Op = UnaryOperator::getOpcodeStr(UO->getOpcode()).str();
      if (UO->isPostfix())
        Op = "post" + Op;
      else if (UO->isIncrementDecrementOp())
        Op = "pre" + Op;
      J.attribute("op", Op);
      J.attribute("t", typeStr(E->getType()));
      intTypeAttrs(E->getType());
      if (emitConst(E))
        return;
      J.attributeBegin("e");
      tree(UO->getSubExpr());
      J.attributeEnd();
      return;
    }
    if (auto *BO = dyn_cast<BinaryOperator>(E)) {
      J.attribute("k", "bin");
      J.attribute("op", BO->getOpcodeStr());
      J.attribute("t", typeStr(E->getType()));
      intTypeAttrs(E->getType());
      if (auto *CAO = dyn_cast<CompoundAssignOperator>(BO)) {
        QualType CT = CAO->getComputationResultType();
        QualType C = CT.getCanonicalType();
        if (C->isIntegerType()) {
          J.attribute("cw", (int64_t)Ctx.getTypeSize(C));
          J.attribute("cs", C->isSignedIntegerOrEnumerationType());
        }
      }
      if (!BO->isAssignmentOp() && emitConst(E))
        return;
      J.attributeBegin("lhs");
      tree(BO->getLHS());
      J.attributeEnd();
      J.attributeBegin("rhs");
      tree(BO->getRHS());
      J.attributeEnd();
      return;
    }
    if (auto *CO = dyn_cast<AbstractConditionalOperator>(E)) {
      J.attribute("k", "cond");
      J.attribute("t", typeStr(E->getType()));
      emitConst(E);
      J.attributeBegin("c");
      tree(CO->getCond());
      J.attributeEnd();
      J.attributeBegin("a");
      tree(CO->getTrueExpr());
      J.attributeEnd();
      J.attributeBegin("bb");
      tree(CO->getFalseExpr());
      J.attributeEnd();
      return;
    }
    if (auto *CE = dyn_cast<CastExpr>(E)) {
      J.attribute("k", "cast");
      J.attribute("ck", CE->getCastKindName());
      J.attribute("imp", isa<ImplicitCastExpr>(CE));
      J.attribute("t", typeStr(E->getType()));
      intTypeAttrs(E->getType());
      if (CE->getCastKind() != CK_LValueToRValue)
        emitConst(E);
      J.attributeBegin("e");
      tree(CE->getSubExpr());
      J.attributeEnd();
      return;
    }
    if (auto *AS = dyn_cast<ArraySubscriptExpr>(E)) {
      J.attribute("k", "idx");
      J.attribute("t", typeStr(E->getType()));
      intTypeAttrs(E->getType());
      J.attributeBegin("b");
      tree(AS->getBase());
      J.attributeEnd();
      J.attributeBegin("x");
      tree(AS->getIdx());
      J.attributeEnd();
      return;
    }
    if (auto *UE = dyn_cast<UnaryExprOrTypeTraitExpr>(E)) {
      J.attribute("k", "sizeof");
      emitConst(E);
      if (UE->isArgumentType())
        J.attribute("ty", typeStr(UE->getArgumentType()));
      return;
    }
    if (auto *OE = dyn_cast<OffsetOfExpr>(E)) {
      J.attribute("k", "offsetof");
      emitConst(E);
      J.attribute("ty", typeStr(OE->getTypeSourceInfo()->getType()));
      return;
    }
    if (auto *VA = dyn_cast<VAArgExpr>(E)) {
      J.attribute("k", "va_arg");
      J.attribute("t", typeStr(E->getType()));
      intTypeAttrs(E->getType());
      J.attributeBegin("e");
      tree(VA->getSubExpr());
      J.attributeEnd();
      return;
    }
    if (auto *IL = dyn_cast<InitListExpr>(E)) {
      J.attribute("k", "initlist");
      J.attribute("t", typeStr(E->getType()));
      const InitListExpr *Sem = IL->isSemanticForm() ? IL : IL->getSemanticForm();
      if (!Sem)
        Sem = IL;
      const RecordDecl *RD = nullptr;
      if (auto *RT = E->getType()->getAs<RecordType>())
        RD = RT->getDecl();
      std::vector<const FieldDecl *> Fields;
      if (RD)
        for (auto *F : RD->fields())
          if (!F->isUnnamedBitfield())
            Fields.push_back(F);
      J.attributeBegin("elts");
      J.array([&] {
        unsigned N = 0;
        for (const Expr *Sub : Sem->inits()) {
          J.object([&] {
            if (RD && !RD->isUnion() && N < Fields.size())
              J.attribute("f", Fields[N]->getNameAsString());
            else if (RD && RD->isUnion() && Sem->getInitializedFieldInUnion())
              J.attribute("f", Sem->getInitializedFieldInUnion()->getNameAsString());
            J.attributeBegin("e");
            tree(Sub);
            J.attributeEnd();
          });
          N++;
        }
      });
      J.attributeEnd();
      return;
    }
    if (isa<ImplicitValueInitExpr>(E)) {
      J.attribute("k", "zero");
      J.attribute("t", typeStr(E->getType()));
      return;
    }
    if (auto *SE = dyn_cast<StmtExpr>(E)) {
      std::string M = immediateMacro(SE->getBeginLoc());
      // container_of(ptr, type, member): recognised by its macro name, the
      // shape ({ const T *_mptr = (ptr); (type *)((char *)_mptr - off); })
      if (M == "container_of") {
        const CompoundStmt *CS = SE->getSubStmt();
        const Expr *Ptr = nullptr;
        int64_t Off = -1;
        if (CS->size() == 2) {
          if (auto *DS = dyn_cast<DeclStmt>(*CS->body_begin()))
            if (DS->isSingleDecl())
              if (auto *VD = dyn_cast<VarDecl>(DS->getSingleDecl()))
                Ptr = VD->getInit();
          struct Finder : RecursiveASTVisitor<Finder> {
            const OffsetOfExpr *OE = nullptr;
            bool VisitOffsetOfExpr(OffsetOfExpr *O) {
              OE = O;
              return true;
            }
          } F;
          F.TraverseStmt(const_cast<Stmt *>(*(CS->body_begin() + 1)));
          if (F.OE) {
            Expr::EvalResult R;
            if (F.OE->EvaluateAsInt(R, Ctx))
              Off = R.Val.getInt().getExtValue();
            J.attribute("rec", typeStr(F.OE->getTypeSourceInfo()->getType()));
            if (F.OE->getNumComponents() >= 1) {
              std::string Mem;
              for (unsigned I = 0; I < F.OE->getNumComponents(); I++) {
                const OffsetOfNode &N = F.OE->getComponent(I);
                if (N.getKind() == OffsetOfNode::Field) {
                  if (!Mem.empty())
                    Mem += ".";
                  Mem += N.getField()->getNameAsString();
                }
              }
              J.attribute("member", Mem);
            }
          }
        }
        if (Ptr) {
          J.attribute("k", "container_of");
          J.attribute("off", Off);
          J.attribute("t", typeStr(E->getType()));
          J.attributeBegin("e");
          tree(Ptr);
          J.attributeEnd();
          return;
        }
      }
      J.attribute("k", "stmtexpr");
      J.attribute("t", typeStr(E->getType()));
      J.attributeBegin("body");
      J.array([&] {
        for (const Stmt *Sub : SE->getSubStmt()->body())
          tree(Sub);
      });
      J.attributeEnd();
      return;
    }
    if (auto *CL = dyn_cast<CompoundLiteralExpr>(E)) {
      J.attribute("k", "complit");
      J.attribute("t", typeStr(E->getType()));
      J.attributeBegin("e");
      tree(CL->getInitializer());
      J.attributeEnd();
      return;
    }
    if (auto *OV = dyn_cast<OpaqueValueExpr>(E)) {
      J.attribute("k", "opaque");
      J.attributeBegin("e");
      tree(OV->getSourceExpr());
      J.attributeEnd();
      return;
    }
    if (isa<GNUNullExpr>(E)) {
      J.attribute("k", "int");
      J.attribute("v", 0);
      return;
    }
    if (auto *PE = dyn_cast<PredefinedExpr>(E)) {
      (void)PE;
      J.attribute("k", "str");
      return;
    }
    if (auto *AE = dyn_cast<AtomicExpr>(E)) {
      J.attribute("k", "atomic");
      {
        SourceLocation BL = SM.getSpellingLoc(AE->getBuiltinLoc());
        SmallString<32> Buf;
        J.attribute("op", Lexer::getSpelling(BL, Buf, SM, Ctx.getLangOpts()));
      }
      J.attribute("t", typeStr(E->getType()));
      J.attributeBegin("args");
      J.array([&] {
        for (const Expr *A :
             llvm::makeArrayRef(AE->getSubExprs(), AE->getNumSubExprs()))
          tree(A);
      });
      J.attributeEnd();
      return;
    }
    if (auto *CH = dyn_cast<ChooseExpr>(E)) {
      // __builtin_choose_expr: transparent
      J.attribute("k", "choose");
      J.attributeBegin("e");
      tree(CH->getChosenSubExpr());
      J.attributeEnd();
      return;
    }
    J.attribute("k", "unk");
    J.attribute("cls", E->getStmtClassName());
    J.attribute("t", typeStr(E->getType()));
    J.attributeBegin("kids");
    J.array([&] {
      for (const Stmt *C : E->children())
        tree(C);
    });
    J.attributeEnd();
  }

  void stmtBody(const Stmt *S) {
    if (auto *DS = dyn_cast<DeclStmt>(S)) {
      J.attribute("k", "decl");
      J.attributeBegin("vars");
      J.array([&] {
        for (const Decl *D : DS->decls()) {
          if (auto *VD = dyn_cast<VarDecl>(D)) {
            J.object([&] {
              J.attribute("n", localName(VD));
              J.attribute("t", typeStr(VD->getType()));
              intTypeAttrs(VD->getType());
              if (VD->isStaticLocal())
                J.attribute("static", true);
              if (VD->hasInit()) {
                J.attributeBegin("init");
                tree(VD->getInit());
                J.attributeEnd();
              }
            });
          }
        }
      });
      J.attributeEnd();
      return;
    }
    if (auto *RS = dyn_cast<ReturnStmt>(S)) {
      J.attribute("k", "return");
      if (RS->getRetValue()) {
        J.attributeBegin("e");
        tree(RS->getRetValue());
        J.attributeEnd();
      }
      return;
    }
    if (auto *CS = dyn_cast<CompoundStmt>(S)) {
      J.attribute("k", "compound");
      J.attributeBegin("body");
      J.array([&] {
        for (const Stmt *Sub : CS->body())
          tree(Sub);
      });
      J.attributeEnd();
      return;
    }
    if (isa<NullStmt>(S)) {
      J.attribute("k", "null");
      return;
    }
    if (auto *AS = dyn_cast<GCCAsmStmt>(S)) {
      (void)AS;
      J.attribute("k", "asm");
      return;
    }
    J.attribute("k", "stmt");
    J.attribute("cls", S->getStmtClassName());
  }

  // ---- functions --------------------------------------------------------

  void markCovered(const Stmt *S, const std::set<const Stmt *> &InBlock,
                   std::set<const Stmt *> &Covered) {
    for (const Stmt *C : S->children()) {
      if (!C)
        continue;
      auto It = ElemBlock.find(C);
      if (It != ElemBlock.end() && It->second != CurBlock)
        continue; // evaluated elsewhere
      if (InBlock.count(C))
        Covered.insert(C);
      markCovered(C, InBlock, Covered);
    }
  }

  const Expr *resolveCond(const Expr *C) {
    // condition value is that of the last evaluated operand for logical ops
    while (C) {
      C = C->IgnoreParens();
      if (auto *BO = dyn_cast<BinaryOperator>(C)) {
        if (BO->isLogicalOp()) {
          C = BO->getRHS();
          continue;
        }
      }
      break;
    }
    return C;
  }

  void emitFunction(const FunctionDecl *FD) {
    CurFn = FD;
    ElemBlock.clear();
    Ids.clear();
    NextId = 0;
    LocalNames.clear();
    LocalCount.clear();
    for (const ParmVarDecl *P : FD->parameters())
      localName(P);
    // declaration order = source order: walk the body once
    {
      struct DV : RecursiveASTVisitor<DV> {
        Emitter &E;
        DV(Emitter &E) : E(E) {}
        bool VisitVarDecl(VarDecl *VD) {
          E.localName(VD);
          return true;
        }
      } V(*this);
      V.TraverseStmt(FD->getBody());
    }

    CFG::BuildOptions BO;
    BO.setAllAlwaysAdd();
    BO.PruneTriviallyFalseEdges = true;
    BO.AddEHEdges = false;
    BO.AddInitializers = false;
    BO.AddImplicitDtors = false;
    std::unique_ptr<CFG> G =
        CFG::buildCFG(FD, FD->getBody(), &Ctx, BO);

    J.object([&] {
      J.attribute("name", FD->getNameAsString());
      J.attribute("file", fileOf(FD->getLocation()));
      J.attribute("line", (int64_t)lineOf(FD->getLocation()));
      J.attribute("endline", (int64_t)lineOf(FD->getBody()->getEndLoc()));
      J.attribute("inmain",
                  SM.isInMainFile(SM.getExpansionLoc(FD->getLocation())));
      std::string MN, ML;
      if (outerMacro(FD->getLocation(), MN, ML)) {
        J.attribute("macro", MN);
        J.attribute("macrodef", spellLoc(FD->getBody()->getBeginLoc()));
      }
      J.attribute("ret", typeStr(FD->getReturnType()));
      J.attribute("static", FD->getStorageClass() == SC_Static);
      J.attribute("inline", FD->isInlineSpecified());
      J.attribute("variadic", FD->isVariadic());
      J.attributeBegin("params");
      J.array([&] {
        for (const ParmVarDecl *P : FD->parameters())
          J.object([&] {
            J.attribute("n", P->getNameAsString());
            J.attribute("t", typeStr(P->getType()));
            intTypeAttrs(P->getType());
          });
      });
      J.attributeEnd();
      if (!G) {
        J.attribute("nocfg", true);
        return;
      }
      // pass 1: stmt -> block
      for (const CFGBlock *B : *G)
        for (const CFGElement &El : *B)
          if (auto CS = El.getAs<CFGStmt>())
            ElemBlock[CS->getStmt()] = B->getBlockID();
      J.attribute("entry", (int64_t)G->getEntry().getBlockID());
      J.attribute("exit", (int64_t)G->getExit().getBlockID());
      J.attributeBegin("blocks");
      J.array([&] {
        for (const CFGBlock *B : *G)
          emitBlock(B);
      });
      J.attributeEnd();
    });
  }

  void emitBlock(const CFGBlock *B) {
    CurBlock = B->getBlockID();
    std::vector<const Stmt *> Elems;
    std::set<const Stmt *> InBlock;
    for (const CFGElement &El : *B)
      if (auto CS = El.getAs<CFGStmt>()) {
        Elems.push_back(CS->getStmt());
        InBlock.insert(CS->getStmt());
      }
    std::set<const Stmt *> Covered;
    std::vector<const Stmt *> Top;
    for (auto It = Elems.rbegin(); It != Elems.rend(); ++It) {
      const Stmt *S = *It;
      if (Covered.count(S))
        continue;
      Top.push_back(S);
      markCovered(S, InBlock, Covered);
    }
    std::reverse(Top.begin(), Top.end());

    J.object([&] {
      J.attribute("id", (int64_t)B->getBlockID());
      if (B->hasNoReturnElement())
        J.attribute("noret", true);
      if (const Stmt *L = B->getLabel()) {
        J.attributeBegin("label");
        J.object([&] {
          if (auto *CS = dyn_cast<CaseStmt>(L)) {
            J.attribute("k", "case");
            Expr::EvalResult R;
            if (CS->getLHS()->EvaluateAsInt(R, Ctx))
              J.attribute("v", R.Val.getInt().getExtValue());
            const Expr *LE = CS->getLHS()->IgnoreParenCasts();
            if (auto *CE = dyn_cast<ConstantExpr>(LE))
              LE = CE->getSubExpr()->IgnoreParenCasts();
            if (auto *DR = dyn_cast<DeclRefExpr>(LE))
              J.attribute("n", DR->getDecl()->getNameAsString());
            if (CS->getRHS()) {
              Expr::EvalResult R2;
              if (CS->getRHS()->EvaluateAsInt(R2, Ctx))
                J.attribute("hi", R2.Val.getInt().getExtValue());
            }
          } else if (isa<DefaultStmt>(L)) {
            J.attribute("k", "default");
          } else if (auto *LS = dyn_cast<LabelStmt>(L)) {
            J.attribute("k", "label");
            J.attribute("n", LS->getName());
          }
        });
        J.attributeEnd();
      }
      J.attributeBegin("stmts");
      J.array([&] {
        for (const Stmt *S : Top)
          treeInline(S);
      });
      J.attributeEnd();
      if (const Stmt *T = B->getTerminatorStmt()) {
        J.attributeBegin("term");
        J.object([&] {
          J.attribute("cls", T->getStmtClassName());
          J.attribute("l", (int64_t)lineOf(T->getBeginLoc()));
          if (auto *BOp = dyn_cast<BinaryOperator>(T))
            J.attribute("op", BOp->getOpcodeStr());
          const Expr *C = nullptr;
          if (const Stmt *CS = B->getTerminatorCondition(false))
            C = dyn_cast<Expr>(CS);
          if (C) {
            const Expr *RC = resolveCond(C);
            J.attributeBegin("cond");
            // the condition was evaluated in this block: inline unless it is
            // an element of this block already emitted (then reference it)
            if (RC) {
              const Expr *RCs = RC->IgnoreParens();
              J.object([&] {
                J.attribute("k", "ext");
                J.attribute("i", (int64_t)idOf(RCs));
                auto It = ElemBlock.find(RCs);
                if (It != ElemBlock.end())
                  J.attribute("b", (int64_t)It->second);
              });
            } else
              J.value(nullptr);
            J.attributeEnd();
          }
        });
        J.attributeEnd();
      }
      J.attributeBegin("succ");
      J.array([&] {
        for (auto I = B->succ_begin(); I != B->succ_end(); ++I) {
          const CFGBlock *SB = I->getReachableBlock();
          if (SB)
            J.value((int64_t)SB->getBlockID());
          else
            J.value(nullptr);
        }
      });
      J.attributeEnd();
    });
  }

  // ---- records / enums / globals ----------------------------------------

  void emitRecord(const RecordDecl *RD) {
    J.object([&] {
      J.attribute("name", RD->getNameAsString());
      J.attribute("union", RD->isUnion());
      J.attribute("file", fileOf(RD->getLocation()));
      J.attribute("line", (int64_t)lineOf(RD->getLocation()));
      std::string MN, ML;
      if (outerMacro(RD->getLocation(), MN, ML))
        J.attribute("macro", MN);
      J.attributeBegin("fields");
      J.array([&] {
        for (const FieldDecl *F : RD->fields())
          J.object([&] {
            J.attribute("n", F->getNameAsString());
            J.attribute("t", typeStr(F->getType()));
            intTypeAttrs(F->getType());
            if (F->isBitField())
              J.attribute("bits", (int64_t)F->getBitWidthValue(Ctx));
          });
      });
      J.attributeEnd();
    });
  }

  void emitEnum(const EnumDecl *ED) {
    J.object([&] {
      J.attribute("name", ED->getNameAsString());
      J.attribute("file", fileOf(ED->getLocation()));
      J.attribute("line", (int64_t)lineOf(ED->getLocation()));
      J.attributeBegin("items");
      J.array([&] {
        for (const EnumConstantDecl *EC : ED->enumerators())
          J.object([&] {
            J.attribute("n", EC->getNameAsString());
            J.attribute("v", EC->getInitVal().getExtValue());
          });
      });
      J.attributeEnd();
    });
  }

  void emitGlobal(const VarDecl *VD) {
    ElemBlock.clear();
    Ids.clear();
    NextId = 0;
    CurBlock = 0;
    J.object([&] {
      J.attribute("name", VD->getNameAsString());
      J.attribute("t", typeStr(VD->getType()));
      J.attribute("file", fileOf(VD->getLocation()));
      J.attribute("line", (int64_t)lineOf(VD->getLocation()));
      J.attribute("static", VD->getStorageClass() == SC_Static);
      if (VD->hasInit()) {
        J.attributeBegin("init");
        tree(VD->getInit());
        J.attributeEnd();
      }
    });
  }
};

class Consumer : public ASTConsumer {
public:
  void HandleTranslationUnit(ASTContext &Ctx) override {
    if (Ctx.getDiagnostics().hasErrorOccurred()) {
      HadError = true;
      return;
    }
    std::error_code EC;
    llvm::raw_fd_ostream OS(OutPath, EC);
    if (EC) {
      llvm::errs() << "cannot write " << OutPath << "\n";
      HadError = true;
      return;
    }
    OStream J(OS);
    Emitter Em(Ctx, J);
    SourceManager &SM = Ctx.getSourceManager();
    std::vector<const FunctionDecl *> Fns;
    std::vector<const RecordDecl *> Recs;
    std::vector<const EnumDecl *> Enums;
    std::vector<const VarDecl *> Globals;

    struct V : RecursiveASTVisitor<V> {
      std::vector<const FunctionDecl *> &Fns;
      std::vector<const RecordDecl *> &Recs;
      std::vector<const EnumDecl *> &Enums;
      std::vector<const VarDecl *> &Globals;
      SourceManager &SM;
      V(std::vector<const FunctionDecl *> &F, std::vector<const RecordDecl *> &R,
        std::vector<const EnumDecl *> &E, std::vector<const VarDecl *> &G,
        SourceManager &SM)
          : Fns(F), Recs(R), Enums(E), Globals(G), SM(SM) {}
      bool interesting(SourceLocation L) {
        if (OptAll) {
          // skip system headers
          return !SM.isInSystemHeader(SM.getExpansionLoc(L));
        }
        return SM.isInMainFile(SM.getExpansionLoc(L));
      }
      bool VisitFunctionDecl(FunctionDecl *FD) {
        if (FD->doesThisDeclarationHaveABody() && interesting(FD->getLocation()))
          Fns.push_back(FD);
        return true;
      }
      bool VisitRecordDecl(RecordDecl *RD) {
        if (RD->isCompleteDefinition() &&
            !SM.isInSystemHeader(SM.getExpansionLoc(RD->getLocation())))
          Recs.push_back(RD);
        return true;
      }
      bool VisitEnumDecl(EnumDecl *ED) {
        if (ED->isCompleteDefinition() &&
            !SM.isInSystemHeader(SM.getExpansionLoc(ED->getLocation())))
          Enums.push_back(ED);
        return true;
      }
      bool VisitVarDecl(VarDecl *VD) {
        if (VD->isFileVarDecl() && VD->isThisDeclarationADefinition() &&
            interesting(VD->getLocation()))
          Globals.push_back(VD);
        return true;
      }
    } Vis(Fns, Recs, Enums, Globals, SM);
    Vis.TraverseDecl(Ctx.getTranslationUnitDecl());

    J.object([&] {
      FileID MF = SM.getMainFileID();
      if (const FileEntry *FE = SM.getFileEntryForID(MF))
        J.attribute("unit", Em.relPath(FE->getName()));
      J.attributeBegin("records");
      J.array([&] {
        for (auto *R : Recs)
          Em.emitRecord(R);
      });
      J.attributeEnd();
      J.attributeBegin("enums");
      J.array([&] {
        for (auto *E : Enums)
          Em.emitEnum(E);
      });
      J.attributeEnd();
      J.attributeBegin("globals");
      J.array([&] {
        for (auto *G : Globals)
          Em.emitGlobal(G);
      });
      J.attributeEnd();
      J.attributeBegin("functions");
      J.array([&] {
        for (auto *F : Fns)
          Em.emitFunction(F);
      });
      J.attributeEnd();
    });
    OS << "\n";
  }
};

class Action : public ASTFrontendAction {
public:
  std::unique_ptr<ASTConsumer> CreateASTConsumer(CompilerInstance &,
                                                 StringRef) override {
    return std::make_unique<Consumer>();
  }
};

} // namespace

int main(int argc, const char **argv) {
  std::vector<std::string> Args;
  int I = 1;
  if (I < argc && std::string(argv[I]) == "--all") {
    OptAll = true;
    I++;
  }
  if (argc - I < 3) {
    llvm::errs() << "usage: uxtract [--all] out.json file.c -- flags\n";
    return 2;
  }
  OutPath = argv[I++];
  std::string Src = argv[I++];
  if (std::string(argv[I]) != "--") {
    llvm::errs() << "expected --\n";
    return 2;
  }
  I++;
  std::vector<std::string> Flags;
  for (; I < argc; I++)
    Flags.push_back(argv[I]);
  clang::tooling::FixedCompilationDatabase DB(".", Flags);
  clang::tooling::ClangTool Tool(DB, {Src});
  int R = Tool.run(clang::tooling::newFrontendActionFactory<Action>().get());
  if (R != 0 || HadError)
    return 3;
  return 0;
}
