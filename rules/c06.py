"""C06 - buffers cross threads exactly once; thread confinement.

Confinement half only (DESIGN §4 C06): R-xfer, R-queue, R-frozen, R-atomic,
plus the FIFO / ownership rules of the queue sink shared with C05."""
import re

from upv import facts, control, ownrule
from upv import pathrules as pr
from upv.facts import strip, strip_all_casts, strip_expect, walk, is_assign, const_of, enum_name, path_of
from upv.throws import LOG_RE, THROW_RE
from upv.report import Report, HOLDS, VIOLATED, UNDECIDED, OOS
from rules import c05, c09

PROP = 'C06'
UNITS = ['lib/upipe-modules/upipe_queue_sink.c', 'lib/upipe-modules/upipe_queue_source.c', 'lib/upipe-modules/upipe_queue.c',
         'lib/upipe-modules/upipe_transfer.c', 'lib/upipe-modules/upipe_worker.c', 'lib/upipe/uprobe_transfer.c',
         'lib/upipe-pthread/upipe_pthread_transfer.c', 'lib/upipe-pthread/uprobe_pthread_upump_mgr.c']

# thread contexts of upipe_transfer.c, frozen from the source's own comments
# ("Caution: this runs in the remote thread!", "We may only access the manager")
XFER_REMOTE = {'upipe_xfer_probe', 'upipe_xfer_probe_free', 'upipe_xfer_mgr_worker'}
# functions that may *enter* the remote pipe (call it directly)
XFER_MAY_ENTER_REMOTE = {
    'upipe_xfer_mgr_worker': 'the message executor: runs in the remote thread',
    '_upipe_xfer_alloc': 'before the pipe is handed to the remote thread (pushes the probe, releases the application reference)',
}
ENTERING = re.compile(r'^(upipe_control\w*|upipe_set_\w+|upipe_get_\w+|upipe_attach_\w+|upipe_release|upipe_use|upipe_input|upipe_flush|'
                      r'upipe_register_request|upipe_unregister_request|upipe_push_probe|upipe_pop_probe|upipe_bin_\w+|upipe_src_\w+|upipe_sink_\w+)$')


def mentions_field(n, field):
    return any(y.get('k') == 'mem' and y.get('f') == field for y in walk(n)) if isinstance(n, dict) else False


def run(tier='quick', repo=None):
    repo = repo or facts.REPO
    rep = Report(PROP, tier)
    rep.explanation = (
        'Decides the confinement half of C06 from a context table frozen from the source\'s own comments: R-xfer (only the message executor - and the '
        'allocation function before the hand-over - calls into the remote pipe; functions that run in the remote thread throw no event and log nothing on the '
        'transfer pipe and touch only its queue / remote-side fields; hand-over between the threads goes through uqueue_push / uqueue_pop), R-frozen (the '
        'worker pipe obtains and controls a remote inner pipe only between freeze and thaw), R-queue (the sink queues the flow definition before the first '
        'buffer, holds instead of dropping when a watcher can be created, never lets a new buffer overtake held ones; the source drains the data queue before '
        'SOURCE_END and before dying), R-atomic (atomic-typed objects only through uatomic_*). Exactly-once / in-order delivery under all schedules, absence of '
        'every data race and progress are NOT decided: they quantify over interleavings.')
    prog = facts.load_program(UNITS, repo=repo)
    rep.units = sorted(prog.units)
    rep.nfuncs = sum(len(u.funcs) for u in prog.units.values())
    rep.tables['xfer_contexts'] = {'remote': sorted(XFER_REMOTE), 'may_enter_remote_pipe': XFER_MAY_ENTER_REMOTE}
    rep.rule('R-xfer', 'see instance names')
    rep.rule('R-frozen', 'upipe_worker.c: a pipe obtained through upipe_xfer_get_remote is controlled only before upipe_bin_thaw on the same path, and upipe_xfer_get_remote is called only under the frozen test')
    rep.rule('R-queue', 'see instance names')
    # ---- R-xfer --------------------------------------------------------------------
    u = prog.units['lib/upipe-modules/upipe_transfer.c']
    for n in XFER_REMOTE | set(XFER_MAY_ENTER_REMOTE) | {'upipe_xfer_mgr_send', 'upipe_xfer_control'}:
        if n not in u.funcs:
            raise facts.AnalysisBroken('anchor vanished: %s' % n)
    nenter = 0
    for fn in sorted(u.funcs.values(), key=lambda f: f.name):
        if not fn.inmain or not fn.blocks:
            continue
        ldefs = fn.local_defs()
        for bid, s, x in fn.calls():
            name = x.get('fn')
            if not name or not ENTERING.match(name) or not x.get('args'):
                continue
            a0 = strip_all_casts(x['args'][0])
            via = mentions_field(a0, 'upipe_remote')
            if not via and isinstance(a0, dict) and a0.get('k') == 'ref':
                d = ldefs.get(a0['n'])
                via = mentions_field(d, 'upipe_remote') if isinstance(d, dict) else (a0['n'] == 'upipe_remote')
            if not via:
                continue
            nenter += 1
            ok = fn.name in XFER_MAY_ENTER_REMOTE
            rep.add('R-xfer', '%s:%s(remote)' % (fn.name, name), HOLDS if ok else VIOLATED, '%s:%s' % (fn.file, x.get('l')),
                    **({'reason': XFER_MAY_ENTER_REMOTE[fn.name]} if ok else
                       {'what': '%s calls %s() directly on the transferred pipe: after the hand-over the remote pipe may only be entered from its own thread, through a message executed by upipe_xfer_mgr_worker' % (fn.name, name)}))
    if nenter < 4:
        raise facts.AnalysisBroken('only %d direct calls on the remote pipe found in upipe_transfer.c' % nenter)
    for rname in sorted(XFER_REMOTE):
        fn = u.funcs[rname]
        bad = []
        for bid, s, x in fn.calls():
            name = x.get('fn') or ''
            if (LOG_RE.match(name) or THROW_RE.match(name)) and x.get('args'):
                a0 = strip_all_casts(x['args'][0])
                # events on the *remote* pipe parameter are the remote pipe's own business
                if isinstance(a0, dict) and a0.get('k') == 'ref' and a0.get('n') in ('remote', 'upipe_remote'):
                    continue
                bad.append((name, x.get('l')))
        rep.add('R-xfer', '%s:no-event-from-remote-thread' % rname, VIOLATED if bad else HOLDS, fn.loc,
                **({'what': '%s runs in the remote thread and calls %s (line %s): events reach the application in the wrong thread' % (rname, bad[0][0], bad[0][1])} if bad else {}))
        # fields of the transfer pipe touched from the remote thread
        touched = sorted({y['f'] for bid, s, y in fn.nodes() if y.get('k') == 'mem' and y.get('rec') == 'upipe_xfer'})
        allowed = {'uqueue', 'urefcount_real', 'urefcount_probe', 'uprobe_remote', 'upipe', 'upipe_remote'}
        extra = [f for f in touched if f not in allowed]
        rep.add('R-xfer', '%s:fields-of-upipe_xfer' % rname, VIOLATED if extra else HOLDS, fn.loc, touched=touched,
                **({'what': 'touches upipe_xfer.%s from the remote thread ("we may only access the manager")' % extra} if extra else {}))
    # hand-over through the queue
    send, work = u.funcs['upipe_xfer_mgr_send'], u.funcs['upipe_xfer_mgr_worker']
    okq = any(x.get('fn') == 'uqueue_push' for b, s, x in send.calls()) and any((x.get('fn') or '').startswith('uqueue_pop') for b, s, x in work.calls())
    rep.add('R-xfer', 'hand-over-through-uqueue', HOLDS if okq else VIOLATED, send.loc,
            **({} if okq else {'what': 'commands must reach the remote thread through uqueue_push (send) / uqueue_pop (worker)'}))
    # every command of upipe_xfer_control that concerns the remote pipe is sent as a message
    # ---- R-frozen --------------------------------------------------------------------
    w = prog.units['lib/upipe-modules/upipe_worker.c']
    ngetters = 0
    for fn in sorted(w.funcs.values(), key=lambda f: f.name):
        if not fn.inmain or not fn.blocks:
            continue
        ev = pr.Events(fn)
        gets = ev.find(pr.m_call('upipe_xfer_get_remote'))
        if gets:
            ngetters += 1

            def frozen(ctree, pol, fn=fn):
                n, neg = strip_expect(fn.resolve(ctree))
                return isinstance(n, dict) and n.get('k') == 'mem' and n.get('f') == 'frozen' and pol != neg
            ok = all(pr.control_dependent(fn, ev, g, frozen) for g in gets)
            rep.add('R-frozen', '%s:get_remote-under-frozen' % fn.name, HOLDS if ok else VIOLATED, fn.loc,
                    **({} if ok else {'what': 'the remote pipe is obtained without the frozen test: the application thread could enter it while the worker thread runs'}))
        # locals filled by the inner getters
        inner_vars = set()
        for bid, s, x in fn.calls():
            if re.search(r'(get_first_inner|get_last_inner|xfer_get_remote)$', x.get('fn') or ''):
                for a in x['args'][1:]:
                    a = strip_all_casts(a)
                    if isinstance(a, dict) and a.get('k') == 'un' and a.get('op') == '&':
                        e = strip_all_casts(a['e'])
                        if isinstance(e, dict) and e.get('k') == 'ref':
                            inner_vars.add(e['n'])
        if not inner_vars:
            continue

        def enters_inner(n):
            if n.get('k') != 'call' or not n.get('fn') or not ENTERING.match(n['fn']) or not n.get('args'):
                return False
            a0 = strip_all_casts(n['args'][0])
            return isinstance(a0, dict) and a0.get('k') == 'ref' and a0['n'] in inner_vars
        calls = ev.find(enters_inner)
        if not calls:
            continue
        thaw = pr.m_call(r'upipe_bin_thaw|upipe_work_thaw|_upipe_work_thaw')
        bad = pr.never_after(ev, thaw, enters_inner)
        rep.add('R-frozen', '%s:inner-controlled-before-thaw' % fn.name, VIOLATED if bad else HOLDS, fn.loc,
                **({'what': 'the inner (remote) pipe is entered at line %s after upipe_bin_thaw at line %s: the worker thread runs again and both threads are inside the pipe' % (
                    bad[0][1][2].get('l'), bad[0][0][2].get('l'))} if bad else {}))
    # the flag that the rules above rely on says the truth: `frozen = true` is written only after the freeze succeeded
    # (no error return of the freeze call can be reached with the flag already set), `frozen = false` only with the thaw
    nflag = 0
    for fn in sorted(w.funcs.values(), key=lambda f: f.name):
        if not fn.inmain or not fn.blocks:
            continue
        ev = pr.Events(fn)
        sets = [p_ for p_ in ev.find(pr.m_store('frozen')) if is_assign(p_[2]) and const_of(strip_all_casts(fn.resolve(p_[2]['rhs']))) == 1]
        if not sets:
            continue
        nflag += 1
        frz = pr.m_call(r'upipe_xfer_mgr_freeze')
        why_ = []
        if not ev.find(frz):
            why_.append('frozen is set in a function that does not freeze the transfer manager')
        elif pr.must_precede(ev, frz, lambda n_: any(n_ is p_[2] for p_ in sets)):
            why_.append('frozen is set to true on a path that has not called upipe_xfer_mgr_freeze yet: if the freeze is then refused (a transfer manager without '
                        'mutex) the flag stays set and every later command enters the remote pipe from the application thread while its loop runs')
        rep.add('R-frozen', '%s:flag-after-freeze' % fn.name, VIOLATED if why_ else HOLDS, fn.loc, **({'what': '; '.join(why_)} if why_ else {}))
    if nflag < 1:
        raise facts.AnalysisBroken('no function of upipe_worker.c sets the frozen flag')
    if ngetters < 2:
        raise facts.AnalysisBroken('upipe_xfer_get_remote callers not found in upipe_worker.c')
    # ---- R-queue ----------------------------------------------------------------------
    qs = prog.units['lib/upipe-modules/upipe_queue_sink.c']
    fn = qs.funcs.get('upipe_qsink_input')
    if fn is None:
        raise facts.AnalysisBroken('anchor vanished: upipe_qsink_input')
    ev = pr.Events(fn)
    # flow definition first: the data path is reached only after the flow_def_sent block
    sent_store = pr.m_store('flow_def_sent')
    self_call = pr.m_call('upipe_qsink_input')
    ok = bool(ev.find(sent_store)) and bool(ev.find(self_call)) and not pr.must_precede(ev, sent_store, self_call)
    data = pr.m_call(r'upipe_qsink_output|upipe_qsink_hold_input')
    # the test of flow_def_sent dominates every data push
    dom = fn.dominators()
    tests = [b for b in fn.blocks if fn.cond(b) and mentions_field(fn.resolve(fn.cond(b)[0]), 'flow_def_sent')]
    ok = ok and bool(tests) and all(any(t in dom.get(p[0], ()) for t in tests) for p in ev.find(data))
    rep.add('R-queue', 'upipe_qsink_input:flow-def-before-data', HOLDS if ok else VIOLATED, fn.loc,
            **({} if ok else {'what': 'a buffer can be queued without the flow definition having been queued first (flow_def_sent)'}))
    # ... and whether the definition is queued depends on nothing but "not sent yet" and "there is one" (and the allocation of
    # its copy): in particular not on the queue being writable - a buffer parked while the queue is full is replayed by the
    # watcher without coming back through this function, so its definition must already be in front of it
    allowed = ('flow_def_sent', 'flow_def')
    okc, whyc = True, ''
    for sc in ev.find(self_call):
        for d_ in dom.get(sc[0], ()):
            c_ = fn.cond(d_)
            if not c_ or d_ == sc[0]:
                continue
            arm_dom = [a_ for a_ in (c_[1], c_[2]) if a_ is not None and a_ in dom.get(sc[0], ()) and a_ != d_]
            if len(arm_dom) != 1:
                continue          # not a guard of the call
            tree = fn.resolve(c_[0])
            names = {y.get('f') for y in walk(tree) if isinstance(y, dict) and y.get('k') == 'mem'} | \
                    {y.get('fn') for y in walk(tree) if isinstance(y, dict) and y.get('k') == 'call' and y.get('fn') not in ('__builtin_expect', 'uref_dup')}
            names |= {y.get('f') for x_ in walk(tree) if isinstance(x_, dict) and x_.get('k') == 'ext' for y in walk(fn.resolve(x_)) if isinstance(y, dict) and y.get('k') == 'mem'}
            extra = {n_ for n_ in names if n_ and n_ not in allowed}
            if extra:
                okc, whyc = False, 'the in-band flow definition is queued only if %s as well (line %s)' % (sorted(extra), (fn.blocks[d_].get('term') or {}).get('l'))
    rep.add('R-queue', 'upipe_qsink_input:flow-def-unconditional', HOLDS if okc else VIOLATED, fn.loc,
            **({} if okc else {'what': whyc + ': a buffer input while that condition does not hold crosses the queue without its flow definition in front'}))
    # every accepted flow definition is recorded for the queue, with the "to be sent" flag: a call that reports success without
    # re-arming the flag (an "unchanged, nothing to send" shortcut that compares less than the whole definition) lets the next
    # buffers cross the queue under the previous definition
    fsd = qs.funcs.get('upipe_qsink_set_flow_def')
    if fsd is None or not fsd.blocks:
        raise facts.AnalysisBroken('anchor vanished: upipe_qsink_set_flow_def')
    evs = pr.Events(fsd)
    rearm = pr.m_store('flow_def_sent', 0)
    if not evs.find(rearm):
        raise facts.AnalysisBroken('anchor vanished: upipe_qsink_set_flow_def no longer resets flow_def_sent')
    late = pr.must_precede(evs, rearm, pr.m_return('UBASE_ERR_NONE'))
    rep.add('R-queue', 'upipe_qsink_set_flow_def:accepted-means-queued', VIOLATED if late else HOLDS, fsd.loc,
            **({'what': 'upipe_qsink_set_flow_def can report success (line %s) without recording the definition and clearing flow_def_sent: the definition '
                        'just accepted never crosses the queue, the buffers that follow arrive under the previous one' % late[0][2].get('l')} if late else {}))
    # ... and a flush, which frees whatever is parked - possibly the copy of the flow definition that was waiting in front of the
    # data, its flag already set - re-arms the flag on every path
    ffl = qs.funcs.get('upipe_qsink_flush')
    if ffl is None or not ffl.blocks:
        raise facts.AnalysisBroken('anchor vanished: upipe_qsink_flush')
    evf = pr.Events(ffl)
    if not evf.find(pr.m_call('upipe_qsink_flush_input')):
        raise facts.AnalysisBroken('anchor vanished: upipe_qsink_flush no longer calls upipe_qsink_flush_input')
    latef = pr.must_precede(evf, rearm, pr.m_return())
    rep.add('R-queue', 'upipe_qsink_flush:flush-rearms-flow-def', VIOLATED if latef else HOLDS, ffl.loc,
            **({'what': 'upipe_qsink_flush can return (line %s) without clearing flow_def_sent: when the parked urefs it frees include the copy of the flow '
                        'definition, the next buffer crosses the queue without a definition in front of it' % latef[0][2].get('l')} if latef else {}))
    # full queue with a possible watcher => held, not freed
    frees = ev.find(pr.m_call('uref_free'))

    def nowatcher(ctree, pol, fn=fn):
        n, neg = strip_expect(fn.resolve(ctree))
        return isinstance(n, dict) and n.get('k') == 'call' and n.get('fn') == 'upipe_qsink_check_watcher' and pol == neg
    okf = all(pr.control_dependent(fn, ev, f, nowatcher) for f in frees)
    rep.add('R-queue', 'upipe_qsink_input:hold-not-drop', HOLDS if okf else VIOLATED, fn.loc,
            **({} if okf else {'what': 'a buffer is freed on a full queue although a watcher could be created: it must be held'}))
    # held buffers first (shared with C05)
    sub = Report('tmp', tier)
    c05.check_fifo(sub, prog)
    for o in sub.obs:
        if o.instance.startswith('upipe_qsink'):
            rep.add('R-queue', o.instance, o.status, o.loc, **o.detail)
    src = prog.units['lib/upipe-modules/upipe_queue_source.c']
    for fname, after in (('upipe_qsrc_source_end', 'upipe_throw_source_end'), ('upipe_qsrc_free', 'upipe_throw_dead')):
        fn = src.funcs.get(fname)
        if fn is None:
            raise facts.AnalysisBroken('anchor vanished: %s' % fname)
        ev = pr.Events(fn)
        pop = pr.m_call(r'uqueue_pop\w*')
        end = pr.m_call(after)
        # the end event is reached only through the drain loop whose exit condition is "pop returned NULL"
        ok = bool(ev.find(end)) and not pr.must_precede(ev, pop, end) and not pr.never_after(ev, end, pr.m_call(r'upipe_qsrc_input|upipe_qsrc_output'))
        pops = [p for p in ev.find(pop) if p[2]['args'] and mentions_field(p[2]['args'][0], 'uqueue')]
        inloop = bool(pops) and any(pr.never_after(ev, (lambda p: (lambda n: n is p[2]))(c), (lambda p: (lambda n: n is p[2]))(c)) for c in pops)
        rep.add('R-queue', '%s:drain-before-%s' % (fname, after.replace('upipe_throw_', '')), HOLDS if (ok and inloop) else VIOLATED, fn.loc,
                **({} if (ok and inloop) else {'what': '%s must pop the data queue in a loop until it is empty before %s, and output nothing afterwards' % (fname, after)}))
    # ownership of the queue sink / source input paths
    # ---- three more confinement / delivery clauses (necessary conditions, one function each) --------------------
    rep.rule('R-rewatch', 'upipe_queue_sink.c: every upump_start() of the sink\'s own watcher (upipe_qsink->upump) is preceded, in its function, by '
             'upipe_qsink_check_watcher(): attaching a upump manager drops the watcher, so a sink that is holding buffers must re-create it or the held '
             'buffers are never delivered')
    nst = 0
    for fn in sorted(qs.funcs.values(), key=lambda f: f.name):
        if not fn.blocks or fn.macro:
            continue
        ev = pr.Events(fn)

        def own_start(n):
            if n.get('k') != 'call' or n.get('fn') != 'upump_start' or not n.get('args'):
                return False
            a = strip_all_casts(n['args'][0])
            return isinstance(a, dict) and a.get('k') == 'mem' and a.get('rec') == 'upipe_qsink' and a.get('f') == 'upump'
        if not ev.find(own_start):
            continue
        nst += 1
        bad = pr.must_precede(ev, pr.m_call('upipe_qsink_check_watcher'), own_start)
        rep.add('R-rewatch', fn.name, VIOLATED if bad else HOLDS, fn.loc,
                **({'what': '%s starts upipe_qsink->upump on a path that has not been through upipe_qsink_check_watcher(): after UPIPE_ATTACH_UPUMP_MGR the '
                            'watcher is NULL and the held buffers stay in the sink for ever' % fn.name} if bad else {}))
    if nst < 2:
        raise facts.AnalysisBroken('R-rewatch found %d functions starting the sink watcher' % nst)
    rep.rule('R-xfer-event', 'uprobe_xfer_throw: an event that is in the list of transferred events is re-thrown as UPROBE_XFER_* (to be queued to the '
             'application thread) and never handed to uprobe_throw_next() in the calling (worker) thread')
    ux = prog.units.get('lib/upipe/uprobe_transfer.c')
    fx = ux.funcs.get('uprobe_xfer_throw') if ux else None
    if fx is None:
        raise facts.AnalysisBroken('anchor vanished: uprobe_xfer_throw')
    evx = pr.Events(fx)
    sel = pr.m_load(('uprobe_xfer_sub', 'xfer_event'))
    nxt = pr.m_call('uprobe_throw_next')
    if not evx.find(sel) or not evx.find(pr.m_call('upipe_throw')):
        raise facts.AnalysisBroken('uprobe_xfer_throw: transfer dispatch not recognised')
    badx = pr.never_after(evx, sel, nxt)
    rep.add('R-xfer-event', 'uprobe_xfer_throw', VIOLATED if badx else HOLDS, fx.loc,
            **({'what': 'after the event was found in the transfer list (found->xfer_event consulted) uprobe_throw_next() is still reachable (line %s): '
                        'the application\'s probes then run in the worker thread' % badx[0][1][2].get('l')} if badx else {}))
    rep.rule('R-va-copy', 'in the units of the queue / transfer / worker machinery (and the probes that forward events between threads): a copy made with '
             'va_copy is read (va_arg on it, or passed on) before its va_end - a copy that is never read means the peek was done on the original list, '
             'which is then handed on with arguments missing: the event forwarded to the application carries the wrong value')
    ncopy = 0
    for uname_, u_ in sorted(prog.units.items()):
        for f_ in sorted(u_.funcs.values(), key=lambda f: f.name):
            if not f_.blocks or not f_.inmain:
                continue
            for _, _, c_ in f_.nodes():
                if c_.get('k') != 'call' or c_.get('fn') != '__builtin_va_copy' or len(c_.get('args', [])) < 2:
                    continue
                d_ = strip_all_casts(f_.resolve(c_['args'][0]))
                if not (isinstance(d_, dict) and d_.get('k') == 'ref'):
                    continue
                nm_ = d_['n']
                ncopy += 1
                used = False
                for _, _, x_ in f_.nodes():
                    if x_ is c_:
                        continue
                    if x_.get('k') == 'va_arg' and any(y.get('k') == 'ref' and y.get('n') == nm_ for y in walk(x_['e'])):
                        used = True
                    if x_.get('k') == 'call' and x_.get('fn') != '__builtin_va_end' and x_ is not c_ and any(
                            y.get('k') == 'ref' and y.get('n') == nm_ for a_ in (x_.get('args', [])[1:] if x_.get('fn') == '__builtin_va_copy' else x_.get('args', [])) for y in walk(a_)):
                        used = True
                rep.add('R-va-copy', '%s:%s' % (f_.name, nm_), HOLDS if used else VIOLATED, '%s:%s' % (f_.file, c_.get('l')),
                        **({} if used else {'what': '%s copies its argument list into %s (line %s) and never reads the copy: the arguments are taken from the original '
                                                    'list instead, which is passed on with those arguments consumed' % (f_.name, nm_, c_.get('l'))}))
    if ncopy < 5:
        raise facts.AnalysisBroken('R-va-copy found only %d va_copy sites' % ncopy)
    rep.rule('R-freeze-nest', 'uprobe_pthread_upump_mgr_throw: the per-thread frozen state is a nesting counter - incremented on FREEZE, decremented on THAW, '
             'never assigned - so that a freeze / thaw pair inside another (a worker allocated while the application froze the probe) does not thaw the outer one')
    up = prog.units.get('lib/upipe-pthread/uprobe_pthread_upump_mgr.c')
    ft = up.funcs.get('uprobe_pthread_upump_mgr_throw') if up else None
    if ft is None:
        raise facts.AnalysisBroken('anchor vanished: uprobe_pthread_upump_mgr_throw')
    evt = pr.Events(ft)
    inc, dec = evt.find(pr.m_incdec('frozen', '++')), evt.find(pr.m_incdec('frozen', '--'))
    plain = [x for x in evt.find(pr.m_store('frozen')) if is_assign(x[2]) and x[2].get('op') == '=']
    okf = bool(inc) and bool(dec) and not plain
    rep.add('R-freeze-nest', 'uprobe_pthread_upump_mgr_throw', HOLDS if okf else VIOLATED, ft.loc,
            **({} if okf else {'what': 'frozen is %s: nested freeze / thaw pairs are not counted' % ('assigned' if plain else 'not incremented / decremented')}))
    ownrule.run_own(rep, prog, only_units={'lib/upipe-modules/upipe_queue_sink.c', 'lib/upipe-modules/upipe_queue_source.c'}, local_functions=False)
    # ---- R-atomic (shared with C09) -------------------------------------------------------
    rep.rule('R-atomic', 'an lvalue of declared type uatomic_uint32_t / uatomic_ptr_t occurs only as &lvalue argument of a uatomic_* call (units of this check)')
    from upv.facts import children
    nocc, bad = 0, []
    for uname, uu in prog.units.items():
        for fn in uu.funcs.values():
            if fn.name.startswith('uatomic_'):
                continue
            for bid, st in fn.all_stmts():
                stack = [(st, None)]
                while stack:
                    n, parent = stack.pop()
                    if not isinstance(n, dict):
                        continue
                    if n.get('k') in ('mem', 'ref', 'idx') and n.get('t') in c09.ATOMIC_TYPES:
                        nocc += 1
                        if not (isinstance(parent, dict) and parent.get('k') == 'un' and parent.get('op') == '&'):
                            bad.append((fn, n))
                    for c in children(n):
                        stack.append((c, n))
    rep.add('R-atomic', 'queue-and-transfer-units', VIOLATED if bad else HOLDS, None, occurrences=nocc,
            **({'what': 'direct access to an atomic object in %s (line %s)' % (bad[0][0].name, bad[0][1].get('l'))} if bad else {}))
    rep.assumptions = ['thread contexts of upipe_transfer.c as frozen in coverage.tables.xfer_contexts (from the comments of the source)',
                       'schedules are not explored: delivery, ordering and race freedom under interleavings are outside this family']
    return rep
