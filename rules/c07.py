"""C07 - lock-free FIFO, LIFO and pool are linearizable (bounded decision).

Three groups of obligations, all computed from the CFGs of uring.h / ufifo.h /
ulifo.h / upool.h (header unit), nothing compiled or executed:

R-seq    every sequence of push / pop (alloc / free) up to a bound, on rings of
         0..3 slots, interpreted on the abstract machine: results equal those of
         a reference queue / stack / pool (the single-thread instance of
         linearizability), no assertion fails, no element index out of range.
R-tag    in the same runs: an element re-inserted into a list carries a tag
         different from the one of its previous insertion (ABA protection is
         the premise of every compare-exchange on the descriptor words).
R-order  publication order inside the four wrappers: the element is filled
         before it is linked into the carrier list, and read before it is
         recycled into the empty list.
R-lin    exhaustive exploration of the *interleaved product* of the CFGs
         (upv.conc) for small thread programs: every access to a descriptor
         word or to a ring element is a scheduling point; every complete
         interleaving's history (plus a final drain) must be linearizable
         w.r.t. the sequential specification, with the relaxation the
         property states for push failures; the final phase drains, fills to
         capacity and drains again (no slot may have been lost).
"""
import itertools
import multiprocessing
import os
import time

from upv import facts, conc
from upv import pathrules as pr
from upv.absint import Finding, Undecided, PathEnd, SYM
from upv.conc import Shared, RingMachine, Explorer, linearizable
from upv.report import Report, HOLDS, VIOLATED, UNDECIDED, OOS

PROP = 'C07'
Q = ('obj', 'q')
NULL = ('null',)

ANCHORS = ['uring_init', 'uring_elem_set', 'uring_elem_get', 'uring_lifo_pop', 'uring_lifo_push', 'uring_fifo_pop',
           'uring_fifo_push', 'uring_fifo_find', 'ufifo_init', 'ufifo_push', 'ufifo_pop_internal', 'ulifo_init',
           'ulifo_push', 'ulifo_pop_internal', 'upool_init', 'upool_alloc_internal', 'upool_free', 'upool_vacuum']

_G = {}


def _prog(repo):
    if 'prog' not in _G or _G.get('repo') != repo:
        _G['prog'] = facts.load_program([], repo=repo)
        _G['repo'] = repo
    return _G['prog']


# ---- drivers ------------------------------------------------------------------

def setup(prog, kind, L, prefill):
    sh = Shared(L)
    m = RingMachine(prog, prog.hdr, sh)
    if kind == 'upool':
        ops = [('upool_init', [Q, ('obj', 'refcount'), L, ('obj', 'extra'), ('cb', 'alloc_cb'), ('cb', 'free_cb')])]
        for x in prefill:
            ops.append(('upool_free', [Q, ('obj', x)]))
    else:
        ops = [('%s_init' % kind, [Q, L, ('obj', 'extra')])]
        for x in prefill:
            ops.append(('%s_push' % kind, [Q, ('obj', x)]))
    m.run_ops(ops)
    return sh


def opname(kind, c):
    if kind == 'upool':
        return {'U': 'upool_free', 'O': 'upool_alloc_internal'}[c]
    return {'U': '%s_push' % kind, 'O': '%s_pop_internal' % kind}[c]


class PoolMachine(RingMachine):
    """a pool thread frees what it allocated: the argument of the k-th free
    is the result of the thread's k-th alloc"""

    def run_ops(self, ops):
        held = []
        out = []
        for i, (name, args) in enumerate(ops):
            if name == 'upool_free':
                if args[1] == 'held':
                    if not held:
                        continue
                    args = [args[0], held.pop(0)]
            self.cur_op = i
            fn = self.prog.lookup(self.unit, name)
            before = len(self.freed_cb), len(self.alloc_cb)
            try:
                r = self.run(fn, list(args))
            except PathEnd:
                raise Finding('assertion failure', None, 'an assert() of %s (or of a callee) fails' % name)
            if name == 'upool_alloc_internal' and r != NULL:
                held.append(r)
            extra = {'arg': args[1] if len(args) > 1 else None,
                     'to_cb': len(self.freed_cb) > before[0], 'fresh': len(self.alloc_cb) > before[1]}
            self.results.append((i, (r, tuple(sorted(extra.items(), key=repr))), self.op_first.get(i), self.op_last.get(i)))
        self.cur_op = None
        self.held = held
        return self.results


def spec_apply(kind, L):
    def fifo_lifo(state, op):
        q = state
        if op['name'].endswith('push'):
            if op['ret'] == 1:
                if len(q) >= L:
                    return None
                return q + (op['arg'],)
            if op['ret'] == 0 and len(q) + op['overlap'] >= L:
                return q
            return None
        if op['ret'] == NULL:
            return q if not q else None
        if not q:
            return None
        if kind == 'ufifo':
            return q[1:] if q[0] == op['ret'] else None
        return q[:-1] if q[-1] == op['ret'] else None

    def pool(state, op):
        s = state
        r, extra = op['ret']
        extra = dict(extra)
        if op['name'] == 'upool_free':
            o = extra['arg']
            if extra['to_cb']:
                return s if len(s) + op['overlap'] >= L else None
            if o in s or len(s) >= L:
                return None
            return s | frozenset([o])
        if extra['fresh']:
            # the allocator is used when nothing could be taken from the pool
            return s if len(s) <= op['overlap'] else None
        if r in s:
            return s - frozenset([r])
        return None
    return pool if kind == 'upool' else fifo_lifo


def thread_ops(kind, t, prog_str):
    ops = []
    for i, c in enumerate(prog_str):
        if kind == 'upool':
            ops.append((opname(kind, c), [Q, 'held'] if c == 'U' else [Q]))
        else:
            ops.append((opname(kind, c), [Q, ('obj', 'x%d%d' % (t, i))] if c == 'U' else [Q]))
    return ops


def run_lin(job):
    """one product exploration; returns a dict"""
    repo, kind, L, npre, progs, max_states = job
    prog = _prog(repo)
    t0 = time.time()
    prefill = ['p%d' % i for i in range(npre)]
    name = '%s[L=%d,pre=%d]:%s' % (kind, L, npre, '|'.join(progs))
    res = {'name': name, 'status': HOLDS}
    try:
        sh = setup(prog, kind, L, prefill)
        threads = [thread_ops(kind, t, p) for t, p in enumerate(progs)]
        drain_n = L + 1
        if kind == 'upool':
            drain = [('upool_vacuum', [Q])]
        else:
            # drain, then fill to capacity (every slot must still be there), then drain again
            drain = [(opname(kind, 'O'), [Q]) for _ in range(drain_n)]
            drain += [(opname(kind, 'U'), [Q, ('obj', 'f%d' % i)]) for i in range(L + 1)]
            drain += [(opname(kind, 'O'), [Q]) for _ in range(drain_n)]
        ex = Explorer(prog, prog.hdr, sh, threads, final_ops=drain, max_states=max_states,
                      machine_cls=PoolMachine if kind == 'upool' else RingMachine)
        bad = []
        apply = spec_apply(kind, L)

        def done(infos, fm, shf):
            if bad:
                return
            ops = []
            for t, inf in enumerate(infos):
                for (i, r, f, l) in inf.results:
                    nm, args = threads[t][i]
                    ops.append({'id': 't%d.%d' % (t, i), 'name': nm, 'arg': args[1] if len(args) > 1 else None, 'ret': r, 'first': f, 'last': l})
            if kind == 'upool':
                # the vacuum hands every pooled object to free_cb: they must be exactly the pool of the specification
                vac = frozenset(fm.freed_cb)
                dup = len(fm.freed_cb) != len(vac)
            else:
                for (i, r, f, l) in fm.results:
                    ops.append({'id': 'final.%d' % i, 'name': drain[i][0], 'arg': drain[i][1][1] if len(drain[i][1]) > 1 else None,
                                'ret': r, 'first': f, 'last': l})
            for o in ops:
                o['overlap'] = sum(1 for p in ops if p is not o and not (p['last'] < o['first'] or o['last'] < p['first']))
            if kind == 'upool':
                init = frozenset(('obj', x) for x in prefill)
                w = None
                if not dup:
                    w = linearizable_final(ops, init, apply, vac)
            else:
                init = tuple(('obj', x) for x in prefill)
                w = linearizable(ops, init, apply)
            if w is None:
                bad.append([{k: repr(v) for k, v in o.items()} for o in sorted(ops, key=lambda o: o['first'] or 0)])
                raise conc.Stop()
        ex.deadline = time.time() + (90 if max_states <= 150000 else 1800)
        try:
            ex.explore(done)
        except conc.Stop:
            pass
        res.update(states=ex.states, transitions=ex.transitions, executions=ex.executions, accesses=ex.accesses, spins_cut=ex.spins_cut)
        if bad:
            res['status'] = VIOLATED
            res['what'] = 'an interleaving of %s on a %s of %d slots (%d stored) yields a history no sequential order explains' % (
                ' | '.join(progs), kind, L, npre)
            res['history'] = bad[0]
    except Finding as f:
        res['status'] = VIOLATED
        res['what'] = 'under some interleaving: %s' % f
    except Undecided as u:
        res['status'] = UNDECIDED
        res['why'] = str(u)
    res['wall'] = round(time.time() - t0, 2)
    return res


def linearizable_final(ops, init, apply, final_set):
    """as conc.linearizable, with the final state required to equal final_set"""
    def ap(state, op):
        if op['name'] == '#final':
            return state if state == final_set else None
        return apply(state, op)
    last = max([o['last'] for o in ops if o['last'] is not None] + [0]) + 1
    fin = {'id': 'final', 'name': '#final', 'arg': None, 'ret': None, 'first': last, 'last': last, 'overlap': 0}
    return linearizable(ops + [fin], init, ap)


def run_seq(job):
    """all sequences of a given length on one structure: sequential spec + tag discipline"""
    repo, kind, L, seq = job
    prog = _prog(repo)
    res = {'name': '%s[L=%d]:%s' % (kind, L, seq), 'status': HOLDS, 'tag': HOLDS}
    try:
        sh = setup(prog, kind, L, [])
        cls = PoolMachine if kind == 'upool' else RingMachine
        m = cls(prog, prog.hdr, sh)
        rec = TagRecorder(m)
        ops = thread_ops(kind, 0, seq)
        out = m.run_ops(ops)
        # reference
        if kind == 'upool':
            pool, held = [], []
            k = 0
            for (i, (r, extra), _, _) in out:
                extra = dict(extra)
                nm = ops[i][0]
                if nm == 'upool_alloc_internal':
                    if pool:
                        exp = pool.pop()
                        if r != exp or extra['fresh']:
                            raise Finding('sequential specification', None, 'alloc #%d returns %r, the pool holds %r on top' % (i, r, exp))
                    elif not extra['fresh']:
                        raise Finding('sequential specification', None, 'alloc #%d on an empty pool returns %r without calling the allocator' % (i, r))
                    held.append(r)
                else:
                    o = extra['arg']
                    if len(pool) < L:
                        if extra['to_cb']:
                            raise Finding('sequential specification', None, 'free #%d releases the object although the pool has room' % i)
                        pool.append(o)
                    elif not extra['to_cb']:
                        raise Finding('sequential specification', None, 'free #%d on a full pool does not release the object' % i)
        else:
            ref = []
            for (i, r, _, _) in out:
                nm, args = ops[i]
                if nm.endswith('push'):
                    exp = 1 if len(ref) < L else 0
                    if r != exp:
                        raise Finding('sequential specification', None, 'push #%d returns %r with %d of %d slots used' % (i, r, len(ref), L))
                    if exp:
                        ref.append(args[1])
                else:
                    exp = NULL if not ref else (ref.pop(0) if kind == 'ufifo' else ref.pop())
                    if r != exp:
                        raise Finding('sequential specification', None, 'pop #%d returns %r, the reference %r' % (i, r, exp))
        if rec.bad:
            res['tag'] = VIOLATED
            res['tag_what'] = rec.bad[0]
        res['reinsertions'] = rec.reinsertions
    except Finding as f:
        res['status'] = VIOLATED
        res['what'] = str(f)
    except Undecided as u:
        res['status'] = UNDECIDED
        res['why'] = str(u)
    return res


class TagRecorder:
    """hooks the machine's call(): after every uring_lifo_push / uring_fifo_push
    of index i on descriptor d, the tag of element i must differ from the tag it
    had when it was last inserted into d"""

    def __init__(self, m):
        self.last = {}
        self.bad = []
        self.reinsertions = 0
        orig = m.call
        rec = self

        def call(fn, node, args, env, depth):
            name = node.get('fn')
            r = orig(fn, node, args, env, depth)
            if name in ('uring_lifo_push', 'uring_fifo_push') and len(args) >= 3:
                d = m.eval(fn, args[1], env, depth)
                i = m.eval(fn, args[2], env, depth)
                if isinstance(i, int) and i >= 1:
                    tag = m.sh.elems.get((i - 1, 'tag'))
                    k = (d, i)
                    if k in rec.last:
                        rec.reinsertions += 1
                        if rec.last[k] == tag:
                            rec.bad.append('element %d is linked into %s again with the same tag (%r) as last time: a thread that read the '
                                           'descriptor in between cannot tell (ABA)' % (i, d[-1] if isinstance(d, tuple) else d, tag))
                    rec.last[k] = tag
            return r
        m.call = call


def lin_configs(tier):
    """(kind, L, prefilled, thread programs); U = push/free, O = pop/alloc"""
    cfg = []
    two = ['U|O', 'U|U', 'O|O']
    for kind in ('ufifo', 'ulifo'):
        for L in (1, 2):
            for npre in range(0, L + 1):
                for p in two:
                    cfg.append((kind, L, npre, p.split('|')))
        for L, npre, p in ((2, 1, 'UO|O'), (2, 1, 'OU|U'), (2, 2, 'OO|U'), (2, 0, 'UU|O'), (2, 1, 'OU|O'), (2, 2, 'OUO|O'),
                           (2, 2, 'OOU|O'), (3, 2, 'OOU|O'), (3, 3, 'OOU|O'), (3, 3, 'OOUU|O'), (2, 1, 'U|O|O'), (2, 1, 'U|U|O'), (3, 2, 'O|OO'), (3, 2, 'OO|OU')):
            cfg.append((kind, L, npre, p.split('|')))
    for L, npre, p in ((1, 0, 'OU|OU'), (1, 1, 'OU|O'), (2, 1, 'OU|OU'), (2, 2, 'OOU|O'), (2, 2, 'OOUU|O')):
        cfg.append(('upool', L, npre, p.split('|')))
    if tier == 'thorough':
        for kind in ('ufifo', 'ulifo'):
            for L, npre, p in ((3, 2, 'OU|OU'), (2, 1, 'UO|UO'), (2, 1, 'OU|UO'), (3, 3, 'OOU|OU'), (3, 3, 'OOUU|OU'), (3, 2, 'OOU|O|U'),
                               (2, 1, 'U|O|U'), (2, 2, 'O|O|U'), (3, 1, 'UU|OO'), (3, 3, 'OOOU|O'), (3, 3, 'OOUO|O'), (2, 2, 'OUOU|O'),
                               (3, 3, 'OOUOU|O')):
                cfg.append((kind, L, npre, p.split('|')))
        for L, npre, p in ((2, 2, 'OOU|OU'), (2, 1, 'OU|OU|O'), (3, 3, 'OOUU|OU')):
            cfg.append(('upool', L, npre, p.split('|')))
    return cfg



def check_layout(rep, repo):
    """the descriptors carry the fields uring.h documents: LIFO = 16-bit tag | 16-bit index, FIFO = 8-bit tail tag |
    8-bit tail index | 8-bit head tag | 8-bit head index"""
    rep.rule('R-desc-layout', 'uring_lifo_from_index / uring_lifo_to_index / uring_fifo_set_tail / uring_fifo_set_head / uring_fifo_get_tail / uring_fifo_get_head '
             'interpreted on concrete element tags (0, 1, 0x7f, 0x80, 0xff, 0x100, 0x1234, 0xffff) and indexes: the LIFO descriptor is exactly '
             '(tag << 16) | index with all 16 bits of the element tag - the width that decides after how many re-uses of a slot a stale compare-exchange '
             'succeeds -, the FIFO descriptor carries the low 8 bits of each tag and both indexes in the documented positions, and the getters invert the setters')
    prog = _prog(repo)
    H = prog.hdr
    for n in ('uring_lifo_from_index', 'uring_lifo_to_index', 'uring_fifo_set_tail', 'uring_fifo_set_head', 'uring_fifo_get_tail', 'uring_fifo_get_head'):
        if n not in H.funcs or not H.funcs[n].blocks:
            raise facts.AnalysisBroken('anchor vanished: %s' % n)
    L = 3
    for tag in (0, 1, 0x7f, 0x80, 0xff, 0x100, 0x1234, 0xffff):
        for index in (1, 2, 3):
            inst = 'tag=%#x,index=%d' % (tag, index)
            what = None
            try:
                sh = Shared(L)
                for i in range(L):
                    sh.elems[(i, 'tag')] = 0x5a5a
                    sh.elems[(i, 'next')] = 0
                sh.elems[(index - 1, 'tag')] = tag
                m = RingMachine(prog, H, sh)
                m.max_steps = 5000
                r = m.run(H.funcs['uring_lifo_from_index'], [Q, index])
                if r != ((tag << 16) | index):
                    what = 'uring_lifo_from_index gives %#x for element tag %#x and index %d, the documented descriptor is %#x' % (
                        r if isinstance(r, int) else -1, tag, index, (tag << 16) | index)
                else:
                    back = m.run(H.funcs['uring_lifo_to_index'], [Q, r])
                    if back != index:
                        what = 'uring_lifo_to_index(%#x) gives %r, expected %d' % (r, back, index)
                if not what:
                    env = {'f': 0}
                    m.cells[(id(env), 'f')] = env
                    pf = ('addr', 'var', 'f', id(env))
                    m.run(H.funcs['uring_fifo_set_tail'], [Q, pf, index])
                    other = 1 + index % L
                    sh.elems[(other - 1, 'tag')] = (tag ^ 0xa5) & 0xffff
                    m.run(H.funcs['uring_fifo_set_head'], [Q, pf, other])
                    exp = ((tag & 0xff) << 24) | (index << 16) | ((((tag ^ 0xa5) & 0xffff) & 0xff) << 8) | other
                    if env['f'] != exp:
                        what = 'FIFO descriptor built from tail (%d, tag %#x) and head (%d, tag %#x) is %#x, the documented layout gives %#x' % (
                            index, tag, other, (tag ^ 0xa5) & 0xffff, env['f'] if isinstance(env['f'], int) else -1, exp)
                    else:
                        t = m.run(H.funcs['uring_fifo_get_tail'], [Q, exp])
                        h = m.run(H.funcs['uring_fifo_get_head'], [Q, exp])
                        if (t, h) != (index, other):
                            what = 'uring_fifo_get_tail / _head of %#x give (%r, %r), expected (%d, %d)' % (exp, t, h, index, other)
            except Finding as f:
                what = str(f)
            except PathEnd:
                what = 'an assert() fails'
            except Undecided as e:
                rep.add('R-desc-layout', inst, UNDECIDED, 'include/upipe/uring.h', why=str(e))
                continue
            rep.add('R-desc-layout', inst, VIOLATED if what else HOLDS, 'include/upipe/uring.h', **({'what': what} if what else {}))


def run(tier='quick', repo=None):
    repo = repo or facts.REPO
    rep = Report(PROP, tier)
    rep.explanation = (
        'Bounded decision of linearizability on the CFGs of uring.h, ufifo.h, ulifo.h and upool.h. R-seq: every push/pop (alloc/free) sequence up to '
        'the bound on rings of 0..3 slots is interpreted and compared with a reference queue/stack/pool (single-thread instance). R-tag: in those '
        'runs an element linked again into a list carries a new tag. R-order: the wrappers fill an element before linking it and read it before '
        'recycling it. R-lin: the interleaved product of the CFGs of 2-3 threads running 1-5 operations is explored exhaustively (every access to a '
        'descriptor word or ring element is a scheduling point, memoised on the shared store and the per-thread answers); each terminal state yields '
        'a history with real-time order which, extended by a final drain, must be explained by the sequential specification (a failed push may be '
        'explained by slots held by overlapping operations, as the property allows). Sequential consistency is assumed for all accesses. Not decided: '
        'longer programs, more threads, tag wrap-around (2^8 / 2^16 re-uses), reorderings of the plain element accesses by compiler or hardware.')
    prog = _prog(repo)
    H = prog.hdr
    rep.units = ['include/upipe/*.h (header unit)']
    rep.nfuncs = len(H.funcs)
    for n in ANCHORS:
        if n not in H.funcs or not H.funcs[n].blocks:
            raise facts.AnalysisBroken('anchor vanished: %s' % n)
    rep.rule('R-seq', 'for every operation sequence up to the bound on a ring of L slots: each result equals the reference model\'s, no assert() fails, '
             'no element index is out of range')
    rep.rule('R-tag', 'in every such run, an element linked again into the same list carries a tag different from that of its previous insertion')
    rep.rule('R-order', 'X_push: uring_elem_set precedes the uring_*_push that publishes the element; X_pop_internal: uring_elem_get precedes the '
             'uring_lifo_push that recycles the element')
    rep.rule('R-lin', 'for every interleaving of the thread programs (scheduling point = access to a descriptor word or a ring element): the history '
             'of results, with a final drain, is linearizable with respect to the FIFO / LIFO / pool specification')
    check_layout(rep, repo)
    # ---- R-order ---------------------------------------------------------------
    for fname, first, then, what in (
            ('ufifo_push', 'uring_elem_set', 'uring_fifo_push', 'the element is linked into the carrier FIFO before its opaque is stored: a concurrent pop returns a stale or NULL pointer'),
            ('ulifo_push', 'uring_elem_set', 'uring_lifo_push', 'the element is linked into the carrier LIFO before its opaque is stored: a concurrent pop returns a stale or NULL pointer'),
            ('ufifo_pop_internal', 'uring_elem_get', 'uring_lifo_push', 'the element is recycled before its opaque is read: a concurrent push overwrites it and the pop returns another thread\'s pointer'),
            ('ulifo_pop_internal', 'uring_elem_get', 'uring_lifo_push', 'the element is recycled before its opaque is read: a concurrent push overwrites it and the pop returns another thread\'s pointer')):
        fn = H.funcs[fname]
        ev = pr.Events(fn)
        a, b = pr.m_call(first), pr.m_call(then)
        if not ev.find(b):
            rep.add('R-order', fname, UNDECIDED, fn.loc, why='no call to %s' % then)
            continue
        bad = pr.must_precede(ev, a, b)
        ok = bool(ev.find(a)) and not bad
        rep.add('R-order', '%s:%s-before-%s' % (fname, first, then), HOLDS if ok else VIOLATED, fn.loc, **({} if ok else {'what': what}))
    # ---- R-seq / R-tag -----------------------------------------------------------
    nmax = 7 if tier == 'quick' else 10
    jobs = []
    for kind in ('ufifo', 'ulifo', 'upool'):
        for L in (0, 1, 2, 3):
            for n in range(1, nmax + 1):
                if n < nmax and tier == 'quick' and n not in (1, 2, 3):
                    continue        # a sequence is a prefix of a longer one: the longest length covers them
                for seq in itertools.product('UO', repeat=n):
                    jobs.append((repo, kind, L, ''.join(seq)))
    cfgs = lin_configs(tier)
    max_states = 150000 if tier == 'quick' else 2000000
    ljobs = [(repo, k, L, npre, p, max_states) for (k, L, npre, p) in cfgs]
    with multiprocessing.Pool(min(16, os.cpu_count() or 4)) as pool:
        lin_async = pool.map_async(run_lin, ljobs, chunksize=1)
        seq_res = pool.map(run_seq, jobs, chunksize=64)
        lin_res = lin_async.get()
    nre = 0
    seen_v = set()
    for r in seq_res:
        nre += r.get('reinsertions', 0)
        if r['status'] == VIOLATED:
            k = r['what'].split('#')[0][:60]
            if k in seen_v:
                continue
            seen_v.add(k)
        rep.add('R-seq', r['name'], r['status'], 'include/upipe/uring.h', **{k: r[k] for k in ('what', 'why') if k in r})
    tag_bad = [r for r in seq_res if r.get('tag') == VIOLATED]
    if tag_bad:
        rep.add('R-tag', tag_bad[0]['name'], VIOLATED, 'include/upipe/uring.h', what=tag_bad[0]['tag_what'], sequences=len(tag_bad))
    else:
        if nre < 100:
            raise facts.AnalysisBroken('R-tag observed only %d re-insertions' % nre)
        rep.add('R-tag', 'all-sequences', HOLDS, 'include/upipe/uring.h', reinsertions=nre)
    tot = {'states': 0, 'transitions': 0, 'executions': 0}
    for r in lin_res:
        for k in tot:
            tot[k] += r.get(k, 0)
        det = {k: r[k] for k in ('what', 'why', 'history', 'states', 'executions', 'wall') if k in r}
        rep.add('R-lin', r['name'], r['status'], 'include/upipe/uring.h', **det)
    rep.tables['product_exploration'] = dict(tot, configurations=len(lin_res),
                                             largest=max(lin_res, key=lambda r: r.get('states', 0))['name'] if lin_res else None)
    rep.tables['sequential'] = {'sequences': len(seq_res), 'max_length': nmax, 'ring_lengths': [0, 1, 2, 3], 'reinsertions_checked': nre}
    rep.extra_cov = {'states': tot['states'], 'transitions': tot['transitions'], 'executions': tot['executions']}
    rep.assumptions = [
        'sequential consistency for every access (the atomic builtins are seq_cst - C09 R-seqcst; plain accesses to ring elements are not reordered)',
        'uatomic_* are modelled as atomic load / store / compare-exchange / fetch-add on a 32-bit word (their bodies are checked under C09)',
        'bounds: rings of at most 3 slots, at most 3 threads, at most 5 operations per thread; tags never wrap within these bounds',
    ]
    return rep
