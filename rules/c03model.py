"""C03 R-model: the real block API interpreted (upv.blockapi) and compared with a Python list."""
from upv import facts
import itertools
from upv import blockapi
from upv.absint import Finding, Undecided, PathEnd, SYM
from upv.report import HOLDS, VIOLATED, UNDECIDED

NULL = ('null',)


def comps(n, k=3):
    if n == 0:
        yield []
        return
    for parts in range(1, k + 1):
        for cuts in itertools.combinations(range(1, n), parts - 1):
            b = [0] + list(cuts) + [n]
            yield [b[i + 1] - b[i] for i in range(parts)]


def cut(data, segs):
    out, p = [], 0
    for s in segs:
        out.append(data[p:p + s])
        p += s
    return out


class Ctx:
    def __init__(self, prog):
        self.prog = prog
        self.H = prog.hdr
        self.runs = 0

    def machine(self):
        return blockapi.BlockAPI(self.prog, self.H)

    def out(self, m, name, val):
        env = {name: val}
        m.cells[(id(env), name)] = env
        return ('addr', 'var', name, id(env)), env

    def call(self, m, name, args):
        self.runs += 1
        m.steps = 0
        return m.run(self.H.funcs[name], args)

    # readers through the real API
    def extract_all(self, m, h, n):
        r = m.region(max(n, 1), 'out')
        e = self.call(m, 'ubuf_block_extract', [h, 0, -1, ('p', r, 0)])
        if e != 0:
            return ('error', e)
        return [m.mem.get((r, i)) for i in range(n)]

    def size(self, m, h):
        p, e = self.out(m, 'sz', None)
        r = self.call(m, 'ubuf_block_size', [h, p])
        return e['sz'] if r == 0 else ('error', r)


def norm(off, size, n):
    """documented normalisation: negative offsets from the end, size -1 = to the end; None if out of range"""
    if off < 0:
        off += n
    if off < 0 or off > n:
        return None
    if size == -1:
        size = n - off
    if size < 0 or off + size > n:
        return None
    return off, size


def check_block(ctx, rep, rule, inst, m, h, model, loc, extra=None):
    """structures, size and content of block h against the model list; then the same through extract and per-offset reads"""
    got = m.content(h)
    tot = m.segs[h[1]]['total_size']
    if got != model or tot != len(model):
        return 'content is %s (total_size %s), the byte-string model %s' % (fmt(got), tot, fmt(model))
    # every read-back starts from the state the operation left (the offset cache included): a read at a high offset first
    snap = m.snapshot()
    for off in reversed(range(len(model))):
        m.restore(snap)
        ps, es = ctx.out(m, 'size', 1)
        pb, eb = ctx.out(m, 'buf', None)
        r = ctx.call(m, 'ubuf_block_read', [h, off, ps, pb])
        if r != 0:
            return 'ubuf_block_read(offset %d) fails with %r on a block of %d octets' % (off, r, len(model))
        p = eb['buf']
        v = m.octet_at(p, {}) if isinstance(p, tuple) and p[0] == 'p' else None
        if v != model[off] or es['size'] != 1:
            return 'ubuf_block_read(offset %d, 1) right after the operation designates octet %s (size %r), the model holds %s' % (off, fmt([v]), es['size'], fmt([model[off]]))
    m.restore(snap)
    if len(model):
        ex = ctx.extract_all(m, h, len(model))
        if ex != model:
            return 'ubuf_block_extract(0, -1) returns %s, the byte-string model %s' % (fmt(ex) if isinstance(ex, list) else ex, fmt(model))
    return None


def fmt(l):
    if not isinstance(l, list):
        return repr(l)
    return '[' + ' '.join(('%02x' % x) if isinstance(x, int) else '??' for x in l) + ']'


def check_model(rep, prog, tier='quick', only=None):
    ctx = Ctx(prog)
    H = ctx.H
    for n in ('ubuf_block_get', 'ubuf_block_read', 'ubuf_block_extract', 'ubuf_block_delete', 'ubuf_block_insert', 'ubuf_block_append', 'ubuf_block_truncate',
              'ubuf_block_resize', 'ubuf_block_splice', 'ubuf_block_split', 'ubuf_block_compare', 'ubuf_block_match', 'ubuf_block_scan',
              'ubuf_block_common_dup', 'ubuf_block_common_splice', 'ubuf_block_common_clean', 'ubuf_block_peek', 'ubuf_block_copy', 'ubuf_block_merge'):
        if n not in H.funcs or not H.funcs[n].blocks:
            raise facts.AnalysisBroken('anchor vanished: %s' % n)
    rep.rule('R-model', 'the block API of the repository headers interpreted on a structure memory (segments with offset / size / links / caches, areas of pairwise '
             'distinct octets, a ghost manager with per-area reference counts) for blocks of N octets in every segmentation of at most 3 segments, after '
             'a read that warms the offset cache at the start / middle / end or none: every mutator (delete, truncate, resize, prepend, append, insert, '
             'split, splice, dup, copy, merge) with every offset / size in and just outside the range leaves size and content - read from the structures, '
             'through extract(0,-1) and through read() at every offset - equal to the same operation on a Python list, or, when it reports an error, '
             'unchanged; every reader (size_linear, peek, extract, iovec, compare, equal, match, scan, and find_va for words of 2 and 3 octets over a two-letter alphabet in every content of the block) returns what the list gives; no access outside an '
             'area, no use of a freed segment, no cycle')
    N = 5 if tier == 'quick' else 6
    data = [0x10 + i for i in range(N)]
    other_data = [0x40 + i for i in range(3)]
    segl = list(comps(N))
    nseg_all = len(segl)
    if only is not None:
        segl = [x for i, x in enumerate(segl) if i in only]
    warm = [None, 0, N - 1, N // 2] if tier != 'quick' else [None, N - 1]
    seen = set()
    counts = {'runs': 0}
    loc = 'include/upipe/ubuf_block.h'

    def report(op, inst, what):
        counts['runs'] += 1
        if what:
            key = (op, what.split(' is ')[0].split(' returns ')[0][:50])
            if key in seen:
                return
            seen.add(key)
            rep.add('R-model', '%s:%s' % (op, inst), VIOLATED, loc, what=what)
        else:
            rep.add('R-model', '%s:%s' % (op, inst), HOLDS, loc)

    def guarded(op, inst, f):
        try:
            report(op, inst, f())
        except Finding as e:
            report(op, inst, str(e))
        except PathEnd:
            report(op, inst, 'an assert() of the block API fails')
        except Undecided as e:
            counts['runs'] += 1
            rep.add('R-model', '%s:%s' % (op, inst), UNDECIDED, loc, why=str(e))

    for segs in segl:
        for w in warm:
            tag = 'segs=%s,warm=%s' % ('+'.join(map(str, segs)), w)

            def fresh(w=w, segs=segs):
                m = ctx.machine()
                h = m.build(cut(data, segs))
                if w is not None:
                    ps, _ = ctx.out(m, 'size', 1)
                    pb, _ = ctx.out(m, 'buf', None)
                    ctx.call(m, 'ubuf_block_read', [h, w, ps, pb])
                return m, h

            def mutate(op, args_of, model_of, inst, fresh=fresh):
                """args_of(m, h) -> argument list; model_of() -> expected list or None (out of range)"""
                def f():
                    m, h = fresh()
                    r = ctx.call(m, op, args_of(m, h))
                    exp = model_of()
                    either = isinstance(exp, tuple)
                    if either:
                        exp = exp[1]
                        if r != 0:
                            return check_block(ctx, rep, 'R-model', inst, m, h, data, loc)
                    if r == 0:
                        if exp is None:
                            return 'the request is out of range and is accepted (content now %s)' % fmt(m.content(h))
                        e = check_block(ctx, rep, 'R-model', inst, m, h, exp, loc)
                        if e:
                            return e
                        # the tail hint must still designate this block's own last segment
                        ctx.call(m, 'ubuf_block_append', [h, m.build([[0x61, 0x62]])])
                        e = check_block(ctx, rep, 'R-model', inst, m, h, exp + [0x61, 0x62], loc)
                        return ('after a following append: ' + e) if e else None
                    if exp is not None and exp != data:
                        return 'a request inside the block is refused with error %r' % (r,)
                    return check_block(ctx, rep, 'R-model', inst, m, h, data, loc)
                guarded(op, '%s,%s' % (tag, inst), f)
            offs = range(-N, N + 2)
            sizes = [-1] + list(range(0, N + 2))
            for off in offs:
                for size in sizes:
                    if tier == 'quick' and size not in (-1, 0, 1, 2, N, N + 1):
                        continue
                    nm = norm(off, size, N)
                    mutate('ubuf_block_delete', lambda m, h, off=off, size=size: [h, off, size],
                           (lambda nm=nm: (data[:nm[0]] + data[nm[0] + nm[1]:]) if nm else None), 'offset=%d,size=%d' % (off, size))
            for off in offs:
                nm = norm(off, -1, N)
                if off >= 0:
                    mutate('ubuf_block_truncate', lambda m, h, off=off: [h, off], (lambda nm=nm: data[:nm[0]] if nm else None), 'offset=%d' % off)
                # split: the block keeps the head, the new block is the tail

                def fsplit(off=off, nm=nm, fresh=fresh):
                    m, h = fresh()
                    r = ctx.call(m, 'ubuf_block_split', [h, off])
                    if r == NULL or not (isinstance(r, tuple) and r[0] == 'seg'):
                        if nm is not None and 0 < nm[0] < N:
                            return 'a split inside the block is refused'
                        return check_block(ctx, rep, 'R-model', '', m, h, data, loc)
                    if nm is None:
                        return 'a split out of range is accepted'
                    e = check_block(ctx, rep, 'R-model', '', m, h, data[:nm[0]], loc) or check_block(ctx, rep, 'R-model', '', m, r, data[nm[0]:], loc)
                    if e:
                        return e
                    ctx.call(m, 'ubuf_block_append', [h, m.build([[0x61, 0x62]])])
                    e = check_block(ctx, rep, 'R-model', '', m, h, data[:nm[0]] + [0x61, 0x62], loc) or check_block(ctx, rep, 'R-model', '', m, r, data[nm[0]:], loc)
                    return ('after appending to the head of a split block: ' + e) if e else None
                guarded('ubuf_block_split', '%s,offset=%d' % (tag, off), fsplit)
            for skip in range(-2, N + 2):
                for new in [-1] + list(range(0, N + 2)):
                    if tier == 'quick' and new not in (-1, 0, 1, N - 1, N, N + 1):
                        continue

                    def model(skip=skip, new=new):
                        sk = skip + N if skip < 0 else skip
                        if sk < 0 or sk > N:
                            return None
                        full = data[sk:]
                        if new == -1:
                            return full
                        if new > len(full) or new < 0:
                            return None
                        return full[:new]
                    mutate('ubuf_block_resize', lambda m, h, skip=skip, new=new: [h, skip, new], model, 'skip=%d,new_size=%d' % (skip, new))
            for k in (0, 1, 2):
                mutate('ubuf_block_prepend', lambda m, h, k=k: [h, k], (lambda k=k: ([0xEE] * k + data) if k <= 1 else None), 'prepend=%d' % k)
            for osegs in comps(len(other_data)):
                for off in list(range(0, N + 1)) + [N + 1, -1]:
                    def model(off=off):
                        o = off + N if off < 0 else off
                        if o < 0 or o > N:
                            return None
                        if o == N:
                            return ('either', data + other_data)     # inserting at the very end is what append is for: both answers are accepted
                        return data[:o] + other_data + data[o:]
                    mutate('ubuf_block_insert', lambda m, h, off=off, osegs=osegs: [h, off, m.build(cut(other_data, osegs))], model,
                           'offset=%d,inserted=%s' % (off, '+'.join(map(str, osegs))))
                mutate('ubuf_block_append', lambda m, h, osegs=osegs: [h, m.build(cut(other_data, osegs))], lambda: data + other_data,
                       'appended=%s' % '+'.join(map(str, osegs)))
            # non-destructive producers: splice, dup, copy
            for off in offs:
                for size in sizes:
                    if tier == 'quick' and size not in (-1, 1, 2, N - 1, N):
                        continue
                    nm = norm(off, size, N)

                    def fsplice(off=off, size=size, nm=nm, fresh=fresh):
                        m, h = fresh()
                        r = ctx.call(m, 'ubuf_block_splice', [h, off, size])
                        if not (isinstance(r, tuple) and r[0] == 'seg'):
                            if nm is not None and nm[1] > 0:
                                return 'a splice inside the block is refused'
                            return check_block(ctx, rep, 'R-model', '', m, h, data, loc)
                        if nm is None:
                            return 'a splice out of range is accepted'
                        e = check_block(ctx, rep, 'R-model', '', m, r, data[nm[0]:nm[0] + nm[1]], loc)
                        if e:
                            return 'the spliced block: ' + e
                        e = check_block(ctx, rep, 'R-model', '', m, h, data, loc)
                        if e:
                            return 'the source after the splice: ' + e
                        # appending to the result must not disturb the source either
                        ctx.call(m, 'ubuf_block_append', [r, m.build([other_data])])
                        e = check_block(ctx, rep, 'R-model', '', m, r, data[nm[0]:nm[0] + nm[1]] + other_data, loc)
                        if e:
                            return 'the spliced block after an append: ' + e
                        e = check_block(ctx, rep, 'R-model', '', m, h, data, loc)
                        return ('the source after appending to the spliced block: ' + e) if e else None
                    guarded('ubuf_block_splice', '%s,offset=%d,size=%d' % (tag, off, size), fsplice)

                    def fcopy(off=off, size=size, nm=nm, fresh=fresh):
                        if off < 0:
                            return None
                        m, h = fresh()
                        r = ctx.call(m, 'ubuf_block_copy', [('obj', 'mgr'), h, off, size])
                        if not (isinstance(r, tuple) and r[0] == 'seg'):
                            if nm is not None and nm[1] > 0:
                                return 'a copy inside the block is refused'
                            return check_block(ctx, rep, 'R-model', '', m, h, data, loc)
                        if nm is None:
                            # copy has resizing semantics (ubuf_block_check_resize): a size beyond the end extends the new buffer
                            return None
                        return check_block(ctx, rep, 'R-model', '', m, r, data[nm[0]:nm[0] + nm[1]], loc) or check_block(ctx, rep, 'R-model', '', m, h, data, loc)
                    guarded('ubuf_block_copy', '%s,skip=%d,size=%d' % (tag, off, size), fcopy)

            def fdup(fresh=fresh):
                m, h = fresh()
                d = m.g_dup(h, None, 0)
                e = check_block(ctx, rep, 'R-model', '', m, d, data, loc) or check_block(ctx, rep, 'R-model', '', m, h, data, loc)
                if e:
                    return e
                ctx.call(m, 'ubuf_block_delete', [d, 1, 2])
                e = check_block(ctx, rep, 'R-model', '', m, h, data, loc)
                if e:
                    return 'the original after a delete in its duplicate: ' + e
                m.g_free(d, None, 0)
                return check_block(ctx, rep, 'R-model', '', m, h, data, loc)
            guarded('ubuf_dup', tag, fdup)
            # ---- readers -------------------------------------------------------------------
            bounds = []
            p = 0
            for s_ in segs:
                bounds.append((p, p + s_))
                p += s_
            for off in range(0, N):
                def flin(off=off, fresh=fresh):
                    m, h = fresh()
                    ps, es = ctx.out(m, 'sz', None)
                    r = ctx.call(m, 'ubuf_block_size_linear', [h, off, ps])
                    want = [hi - off for lo, hi in bounds if lo <= off < hi][0]
                    if r != 0 or es['sz'] != want:
                        return 'size_linear(%d) returns %r / %r, the segment has %d octets left' % (off, r, es['sz'], want)
                guarded('ubuf_block_size_linear', '%s,offset=%d' % (tag, off), flin)
            for off in offs:
                for size in sizes:
                    if tier == 'quick' and size not in (-1, 1, 2, 3, N):
                        continue
                    nm = norm(off, size, N)

                    def fpeek(off=off, size=size, nm=nm, fresh=fresh):
                        m, h = fresh()
                        reg = m.region(N + 2, 'peek')
                        r = ctx.call(m, 'ubuf_block_peek', [h, off, size, ('p', reg, 0)])
                        if not (isinstance(r, tuple) and r[0] == 'p'):
                            return 'peek of a range inside the block returns NULL' if (nm and nm[1] > 0) else None
                        if nm is None:
                            return 'peek out of range returns a pointer'
                        got = [m.octet_at(('p', r[1], r[2] + i), {}) for i in range(nm[1])]
                        if got != data[nm[0]:nm[0] + nm[1]]:
                            return 'peek(%d, %d) gives %s, the model %s' % (off, size, fmt(got), fmt(data[nm[0]:nm[0] + nm[1]]))
                    guarded('ubuf_block_peek', '%s,offset=%d,size=%d' % (tag, off, size), fpeek)

                    def fext(off=off, size=size, nm=nm, fresh=fresh):
                        m, h = fresh()
                        reg = m.region(N + 2, 'ext')
                        r = ctx.call(m, 'ubuf_block_extract', [h, off, size, ('p', reg, 0)])
                        if r != 0:
                            return 'extract of a range inside the block fails' if (nm and nm[1] > 0) else None
                        if nm is None:
                            if size in (-1, 0):
                                return None          # "up to the end" from beyond the end, or zero octets: nothing is copied, either answer fits the model
                            return 'extract out of range succeeds'
                        got = [m.mem.get((reg, i)) for i in range(nm[1])]
                        if got != data[nm[0]:nm[0] + nm[1]]:
                            return 'extract(%d, %d) gives %s, the model %s' % (off, size, fmt(got), fmt(data[nm[0]:nm[0] + nm[1]]))
                    guarded('ubuf_block_extract', '%s,offset=%d,size=%d' % (tag, off, size), fext)

                    def fiov(off=off, size=size, nm=nm, fresh=fresh):
                        if nm is None or nm[1] == 0:
                            return None
                        m, h = fresh()
                        cnt = ctx.call(m, 'ubuf_block_iovec_count', [h, off, size])
                        want = sum(1 for lo, hi in bounds if lo < nm[0] + nm[1] and hi > nm[0])
                        if cnt != want:
                            return 'iovec_count(%d, %d) returns %r, the range touches %d segments' % (off, size, cnt, want)
                    guarded('ubuf_block_iovec_count', '%s,offset=%d,size=%d' % (tag, off, size), fiov)
            # compare / equal: small blocks in every segmentation, equal or with one octet flipped
            for ln in (1, 2, 3):
                for off in range(0, N - ln + 2):
                    for ssegs in comps(ln):
                        for flip in [None] + list(range(ln)):
                            def fcmp(ln=ln, off=off, ssegs=ssegs, flip=flip, fresh=fresh):
                                m, h = fresh()
                                sd = list(data[off:off + ln]) + [0x77] * (ln - len(data[off:off + ln]))
                                if flip is not None:
                                    sd[flip] ^= 0x80
                                small = m.build(cut(sd, ssegs))
                                r = ctx.call(m, 'ubuf_block_compare', [h, off, small])
                                want = (off + ln <= N) and flip is None
                                if (r == 0) != want:
                                    return 'compare at offset %d with a block %s (%s) returns %r, the model says %s' % (
                                        off, fmt(sd), 'identical' if flip is None else 'octet %d differs' % flip, r, 'equal' if want else 'different')
                            guarded('ubuf_block_compare', '%s,offset=%d,small=%s,flip=%s' % (tag, off, '+'.join(map(str, ssegs)), flip), fcmp)
            for osegs in comps(N):
                for flip in (None, 0, N - 1, N // 2):
                    def feq(osegs=osegs, flip=flip, fresh=fresh):
                        m, h = fresh()
                        od = list(data)
                        if flip is not None:
                            od[flip] ^= 0x80
                        o = m.build(cut(od, osegs))
                        r = ctx.call(m, 'ubuf_block_equal', [h, o])
                        if (r == 0) != (flip is None):
                            return 'equal() with a block %s returns %r' % ('identical' if flip is None else 'differing at %d' % flip, r)
                    guarded('ubuf_block_equal', '%s,other=%s,flip=%s' % (tag, '+'.join(map(str, osegs)), flip), feq)
            for ln in range(1, N + 2):
                for flip in [None] + list(range(min(ln, N))):
                    def fmatch(ln=ln, flip=flip, fresh=fresh):
                        m, h = fresh()
                        fr, mr = m.region(ln, 'filter'), m.region(ln, 'mask')
                        for i in range(ln):
                            mk = 0xf0 if i % 2 else 0xff
                            v = (data[i] if i < N else 0) & mk
                            if flip == i:
                                v ^= 0x10
                            m.mem[(fr, i)] = v
                            m.mem[(mr, i)] = mk
                        r = ctx.call(m, 'ubuf_block_match', [h, ('p', fr, 0), ('p', mr, 0), ln])
                        want = ln <= N and flip is None
                        if (r == 0) != want:
                            return 'match of %d octets (%s) returns %r, the model says %s' % (ln, 'all matching' if flip is None else 'octet %d differs' % flip, r, want)
                    guarded('ubuf_block_match', '%s,size=%d,flip=%s' % (tag, ln, flip), fmatch)
            for start in range(0, N + 1):
                for word in (data[0], data[N // 2], data[N - 1], 0x99):
                    def fscan(start=start, word=word, fresh=fresh):
                        m, h = fresh()
                        po, eo = ctx.out(m, 'off', start)
                        r = ctx.call(m, 'ubuf_block_scan', [h, po, word])
                        idx = next((i for i in range(start, N) if data[i] == word), None)
                        if idx is None:
                            if r == 0 or eo['off'] != N:
                                return 'scan for an absent octet from %d returns %r with offset %r (expected failure, offset %d)' % (start, r, eo['off'], N)
                        elif r != 0 or eo['off'] != idx:
                            return 'scan for %02x from %d returns %r with offset %r, the model finds it at %d' % (word, start, r, eo['off'], idx)
                    guarded('ubuf_block_scan', '%s,start=%d,word=%02x' % (tag, start, word), fscan)
    # find: multi-octet words over a two-letter alphabet (false candidates, words across segment boundaries)
    if 'ubuf_block_find_va' not in H.funcs or not H.funcs['ubuf_block_find_va'].blocks:
        raise facts.AnalysisBroken('anchor vanished: ubuf_block_find_va')
    A, B = 0x2a, 0x2b
    NF = 5 if tier == 'quick' else 6
    pats = [list(t) for t in itertools.product((A, B), repeat=NF)]
    if tier == 'quick':
        pats = pats[1::3]
    fsegl = list(comps(NF))
    if only is not None:
        fsegl = [x for i, x in enumerate(fsegl) if i in only]
    for segs in fsegl:
        if tier == 'quick' and len(segs) == 3 and segs[1] > 2:
            continue
        for pat in pats:
            for wl in (2, 3):
                for word in itertools.product((A, B), repeat=wl):
                    word = list(word)
                    for start in range(0, NF + 1):
                        if tier == 'quick' and start not in (0, 1):
                            continue
                        def ffind(segs=segs, pat=pat, word=word, start=start):
                            m = ctx.machine()
                            h = m.build(cut(pat, segs))
                            po, eo = ctx.out(m, 'off', start)
                            r = ctx.call(m, 'ubuf_block_find_va', [h, po, len(word), m.new_valist(word)])
                            idx = next((i for i in range(start, NF - len(word) + 1) if pat[i:i + len(word)] == word), None)
                            if idx is not None:
                                if r != 0 or eo['off'] != idx:
                                    return 'find %s in %s from %d returns %r with offset %r, the model finds it at %d' % (fmt(word), fmt(pat), start, r, eo['off'], idx)
                                return None
                            # not found: failure; the offset is the first candidate that runs into the end, or the size
                            # ("first candidate if there aren't enough octets": the first occurrence of the word's first octet there)
                            cand = next((i for i in range(max(start, NF - len(word) + 1), NF) if pat[i] == word[0]), NF)
                            if r == 0 or eo['off'] != cand:
                                return 'find for an absent word %s in %s from %d returns %r with offset %r (expected failure, offset %d)' % (
                                    fmt(word), fmt(pat), start, r, eo['off'], cand)
                        guarded('ubuf_block_find_va', 'segs=%s,data=%s,word=%s,start=%d' % ('+'.join(map(str, segs)), ''.join('ab'[x - A] for x in pat),
                                                                                           ''.join('ab'[x - A] for x in word), start), ffind)
    rep.tables['R-model'] = {'operations_checked': counts['runs'], 'interpreted_calls': ctx.runs, 'block_size': N, 'segmentations': len(segl)}
    return nseg_all
