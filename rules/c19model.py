"""C19 R-geometry: the window / allocation arithmetic of picture and sound buffers interpreted (upv.geo) on small
concrete configurations and compared with the reference geometry of the property."""
import itertools

from upv import facts, geo
from upv.absint import Finding, Undecided, PathEnd, SYM
from upv.report import HOLDS, VIOLATED, UNDECIDED

PIC_COMMON = 'lib/upipe/ubuf_pic_common.c'
PIC_MEM = 'lib/upipe/ubuf_pic_mem.c'
SND_COMMON = 'lib/upipe/ubuf_sound_common.c'
UB = ('obj', 'ubuf')
MGR = ('obj', 'mgr')


def norm1(off, size, total):
    """documented normalisation along one axis (units of pixels / lines / samples); None: out of range"""
    if off < 0:
        off += total
    if off < 0 or off > total:
        return None
    if size < 0:
        size = total - off
    if off + size > total:
        return None
    return off, size


# ---- pictures: plane_map -------------------------------------------------------------------------------

def pic_machine(prog, u, M, H, V, mps, hmsize, vsize, hmpre, hmapp, vpre, vapp, slack):
    m = geo.Geo(prog, u)
    m.inline_prefix = ('ubuf_pic_common_',)
    CM = ('obj', 'cmgr')
    m.alias = {'ubuf_pic_common_mgr_from_ubuf_mgr': lambda x: CM, 'ubuf_pic_common_from_ubuf': lambda x: UB,
               'ubuf_pic_common_to_ubuf': lambda x: UB, 'ubuf_pic_common_plane': lambda mgr, chroma: chroma[1] if isinstance(chroma, tuple) else -1}
    stride = (hmpre + hmsize + hmapp) // H * mps + slack
    lines = (vpre + vsize + vapp) // V
    F = m.F
    F[(UB, 'mgr')] = MGR
    for f, val in (('hmprepend', hmpre), ('hmappend', hmapp), ('hmsize', hmsize), ('vprepend', vpre), ('vappend', vapp), ('vsize', vsize)):
        F[(UB, f)] = val
    F[(UB, 'planes')] = ('p', 'cplanes', 0)
    F[(('el', 'cplanes', 0), 'buffer')] = ('p', 'plane0', 0)
    F[(('el', 'cplanes', 0), 'stride')] = stride
    F[(CM, 'macropixel')] = M
    F[(CM, 'nb_planes')] = 1
    F[(CM, 'planes')] = ('p', 'mplanes', 0)
    m.C[('mplanes', 0)] = ('obj', 'mplane0')
    for f, val in (('hsub', H), ('vsub', V), ('macropixel_size', mps)):
        F[(('obj', 'mplane0'), f)] = val
    return m, stride, lines


def check_pic_map(rep, prog, tier, add):
    u = prog.units[PIC_COMMON]
    fn = u.funcs.get('ubuf_pic_common_plane_map')
    if fn is None:
        raise facts.AnalysisBroken('anchor vanished: ubuf_pic_common_plane_map')
    n = 0
    planes = [(1, 1, 1), (2, 1, 1), (1, 2, 1), (2, 2, 1), (1, 1, 4), (2, 2, 2)]
    for M, (H, V, mps), hm, vs, hmpre, vpre, slack in itertools.product((1, 2), planes, (2, 4), (2, 4), (0, 2), (0, 2), (0, 3)):
        if tier == 'quick' and (slack and (hm, vs) != (4, 4)):
            continue
        W = hm * M
        hmapp, vapp = hmpre, vpre
        reqs = [(ho, 0, hs, -1) for ho in range(-W, W + 1) for hs in [-1] + list(range(0, W + 3))]
        reqs += [(0, vo, -1, vz) for vo in range(-vs, vs + 1) for vz in [-1] + list(range(0, vs + 3))]
        for ho, vo, hs, vz in reqs:
            n += 1
            inst = 'macropixel=%d,hsub=%d,vsub=%d,mpsize=%d,hmsize=%d,vsize=%d,margins=%d/%d,slack=%d:map(%d,%d,%d,%d)' % (
                M, H, V, mps, hm, vs, hmpre, vpre, slack, ho, vo, hs, vz)
            what = None
            try:
                m, stride, lines = pic_machine(prog, u, M, H, V, mps, hm, vs, hmpre, hmapp, vpre, vapp, slack)
                pb, eb = m.outvar('buf', None)
                r = m.run(fn, [UB, ('chroma', 0), ho, vo, hs, vz, pb])
                hn, vn = norm1(ho, hs, W), norm1(vo, vz, vs)
                gran_ok = hn is not None and vn is not None and hn[0] % (M * H) == 0 and hn[1] % (M * H) == 0 and vn[0] % V == 0 and vn[1] % V == 0
                if r == 0:
                    if not gran_ok:
                        what = 'the window is accepted although it %s' % (
                            'exceeds the picture' if (hn is None or vn is None) else 'is not a multiple of the macropixel / subsampling granularity')
                    else:
                        p = eb['buf']
                        want = ((vpre + vn[0]) // V) * stride + ((hmpre + hn[0] // M) // H) * mps
                        if not (isinstance(p, tuple) and p[0] == 'p' and p[1] == 'plane0'):
                            what = 'no pointer into the plane is returned'
                        elif p[2] != want:
                            what = 'the window starts at octet %d of the plane, the geometry says %d' % (p[2], want)
                        else:
                            rows = vn[1] // V
                            rowlen = (hn[1] // M // H) * mps
                            if rows and rowlen:
                                last = p[2] + (rows - 1) * stride + rowlen
                                if last > stride * lines:
                                    what = 'the window ends at octet %d of a plane of %d octets' % (last, stride * lines)
                                elif (p[2] % stride) + rowlen > stride:
                                    what = 'a line of the window runs over into the next line (aliasing)'
                elif gran_ok and hn[1] > 0 and vn[1] > 0 and hn[0] < W and vn[0] < vs:
                    what = 'a window inside the picture on the granularity is refused (error %r)' % (r,)
            except Finding as f:
                what = str(f)
            except PathEnd:
                what = 'an assert() fails'
            except Undecided as e:
                add('R-geometry', 'pic_plane_map:' + inst, UNDECIDED, fn.loc, why=str(e))
                continue
            add('R-geometry', 'pic_plane_map:' + inst, VIOLATED if what else HOLDS, fn.loc, **({'what': what} if what else {}))
    return n



def check_pic_resize(rep, prog, tier, add):
    """ubuf_pic_common_resize: the window moves inside the fixed total (prepend + size + append is invariant)"""
    u = prog.units[PIC_COMMON]
    fn = u.funcs.get('ubuf_pic_common_resize')
    if fn is None:
        raise facts.AnalysisBroken('anchor vanished: ubuf_pic_common_resize')
    n = 0
    for M, (H, V), hm, vs, hmpre, hmapp, vpre, vapp in itertools.product((1, 2), ((1, 1), (2, 2)), (2, 4), (2, 4), (0, 2), (0, 2), (0, 2), (0, 2)):
        if tier == 'quick' and (hm, vs) != (4, 4) and (hmpre, hmapp, vpre, vapp) != (2, 2, 2, 2):
            continue
        W = hm * M
        hstep, vstep = M * H, V
        reqs = [(hk, 0, hs, -1) for hk in range(-(hmpre + 1) * M, W + hstep + 1, hstep) for hs in [-1] + list(range(0, (hm + hmpre + hmapp + 1) * M + 1, hstep))]
        reqs += [(0, vk, -1, vz) for vk in range(-(vpre + 1), vs + vstep + 1, vstep) for vz in [-1] + list(range(0, vs + vpre + vapp + 2, vstep))]
        reqs += [(hstep, vstep, W - hstep, vs - vstep), (hstep, vstep, -1, -1), (-hstep, -vstep, W + hstep, vs + vstep)]
        for hk, vk, hs, vz in reqs:
            n += 1
            inst = 'macropixel=%d,hsub=%d,vsub=%d,hmsize=%d,vsize=%d,hmargins=%d/%d,vmargins=%d/%d:resize(%d,%d,%d,%d)' % (
                M, H, V, hm, vs, hmpre, hmapp, vpre, vapp, hk, vk, hs, vz)
            what = None
            try:
                m, stride, lines = pic_machine(prog, u, M, H, V, 1, hm, vs, hmpre, hmapp, vpre, vapp, 0)
                r = m.run(fn, [UB, hk, vk, hs, vz])
                got = tuple(m.F[(UB, f)] for f in ('hmprepend', 'hmsize', 'hmappend', 'vprepend', 'vsize', 'vappend'))
                before = (hmpre, hm, hmapp, vpre, vs, vapp)
                nh = hs if hs != -1 else W - hk
                nv = vz if vz != -1 else vs - vk
                ok = nh >= 0 and nv >= 0 and hk % hstep == 0 and nh % hstep == 0 and vk % vstep == 0 and nv % vstep == 0
                hmk, nhm = (hk // M if hk >= 0 else -((-hk) // M)), nh // M
                inside = ok and hmpre + hmk >= 0 and hmpre + hmk + nhm <= hmpre + hm + hmapp and vpre + vk >= 0 and vpre + vk + nv <= vpre + vs + vapp and \
                    (hmk < 0 or hmk <= hm) and (vk < 0 or vk <= vs)
                want = (hmpre + hmk, nhm, hmpre + hm + hmapp - (hmpre + hmk) - nhm, vpre + vk, nv, vpre + vs + vapp - (vpre + vk) - nv) if inside else before
                if r == 0:
                    if not inside:
                        what = 'a resize that leaves the allocated area (or the granularity) is accepted: geometry now %s' % (got,)
                    elif got != want:
                        what = 'after the resize (prepend, size, append) are h %s v %s, the reference h %s v %s: the totals %d x %d are no longer what was allocated' % (
                            got[:3], got[3:], want[:3], want[3:], hmpre + hm + hmapp, vpre + vs + vapp)
                else:
                    if got != before:
                        what = 'a refused resize changed the geometry to %s' % (got,)
                    elif inside and nhm > 0 and nv > 0 and (hmk >= 0 or nhm >= -hmk) and (vk >= 0 or nv >= -vk):
                        # (a window that would end before the old one starts is refused by design)
                        what = 'a resize inside the allocated area on the granularity is refused (error %r)' % (r,)
            except Finding as f:
                what = str(f)
            except PathEnd:
                what = 'an assert() fails'
            except Undecided as e:
                add('R-geometry', 'pic_resize:' + inst, UNDECIDED, fn.loc, why=str(e))
                continue
            add('R-geometry', 'pic_resize:' + inst, VIOLATED if what else HOLDS, fn.loc, **({'what': what} if what else {}))
    return n


# ---- pictures: allocation --------------------------------------------------------------------------------

def check_pic_alloc(rep, prog, tier, add):
    u = prog.units[PIC_MEM]
    fn = u.funcs.get('ubuf_pic_mem_alloc')
    if fn is None:
        raise facts.AnalysisBroken('anchor vanished: ubuf_pic_mem_alloc')
    SIG = None
    for bid, s, x in fn.nodes():
        if x.get('k') == 'bin' and x.get('op') == '!=' and 'cv' in (x.get('rhs') or {}):
            SIG = x['rhs']['cv']
            break
    n = 0
    layouts = [[(1, 1, 1)], [(1, 1, 1), (2, 2, 1), (2, 2, 1)], [(1, 1, 1), (2, 1, 1), (2, 1, 1)], [(1, 1, 1), (1, 2, 1), (1, 2, 1)],
               [(1, 1, 4)], [(1, 1, 2), (2, 2, 2)]]
    for M, layout, (hsize_m, vsize), (hmpre, hmapp), (vpre, vapp), align, ahm in itertools.product(
            (1, 2), layouts, ((2, 2), (4, 2), (6, 4)), ((0, 0), (2, 2), (2, 4)), ((0, 0), (2, 2)), (0, 16), (0, 2)):
        if not align and ahm:
            continue
        n += 1
        hsize = hsize_m * M
        inst = 'macropixel=%d,planes=%s,size=%dx%d,hm=%d+%d,v=%d+%d,align=%d/%d' % (M, layout, hsize, vsize, hmpre, hmapp, vpre, vapp, align, ahm)
        what = None
        try:
            m = geo.Geo(prog, u)
            m.inline_prefix = ('ubuf_pic_common_init', 'ubuf_pic_common_plane_init', 'ubuf_pic_mem_to_ubuf', 'ubuf_pic_mem_from_ubuf')
            PM = ('obj', 'picmgr')
            PIC = ('obj', 'pic')
            SH = ('obj', 'shared')
            st = {'size': None}

            def umem_alloc(mgr, umem, size):
                st['size'] = size
                return 1
            m.alias = {'ubuf_pic_common_check_size': lambda *a: 0, 'ubuf_pic_mem_mgr_from_ubuf_mgr': lambda x: PM,
                       'ubuf_pic_mem_alloc_pool': lambda x: PIC, 'ubuf_pic_mem_to_ubuf': lambda x: PIC, 'ubuf_pic_mem_shared_alloc_pool': lambda x: SH,
                       'umem_alloc': umem_alloc, 'ubuf_mem_shared_buffer': lambda x: ('p', 'area', 0),
                       'ubuf_pic_common_from_ubuf': lambda x: PIC, 'ubuf_pic_common_mgr_from_ubuf_mgr': lambda x: ('sub', PM, 'ubuf_pic_mem_mgr', 'common_mgr')}
            F = m.F
            F[(PIC, 'mgr')] = MGR
            F[(PIC, 'planes')] = ('p', 'cplanes', 0)
            for f, val in (('hmprepend', hmpre), ('hmappend', hmapp), ('vprepend', vpre), ('vappend', vapp), ('align', align), ('align_hmoffset', ahm),
                           ('umem_mgr', ('obj', 'umem_mgr'))):
                F[(PM, f)] = val
            CMk = ('sub', PM, 'ubuf_pic_mem_mgr', 'common_mgr')
            F[(CMk, 'macropixel')] = M
            F[(CMk, 'nb_planes')] = len(layout)
            F[(CMk, 'planes')] = ('p', 'mplanes', 0)
            for i, (H, V, mps) in enumerate(layout):
                m.C[('mplanes', i)] = ('obj', 'mplane%d' % i)
                for f, val in (('hsub', H), ('vsub', V), ('macropixel_size', mps)):
                    F[(('obj', 'mplane%d' % i), f)] = val
            m.vargs = [hsize, vsize]
            r = m.run(fn, [MGR, SIG, ('obj', 'va')])
            if r != PIC:
                what = 'the allocation of a legal picture fails'
            else:
                total = st['size']
                prev_end = 0
                for i, (H, V, mps) in enumerate(layout):
                    buf = F.get((('el', 'cplanes', i), 'buffer'))
                    stride = F.get((('el', 'cplanes', i), 'stride'))
                    line = (hmpre + hsize // M + hmapp) // H * mps
                    lines = (vpre + vsize + vapp) // V
                    if not (isinstance(buf, tuple) and buf[0] == 'p' and isinstance(stride, int)):
                        what = 'plane %d has no buffer / stride' % i
                        break
                    if stride < line:
                        what = 'plane %d: stride %d is smaller than a line with its margins (%d octets): consecutive lines overlap' % (i, stride, line)
                        break
                    if buf[2] < prev_end:
                        what = 'plane %d starts at octet %d, inside the previous plane (which ends at %d)' % (i, buf[2], prev_end)
                        break
                    prev_end = buf[2] + stride * lines
                    if prev_end > total:
                        what = 'plane %d ends at octet %d of an allocation of %d' % (i, prev_end, total)
                        break
                    if align and (buf[2] + (ahm + hmpre) // H * mps) % align:
                        what = 'plane %d: the requested column is not aligned on %d' % (i, align)
                        break
                if not what and (F.get((PIC, 'hmsize')) != hsize // M or F.get((PIC, 'vsize')) != vsize):
                    what = 'the picture is initialised with size %r x %r' % (F.get((PIC, 'hmsize')), F.get((PIC, 'vsize')))
        except Finding as f:
            what = str(f)
        except PathEnd:
            what = 'an assert() fails'
        except Undecided as e:
            add('R-geometry', 'pic_alloc:' + inst, UNDECIDED, fn.loc, why=str(e))
            continue
        add('R-geometry', 'pic_alloc:' + inst, VIOLATED if what else HOLDS, fn.loc, **({'what': what} if what else {}))
    return n


# ---- sound: resize and plane_map ------------------------------------------------------------------------------

def snd_machine(prog, u, size, ss, nplanes):
    m = geo.Geo(prog, u)
    m.inline_prefix = ('ubuf_sound_common_',)
    CM = ('obj', 'cmgr')
    m.alias = {'ubuf_sound_common_mgr_from_ubuf_mgr': lambda x: CM, 'ubuf_sound_common_from_ubuf': lambda x: UB,
               'ubuf_sound_common_plane': lambda mgr, ch: ch[1] if isinstance(ch, tuple) else -1}
    F = m.F
    F[(UB, 'mgr')] = MGR
    F[(UB, 'size')] = size
    F[(UB, 'planes')] = ('p', 'cplanes', 0)
    for i in range(nplanes):
        F[(('el', 'cplanes', i), 'buffer')] = ('p', 'plane%d' % i, 0)
    F[(CM, 'sample_size')] = ss
    F[(CM, 'nb_planes')] = nplanes
    return m


def check_sound(rep, prog, tier, add):
    u = prog.units[SND_COMMON]
    fr = u.funcs.get('ubuf_sound_common_resize')
    fm = u.funcs.get('ubuf_sound_common_plane_map')
    if fr is None or fm is None:
        raise facts.AnalysisBroken('anchor vanished: ubuf_sound_common_resize / plane_map')
    n = 0
    N = 4
    for ss, nplanes in itertools.product((1, 3, 4), (1, 3)):
        for off in range(-N - 1, N + 3):
            for new in [-1] + list(range(0, N + 3)):
                n += 1
                inst = 'samples=%d,sample_size=%d,planes=%d:resize(%d,%d)' % (N, ss, nplanes, off, new)
                what = None
                try:
                    m = snd_machine(prog, u, N, ss, nplanes)
                    r = m.run(fr, [UB, off, new])
                    nm = norm1(off, new, N)
                    size = m.F[(UB, 'size')]
                    ptrs = [m.F[(('el', 'cplanes', i), 'buffer')][2] for i in range(nplanes)]
                    if r == 0:
                        if nm is None:
                            what = 'a resize out of range is accepted (size becomes %r)' % (size,)
                        elif size != nm[1] or any(p != nm[0] * ss for p in ptrs):
                            what = 'after the resize the buffer holds %r samples starting at octets %s of the planes, the reference %d samples at octet %d' % (
                                size, ptrs, nm[1], nm[0] * ss)
                    else:
                        if nm is not None:
                            what = 'a resize inside the buffer is refused (error %r)' % (r,)
                        elif size != N or any(ptrs):
                            what = 'a refused resize changed the buffer (size %r, planes at %s)' % (size, ptrs)
                except Finding as f:
                    what = str(f)
                except PathEnd:
                    what = 'an assert() fails'
                except Undecided as e:
                    add('R-geometry', 'sound:' + inst, UNDECIDED, fr.loc, why=str(e))
                    continue
                add('R-geometry', 'sound:' + inst, VIOLATED if what else HOLDS, fr.loc, **({'what': what} if what else {}))
                # plane_map with the same numbers
                n += 1
                inst2 = 'samples=%d,sample_size=%d,planes=%d:map(%d,%d)' % (N, ss, nplanes, off, new)
                what = None
                try:
                    m = snd_machine(prog, u, N, ss, nplanes)
                    pb, eb = m.outvar('buf', None)
                    r = m.run(fm, [UB, ('channel', nplanes - 1), off, new, pb])
                    nm = norm1(off, new, N)
                    if r == 0:
                        if nm is None:
                            what = 'a window out of range is accepted'
                        elif eb['buf'] != ('p', 'plane%d' % (nplanes - 1), nm[0] * ss):
                            what = 'the window starts at %r, the reference octet %d of the plane' % (eb['buf'], nm[0] * ss)
                    elif nm is not None:
                        what = 'a window inside the buffer is refused (error %r)' % (r,)
                except Finding as f:
                    what = str(f)
                except PathEnd:
                    what = 'an assert() fails'
                except Undecided as e:
                    add('R-geometry', 'sound:' + inst2, UNDECIDED, fm.loc, why=str(e))
                    continue
                add('R-geometry', 'sound:' + inst2, VIOLATED if what else HOLDS, fm.loc, **({'what': what} if what else {}))
    return n


def run_model(rep, prog, tier):
    for un in (PIC_COMMON, PIC_MEM, SND_COMMON):
        if un not in prog.units:
            raise facts.AnalysisBroken('anchor vanished: %s' % un)
    rep.rule('R-geometry', 'ubuf_pic_common_plane_map, ubuf_pic_common_resize, ubuf_pic_mem_alloc, ubuf_sound_common_resize and ubuf_sound_common_plane_map interpreted on every small '
             'configuration (macropixel 1-2; planes with hsub / vsub 1-2 - 4:4:0 included - and macropixel sizes 1, 2, 4; margins, alignment 0 / 16 with a '
             'column offset; 1 and 3 sound planes of 1-, 3- and 4-octet samples) and every offset / size in and just outside the range: a window is accepted '
             'iff it lies in the picture / buffer on the granularity, starts where the reference geometry says, ends inside the plane and stays in its line; '
             'an allocation gives every plane a stride of at least a line with its margins, planes that do not overlap, inside the area, aligned as asked; a picture resize moves the window inside the allocated area only and keeps prepend + size + append equal to what was allocated, in both directions; a '
             'sound resize moves every plane by offset x sample size and is refused, without effect, when out of range')
    seen = set()
    counts = {'n': 0}

    def add(rule, inst, status, loc, **detail):
        counts['n'] += 1
        if status == VIOLATED:
            key = (inst.split(':')[0], str(detail.get('what'))[:48])
            if key in seen:
                return
            seen.add(key)
        rep.add(rule, inst, status, loc, **detail)
    a = check_pic_map(rep, prog, tier, add)
    b = check_pic_alloc(rep, prog, tier, add)
    c = check_sound(rep, prog, tier, add)
    d = check_pic_resize(rep, prog, tier, add)
    rep.tables['R-geometry'] = {'plane_map_requests': a, 'allocations': b, 'sound_requests': c, 'pic_resize_requests': d}
    if counts['n'] < 2000:
        raise facts.AnalysisBroken('R-geometry covered only %d cases' % counts['n'])
