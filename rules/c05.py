"""C05 - in-thread pipes neither lose, duplicate nor reorder buffers.

R-own (shared), R-1to1, R-fifo, R-dup-all (DESIGN §4 C05)."""
import re

from upv import facts, control, own, ownrule
from upv import pathrules as pr
from upv.facts import strip, strip_all_casts, strip_expect, walk, is_assign, const_of, path_of
from upv.report import Report, HOLDS, VIOLATED, UNDECIDED, OOS
from rules.c20 import list_units
from rules import c01

PROP = 'C05'

# one-to-one pipes named by the property (anchors): unit -> reason if silent
# drops are part of the documented behaviour
ONE_TO_ONE = {
    'lib/upipe-modules/upipe_idem.c': None,
    'lib/upipe-modules/upipe_setattr.c': None,
    'lib/upipe-modules/upipe_setflowdef.c': None,
    'lib/upipe-modules/upipe_probe_uref.c': 'upipe_probe_uref.h: the probe may ask to drop the uref (UPROBE_PROBE_UREF, drop flag)',
    'lib/upipe-modules/upipe_skip.c': None,
    'lib/upipe-modules/upipe_htons.c': None,
    'lib/upipe-modules/upipe_delay.c': None,
    'lib/upipe-modules/upipe_match_attr.c': 'upipe_match_attr.h: urefs that do not match are dropped by design',
}
ANCHOR_UNITS = list(ONE_TO_ONE) + ['lib/upipe-modules/upipe_dup.c', 'lib/upipe-modules/upipe_null.c',
                                   'lib/upipe-modules/upipe_queue_sink.c']


# input functions that call their handler without testing check_input(),
# confirmed by reading: the handler refuses as a function of pipe state only
FIFO_EXCEPTIONS = {
    'upipe_stream_switcher_input_input':
        'upipe_stream_switcher_input_output() refuses (returns false) while the stream is not selected / waits for its switch point; that state only '
        'changes in upipe_stream_switcher_switch(), which drains the held urefs first (upipe_stream_switcher.c:380-440)',
    'upipe_trickp_sub_input':
        'the three branches test the pause / not-yet-started state explicitly; that state only changes in upipe_trickp_check_start / set_rate, '
        'which drain the held urefs with output_input (upipe_trickplay.c:219-227, 330-380)',
}


def check_1to1(rep, prog, W):
    rep.rule('R-1to1', 'input function of a one-to-one pipe: on every path that is not an allocation-failure path the input uref itself is '
             'handed to exactly one forwarding call (X_output / upipe_input); a path that frees it instead has thrown an event or logged a '
             'warning/error, or takes the failure branch of a fallible call (documented drop conditions listed)')
    inputs = ownrule.input_functions(prog)
    for uname, reason in sorted(ONE_TO_ONE.items()):
        u = prog.units.get(uname)
        if u is None:
            raise facts.AnalysisBroken('anchor vanished: %s' % uname)
        fns = sorted(inputs.get(uname, ()))
        if not fns:
            raise facts.AnalysisBroken('anchor vanished: no upipe_input slot in %s' % uname)
        for fname in fns:
            fn = u.funcs[fname]
            idx = [i for i, p in enumerate(fn.params) if p['t'] == 'struct uref *']
            res = W.explore(u, fn, owned_params=(idx[0],))
            if not res['decided']:
                rep.add('R-1to1', fname, UNDECIDED, fn.loc, why=res['undecided'][:2])
                continue
            bad = []
            for atom, how, af, line, err, trail, loud, nout in res['exit_how']:
                if af:
                    continue
                if how and own.FORWARD_RE.search(how):
                    if nout != 1:
                        bad.append(('forwards %d times' % nout, line, trail))
                elif atom == own.C:
                    if not (loud or err) and not reason:
                        bad.append(('input freed by %s on a silent path (no event, no failed call)' % how, line, trail))
                elif atom == own.K:
                    bad.append(('input kept (%s) instead of forwarded' % how, line, trail))
                elif atom == own.O:
                    pass   # leak: reported by R-own
                if nout > 1:
                    bad.append(('more than one forwarding call on one path', line, trail))
            if res['null_deliveries']:
                nd = sorted(res['null_deliveries'])[0]
                bad.append(('forwarding call %s receives a NULL %s on some path' % (nd[0], nd[1]), nd[2], nd[3]))
            if bad:
                seen = set()
                for what, line, trail in bad:
                    if what in seen:
                        continue
                    seen.add(what)
                    rep.add('R-1to1', '%s:%s' % (fname, what.split(' (')[0].replace(' ', '-')[:60]), VIOLATED, '%s:%s' % (fn.file, line),
                            what=what, path_blocks=list(trail))
            else:
                rep.add('R-1to1', fname, HOLDS, fn.loc, exits=len(res['exit_how']),
                        **({'documented_drop': reason} if reason else {}))


def check_fifo(rep, prog):
    rep.rule('R-fifo', 'every UPIPE_HELPER_INPUT instantiation: hold_input appends at the tail (ulist_add) and increments NB_UREFS; pop_input / '
             'output_input take from the head (ulist_pop) and decrement; a failed output re-inserts at the head (unshift) and returns; '
             'in the pipe\'s input function the handler is only called under X_check_input() (held buffers go first)')
    inputs = ownrule.input_functions(prog)
    handlers = ownrule.handler_functions(prog)
    for uname, u in sorted(prog.units.items()):
        insts = {}
        for fn in u.funcs.values():
            if fn.macro == 'UPIPE_HELPER_INPUT':
                m = re.match(r'(.+)_(hold_input|pop_input|unshift_input|output_input|check_input)$', fn.name)
                if m:
                    insts.setdefault(m.group(1), {})[m.group(2)] = fn
        for P, fs in sorted(insts.items()):
            why = []
            f = fs.get('hold_input')
            if f:
                ev = pr.Events(f)
                if not ev.find(pr.m_call('ulist_add')) or ev.find(pr.m_call('ulist_unshift')):
                    why.append('hold_input must append with ulist_add')
                if not ev.find(pr.m_incdec('NB_UREFS', '++')):
                    why.append('hold_input must increment NB_UREFS')
            f = fs.get('unshift_input')
            if f:
                ev = pr.Events(f)
                if not ev.find(pr.m_call('ulist_unshift')) or ev.find(pr.m_call('ulist_add')):
                    why.append('unshift_input must insert at the head with ulist_unshift')
                if not ev.find(pr.m_incdec('NB_UREFS', '++')):
                    why.append('unshift_input must increment NB_UREFS')
            f = fs.get('pop_input')
            if f:
                ev = pr.Events(f)
                if not ev.find(pr.m_call('ulist_pop')):
                    why.append('pop_input must take from the head with ulist_pop')
                if not ev.find(pr.m_incdec('NB_UREFS', '--')):
                    why.append('pop_input must decrement NB_UREFS')
            f = fs.get('output_input')
            if f:
                ev = pr.Events(f)
                if not ev.find(pr.m_call('ulist_pop')):
                    why.append('output_input must take from the head with ulist_pop')
                if not ev.find(pr.m_incdec('NB_UREFS', '--')):
                    why.append('output_input must decrement NB_UREFS')
                uns = pr.m_call(r'\w+_unshift_input')
                if not ev.find(uns):
                    why.append('output_input must put a refused uref back with unshift_input')
                elif pr.never_after(ev, uns, pr.m_call('ulist_pop')):
                    why.append('output_input keeps popping after a refused uref was put back')
            if why:
                rep.add('R-fifo', P + ':helper', VIOLATED, (fs.get('hold_input') or list(fs.values())[0]).loc, what='; '.join(why))
            else:
                rep.add('R-fifo', P + ':helper', HOLDS, (fs.get('hold_input') or list(fs.values())[0]).loc, functions=sorted(fs))
            # users: the input function(s) of this pipe type
            handler = None
            oi = fs.get('output_input')
            if oi:
                d = oi.local_defs().get('output')
                d = strip_all_casts(d) if isinstance(d, dict) else None
                if isinstance(d, dict) and d.get('k') == 'ref':
                    handler = d['n']
            if not handler or 'check_input' not in fs:
                continue
            for fname in sorted(inputs.get(uname, ())):
                if not fname.startswith(P):
                    continue
                fn = u.funcs.get(fname)
                if fn is None:
                    continue
                ev = pr.Events(fn)
                hc = ev.find(pr.m_call(re.escape(handler)))
                if not hc:
                    continue

                def checked(ctree, pol, fn=fn, P=P):
                    # nothing is held: check_input() is true, or output_input()
                    # has just delivered everything that was held
                    n, neg = strip_expect(fn.resolve(ctree))
                    return isinstance(n, dict) and n.get('k') == 'call' and \
                        n.get('fn') in (P + '_check_input', P + '_output_input') and pol != neg
                badc = [c for c in hc if not pr.control_dependent(fn, ev, c, checked)]
                inst = '%s:handler-under-check_input' % fname
                if badc and fname in FIFO_EXCEPTIONS:
                    rep.add('R-fifo', inst, OOS, fn.loc, why='listed exception: ' + FIFO_EXCEPTIONS[fname])
                elif badc:
                    rep.add('R-fifo', inst, VIOLATED, '%s:%s' % (fn.file, badc[0][2].get('l')),
                            what='%s is called at line %s without %s_check_input() having returned true: a new buffer can overtake the held ones' % (
                                handler, badc[0][2].get('l'), P))
                else:
                    rep.add('R-fifo', inst, HOLDS, fn.loc, handler=handler)


def check_dup(rep, prog, W):
    rep.rule('R-dup-all', 'upipe_dup_input: no forwarding call receives a NULL uref on any path (every output, the main one included, gets the '
             'buffer or a duplicate); the only return before the end of the function is on an allocation-failure path')
    u = prog.units.get('lib/upipe-modules/upipe_dup.c')
    fn = u.funcs.get('upipe_dup_input') if u else None
    if fn is None:
        raise facts.AnalysisBroken('anchor vanished: upipe_dup_input')
    res = W.explore(u, fn, owned_params=(1,))
    if not res['decided']:
        rep.add('R-dup-all', 'upipe_dup_input', UNDECIDED, fn.loc, why=res['undecided'][:2])
        return
    bad = []
    for name, var, line, trail in sorted(res['null_deliveries']):
        bad.append(('%s(%s) with %s == NULL' % (name, var, var), line, trail))
    for atom, how, af, line, err, trail, loud, nout in res['exit_how']:
        if not af and line != fn.j.get('endline'):
            bad.append(('early return on a non-failure path', line, trail))
    ev = pr.Events(fn)
    if not ev.find(pr.m_call('uref_dup')):
        bad.append(('no uref_dup: outputs would share one uref', fn.line, ()))
    if bad:
        seen = set()
        for what, line, trail in bad:
            if what in seen:
                continue
            seen.add(what)
            rep.add('R-dup-all', 'upipe_dup_input:%s' % what.replace(' ', '-')[:50], VIOLATED, '%s:%s' % (fn.file, line), what=what,
                    path_blocks=list(trail))
    else:
        rep.add('R-dup-all', 'upipe_dup_input', HOLDS, fn.loc, exits=len(res['exit_how']))


def run(tier='quick', repo=None):
    repo = repo or facts.REPO
    rep = Report(PROP, tier)
    rep.explanation = (
        'Decides, on all CFG paths: R-own for every input / handler function ("a handed-in buffer is, exactly once, forwarded, kept or '
        'freed"), R-1to1 for the one-to-one pipes the property names (the same uref forwarded exactly once on every silent path), R-fifo '
        'for every UPIPE_HELPER_INPUT instantiation and its users (tail insert, head removal, unshift on refusal, handler only under '
        'check_input), R-dup-all for upipe_dup_input. Does not decide what transformers do to payload bytes, attribute preservation '
        'beyond "same uref object", nor ordering through chains of pipes.')
    dirs = ['lib/upipe-modules'] if tier == 'quick' else ['lib/upipe-modules', 'lib/upipe-filters', 'lib/upipe-pthread']
    prog = c01.load(tier, repo, rep, quick=dirs, thorough=dirs)
    for a in ANCHOR_UNITS:
        if a not in prog.units:
            raise facts.AnalysisBroken('anchor vanished: %s' % a)
    W = ownrule.run_own(rep, prog, local_functions=(tier != 'quick'))
    check_1to1(rep, prog, W)
    check_fifo(rep, prog)
    check_dup(rep, prog, W)
    rep.assumptions = [
        'ownership contract of the public API as frozen in coverage.tables.consumer_table',
        'allocation-failure paths and failure branches of calls whose failure is not input dependent are out of scope',
    ]
    return rep
