"""C05 - in-thread pipes neither lose, duplicate nor reorder buffers.

R-own (shared), R-1to1, R-fifo, R-dup-all (DESIGN §4 C05)."""
import itertools
import re

from upv import facts, control, own, ownrule
from upv import pathrules as pr
from upv.facts import strip, strip_all_casts, strip_expect, walk, is_assign, const_of, path_of
from upv.report import Report, HOLDS, VIOLATED, UNDECIDED, OOS
from rules.c20 import list_units
from rules import c01

PROP = 'C05'

# one-to-one pipes named by the property (anchors): unit -> reason if silent
# drops are part of the documented behaviour
ONE_TO_ONE = {
    'lib/upipe-modules/upipe_idem.c': None,
    'lib/upipe-modules/upipe_setattr.c': None,
    'lib/upipe-modules/upipe_setflowdef.c': None,
    'lib/upipe-modules/upipe_probe_uref.c': 'upipe_probe_uref.h: the probe may ask to drop the uref (UPROBE_PROBE_UREF, drop flag)',
    'lib/upipe-modules/upipe_skip.c': None,
    'lib/upipe-modules/upipe_htons.c': None,
    'lib/upipe-modules/upipe_delay.c': None,
    'lib/upipe-modules/upipe_match_attr.c': 'upipe_match_attr.h: urefs that do not match are dropped by design',
}
# block operations whose failure depends on the length of the buffer they are applied to
RANGE_OP_RE = re.compile(r'^u(ref|buf)_block_(resize|delete|truncate|extract|peek|splice|insert|split)$')
ANCHOR_UNITS = list(ONE_TO_ONE) + ['lib/upipe-modules/upipe_dup.c', 'lib/upipe-modules/upipe_null.c',
                                   'lib/upipe-modules/upipe_queue_sink.c']


# input functions that call their handler without testing check_input(),
# confirmed by reading: the handler refuses as a function of pipe state only
FIFO_EXCEPTIONS = {
    'upipe_stream_switcher_input_input':
        'upipe_stream_switcher_input_output() refuses (returns false) while the stream is not selected / waits for its switch point; that state only '
        'changes in upipe_stream_switcher_switch(), which drains the held urefs first (upipe_stream_switcher.c:380-440)',
    'upipe_trickp_sub_input':
        'the three branches test the pause / not-yet-started state explicitly; that state only changes in upipe_trickp_check_start / set_rate, '
        'which drain the held urefs with output_input (upipe_trickplay.c:219-227, 330-380)',
}


def check_1to1(rep, prog, W):
    rep.rule('R-1to1', 'input function of a one-to-one pipe: on every path that is not an allocation-failure path the input uref itself is '
             'handed to exactly one forwarding call (X_output / upipe_input); a path that frees it instead has thrown an event or logged a '
             'warning/error, or takes the failure branch of a fallible call - but not when all that failed is a range operation on the input buffer itself (resize, delete, truncate, extract...), '
             'which makes the drop a function of the input (documented drop conditions listed)')
    inputs = ownrule.input_functions(prog)
    for uname, reason in sorted(ONE_TO_ONE.items()):
        u = prog.units.get(uname)
        if u is None:
            raise facts.AnalysisBroken('anchor vanished: %s' % uname)
        fns = sorted(inputs.get(uname, ()))
        if not fns:
            raise facts.AnalysisBroken('anchor vanished: no upipe_input slot in %s' % uname)
        for fname in fns:
            fn = u.funcs[fname]
            idx = [i for i, p in enumerate(fn.params) if p['t'] == 'struct uref *']
            res = W.explore(u, fn, owned_params=(idx[0],))
            if not res['decided']:
                rep.add('R-1to1', fname, UNDECIDED, fn.loc, why=res['undecided'][:2])
                continue
            bad = []
            for atom, how, af, line, err, trail, loud, nout in res['exit_how']:
                if af:
                    continue
                if how and own.FORWARD_RE.search(how):
                    if nout != 1:
                        bad.append(('forwards %d times' % nout, line, trail))
                elif atom == own.C:
                    if not (loud or err) and not reason:
                        bad.append(('input freed by %s on a silent path (no event, no failed call)' % how, line, trail))
                    elif err and not reason and all(RANGE_OP_RE.match(e) for e in err):
                        # the only thing that failed is a range operation on the input itself (a buffer shorter than
                        # what the pipe wants to cut): that is a property of the input, not a failure of
                        # the system, and a one-to-one pipe documented without drop conditions forwards such a buffer
                        bad.append(('input freed by %s because %s refused this particular buffer: dropped instead of forwarded' % (how, ', '.join(sorted(err))), line, trail))
                elif atom == own.K:
                    bad.append(('input kept (%s) instead of forwarded' % how, line, trail))
                elif atom == own.O:
                    pass   # leak: reported by R-own
                if nout > 1:
                    bad.append(('more than one forwarding call on one path', line, trail))
            if res['null_deliveries']:
                nd = sorted(res['null_deliveries'])[0]
                bad.append(('forwarding call %s receives a NULL %s on some path' % (nd[0], nd[1]), nd[2], nd[3]))
            if bad:
                seen = set()
                for what, line, trail in bad:
                    if what in seen:
                        continue
                    seen.add(what)
                    rep.add('R-1to1', '%s:%s' % (fname, what.split(' (')[0].replace(' ', '-')[:60]), VIOLATED, '%s:%s' % (fn.file, line),
                            what=what, path_blocks=list(trail))
            else:
                rep.add('R-1to1', fname, HOLDS, fn.loc, exits=len(res['exit_how']),
                        **({'documented_drop': reason} if reason else {}))


def check_fifo(rep, prog):
    rep.rule('R-fifo', 'every UPIPE_HELPER_INPUT instantiation: hold_input appends at the tail (ulist_add) and increments NB_UREFS; pop_input / '
             'output_input take from the head (ulist_pop) and decrement; a failed output re-inserts at the head (unshift) and returns; flush_input frees what is held unless the list is empty (check_input), whatever the blocking threshold; '
             'in every function of the pipe that calls the handler directly (the input function, control functions) the call is under X_check_input() or after X_output_input() (held buffers go first)')
    inputs = ownrule.input_functions(prog)
    handlers = ownrule.handler_functions(prog)
    for uname, u in sorted(prog.units.items()):
        insts = {}
        for fn in u.funcs.values():
            if fn.macro == 'UPIPE_HELPER_INPUT':
                m = re.match(r'(.+)_(hold_input|pop_input|unshift_input|output_input|check_input|flush_input)$', fn.name)
                if m:
                    insts.setdefault(m.group(1), {})[m.group(2)] = fn
        for P, fs in sorted(insts.items()):
            why = []
            f = fs.get('hold_input')
            if f:
                ev = pr.Events(f)
                if not ev.find(pr.m_call('ulist_add')) or ev.find(pr.m_call('ulist_unshift')):
                    why.append('hold_input must append with ulist_add')
                if not ev.find(pr.m_incdec('NB_UREFS', '++')):
                    why.append('hold_input must increment NB_UREFS')
            f = fs.get('unshift_input')
            if f:
                ev = pr.Events(f)
                if not ev.find(pr.m_call('ulist_unshift')) or ev.find(pr.m_call('ulist_add')):
                    why.append('unshift_input must insert at the head with ulist_unshift')
                if not ev.find(pr.m_incdec('NB_UREFS', '++')):
                    why.append('unshift_input must increment NB_UREFS')
            f = fs.get('pop_input')
            if f:
                ev = pr.Events(f)
                if not ev.find(pr.m_call('ulist_pop')):
                    why.append('pop_input must take from the head with ulist_pop')
                if not ev.find(pr.m_incdec('NB_UREFS', '--')):
                    why.append('pop_input must decrement NB_UREFS')
            f = fs.get('output_input')
            if f:
                ev = pr.Events(f)
                if not ev.find(pr.m_call('ulist_pop')):
                    why.append('output_input must take from the head with ulist_pop')
                if not ev.find(pr.m_incdec('NB_UREFS', '--')):
                    why.append('output_input must decrement NB_UREFS')
                uns = pr.m_call(r'\w+_unshift_input')
                if not ev.find(uns):
                    why.append('output_input must put a refused uref back with unshift_input')
                elif pr.never_after(ev, uns, pr.m_call('ulist_pop')):
                    why.append('output_input keeps popping after a refused uref was put back')
            f = fs.get('flush_input')
            if f:
                ev = pr.Events(f)
                # "nothing to flush" is decided by the list being empty (check_input), not by the blocking threshold: with a
                # max length > 0 up to that many buffers are held without blocking, and a flush must free them too
                def empty(ctree, pol, f=f, P=P):
                    n_, neg = strip_expect(f.resolve(ctree))
                    return isinstance(n_, dict) and n_.get('k') == 'call' and n_.get('fn') == P + '_check_input' and pol != neg
                cleans = ev.find(pr.m_call(r'\w+_clean_input'))
                if not cleans:
                    why.append('flush_input must free what is held (clean_input)')
                for r_ in ev.find(pr.m_return()):
                    hits_, _ = ev.reach(None, lambda n_, r_=r_: n_ is r_[2], pr.m_call(r'\w+_clean_input'), from_entry=True)
                    if hits_ and not pr.control_dependent(f, ev, r_, empty):
                        why.append('flush_input returns without freeing the held buffers on a path that has not found the list empty (check_input)')
            if why:
                rep.add('R-fifo', P + ':helper', VIOLATED, (fs.get('hold_input') or list(fs.values())[0]).loc, what='; '.join(why))
            else:
                rep.add('R-fifo', P + ':helper', HOLDS, (fs.get('hold_input') or list(fs.values())[0]).loc, functions=sorted(fs))
            # users: the input function(s) of this pipe type
            handler = None
            oi = fs.get('output_input')
            if oi:
                d = oi.local_defs().get('output')
                d = strip_all_casts(d) if isinstance(d, dict) else None
                if isinstance(d, dict) and d.get('k') == 'ref':
                    handler = d['n']
            if not handler or 'check_input' not in fs:
                continue
            # every function of the unit that calls the handler directly (the
            # input function, but also a control function that would feed the
            # handler behind the back of the held list)
            callers = set(f for f in inputs.get(uname, ()) if f.startswith(P))
            for f2 in u.funcs.values():
                if f2.macro != 'UPIPE_HELPER_INPUT' and f2.blocks and f2.name != handler and \
                        any(c[2].get('fn') == handler for c in f2.calls()):
                    callers.add(f2.name)
            for fname in sorted(callers):
                fn = u.funcs.get(fname)
                if fn is None:
                    continue
                ev = pr.Events(fn)
                hc = ev.find(pr.m_call(re.escape(handler)))
                if not hc:
                    continue

                def checked(ctree, pol, fn=fn, P=P):
                    # nothing is held: check_input() is true, or output_input()
                    # has just delivered everything that was held
                    n, neg = strip_expect(fn.resolve(ctree))
                    return isinstance(n, dict) and n.get('k') == 'call' and \
                        n.get('fn') in (P + '_check_input', P + '_output_input') and pol != neg
                badc = [c for c in hc if not pr.control_dependent(fn, ev, c, checked)]
                inst = '%s:handler-under-check_input' % fname
                if badc and fname in FIFO_EXCEPTIONS:
                    rep.add('R-fifo', inst, OOS, fn.loc, why='listed exception: ' + FIFO_EXCEPTIONS[fname])
                elif badc:
                    rep.add('R-fifo', inst, VIOLATED, '%s:%s' % (fn.file, badc[0][2].get('l')),
                            what='%s is called at line %s without %s_check_input() having returned true: a new buffer can overtake the held ones' % (
                                handler, badc[0][2].get('l'), P))
                else:
                    rep.add('R-fifo', inst, HOLDS, fn.loc, handler=handler)



# calls through which a one-to-one pipe may act on its input buffer (anything
# that is not a pure reader), frozen from the documented behaviour of each pipe
PURE_RE = re.compile(r'(_get_|_match_|_cmp_|_size$|_peek|_read$|_unmap$|_dump|^ubase_check$|^upipe_(verbose|dbg|notice|info|warn|err)(_va)?$)')
TOUCH = {
    'lib/upipe-modules/upipe_idem.c': set(),
    'lib/upipe-modules/upipe_setflowdef.c': set(),
    'lib/upipe-modules/upipe_setattr.c': {'udict_alloc', 'udict_set', 'udict_iterate', 'store:uref->udict'},
    'lib/upipe-modules/upipe_probe_uref.c': {'upipe_throw'},
    'lib/upipe-modules/upipe_skip.c': {'uref_block_resize'},
    'lib/upipe-modules/upipe_htons.c': {'uref_block_write', 'ubuf_block_copy', 'uref_attach_ubuf'},
    'lib/upipe-modules/upipe_delay.c': {'uref_clock_add_date_sys', 'uref_clock_add_date_prog', 'uref_clock_add_date_orig'},
    'lib/upipe-modules/upipe_match_attr.c': {'indirect:match_uint8_t', 'indirect:match_uint64_t'},
}


def check_touch(rep, prog):
    rep.rule('R-touch', 'input function of a one-to-one pipe (and the local functions it hands the buffer to): every call that receives the input '
             'uref (or its dictionary / buffer) and every store through it is a pure reader, the output / free call, or one of the operations '
             'the pipe is documented to perform (table `documented_effects`)')
    inputs = ownrule.input_functions(prog)
    rep.tables['documented_effects'] = {k: sorted(v) for k, v in TOUCH.items()}
    for uname, allowed in sorted(TOUCH.items()):
        u = prog.units.get(uname)
        if u is None:
            raise facts.AnalysisBroken('anchor vanished: %s' % uname)
        todo = [(f, None) for f in sorted(inputs.get(uname, ()))]
        if not todo:
            raise facts.AnalysisBroken('anchor vanished: no upipe_input slot in %s' % uname)
        seen, bad, nsites = set(), [], 0
        while todo:
            fname, pidx = todo.pop()
            fn = u.funcs.get(fname)
            if fn is None or not fn.blocks or (fname, pidx) in seen:
                continue
            seen.add((fname, pidx))
            if fn.macro and fn.macro.startswith('UPIPE_HELPER_'):
                continue           # X_output and friends: the helper's business (R-own, C04)
            if pidx is None:
                idx = [i for i, p in enumerate(fn.params) if p['t'] == 'struct uref *']
                if not idx:
                    continue
                pidx = idx[0]
            pname = fn.params[pidx]['n']

            def through(n, pname=pname):
                r = facts.root_of(n)
                return isinstance(r, dict) and r.get('k') == 'ref' and r.get('n') == pname
            for bid, st, x in fn.nodes():
                if x.get('k') == 'call':
                    args = x.get('args', [])
                    hit = [i for i, a in enumerate(args) if through(a)]
                    if not hit:
                        continue
                    nsites += 1
                    name = x.get('fn')
                    if name is None:
                        pth = path_of(x.get('callee')) or '?'
                        name = 'indirect:' + pth.split('->')[-1].split('.')[-1]
                    if name in ('uref_free',) or own.FORWARD_RE.search(name) or PURE_RE.search(name) or name in allowed:
                        continue
                    callee = u.funcs.get(name)
                    if callee is not None and callee.blocks and not (callee.macro or '').startswith('UPIPE_HELPER_'):
                        todo.append((name, hit[0]))
                        continue
                    if callee is not None and (callee.macro or '').startswith('UPIPE_HELPER_'):
                        continue
                    bad.append((name, x.get('l'), fname))
                elif is_assign(x) or facts.is_incdec(x):
                    lhs = x.get('lhs') if is_assign(x) else x.get('e')
                    l = strip(lhs)
                    if isinstance(l, dict) and l.get('k') in ('mem', 'un', 'idx') and through(l):
                        nsites += 1
                        key = 'store:' + (path_of(l) or '?').replace(pname, 'uref', 1)
                        if key not in allowed:
                            bad.append((key, x.get('l'), fname))
        if bad:
            for name, line, fname in sorted(set(bad)):
                rep.add('R-touch', '%s:%s' % (fname, name), VIOLATED, '%s:%s' % (uname, line),
                        what='%s applies %s to its input buffer (line %s); the documented effects of this pipe are: %s' % (
                            fname, name, line, ', '.join(sorted(allowed)) or 'none (the buffer is forwarded untouched)'))
        else:
            rep.add('R-touch', uname.split('/')[-1], HOLDS, uname, sites=nsites, functions=sorted(f for f, _ in seen))


def swap16(tokens):
    out = list(tokens)
    for i in range(0, len(out) - 1, 2):
        out[i], out[i + 1] = out[i + 1], out[i]
    return out


def compositions(n, maxparts=3):
    if n == 0:
        yield []
        return
    for k in range(1, maxparts + 1):
        for cuts in itertools.combinations(range(1, n), k - 1):
            b = [0] + list(cuts) + [n]
            yield [b[i + 1] - b[i] for i in range(k)]


def check_payload(rep, prog):
    """htons and skip: the payload transformation itself, by interpreting the
    input function on ghost buffers of every small size and segmentation"""
    from upv import ghost, absint
    rep.rule('R-payload', 'upipe_htons_input / upipe_skip_input interpreted on ghost block buffers (octets are symbolic tokens compared by identity) '
             'of every size 0..6, every segmentation into at most 3 segments, first segment writable or shared, mapping aligned or not: exactly one '
             'output per input, the same uref, whose payload is the input with each pair of octets swapped (htons) / without its first `offset` '
             'octets (skip, offsets 0..size+1); nothing leaked, no access outside a mapped window')
    nruns = 0
    for uname, fname, rec in (('lib/upipe-modules/upipe_htons.c', 'upipe_htons_input', 'upipe_htons'),
                              ('lib/upipe-modules/upipe_skip.c', 'upipe_skip_input', 'upipe_skip')):
        u = prog.units.get(uname)
        fn = u.funcs.get(fname) if u else None
        if fn is None:
            raise facts.AnalysisBroken('anchor vanished: %s' % fname)
        outname = rec + '_output'
        for size in range(0, 7):
            toks = [('b', 'o%d' % i) for i in range(size)]
            for segs in compositions(size):
                for shared in ((False, True) if fname == 'upipe_htons_input' else (False,)):
                    offsets = [0] if fname == 'upipe_htons_input' else list(range(0, size + 2))
                    for off in offsets:
                        inst = '%s:size=%d,segs=%s,shared=%d,offset=%d' % (fname, size, '+'.join(map(str, segs)) or '-', shared, off)

                        def mk(toks=toks, segs=segs, shared=shared, off=off):
                            m = ghost.BlockMachine(prog, u, rec, {'offset': off})
                            m.output_fns = {outname}
                            m.token_values = True
                            m.in_uref = m.new_uref(toks)
                            b = m.bufs[m.urefs[m.in_uref[1]].ubuf]
                            b.segs = list(segs) if len(segs) > 1 else None
                            b.shared = shared
                            return m
                        verdict, detail = HOLDS, {}
                        for m, out in absint.explore(mk, fn, lambda m: [('obj', 'pipe'), m.in_uref, ('null',)], max_scripts=64):
                            nruns += 1
                            what = None
                            if out[0] == 'finding':
                                what = str(out[1])
                            elif out[0] == 'undecided':
                                verdict, detail = UNDECIDED, {'why': out[1]}
                                break
                            elif out[0] == 'ok':
                                outs = [e for e in m.events if e[0] == 'output']
                                inu = m.urefs[m.in_uref[1]]
                                loud = any(e[0] in ('log', 'throw') for e in m.events)
                                lu, lb = m.leaked()
                                if lu or lb:
                                    what = 'leak: urefs %s buffers %s' % (lu, lb)
                                elif not outs:
                                    if not loud:
                                        what = 'the input is dropped silently'
                                elif len(outs) != 1 or outs[0][1] != inu.id:
                                    what = 'not exactly one output of the input uref (outputs: %s)' % [o[1] for o in outs]
                                else:
                                    data = outs[0][2]
                                    if fname == 'upipe_htons_input':
                                        want = swap16(toks)
                                    else:
                                        want = toks[off:] if off <= size else toks
                                    if data != want:
                                        what = 'payload output is %s, expected %s' % (
                                            ' '.join(t[1] if isinstance(t, tuple) else str(t) for t in (data or [])),
                                            ' '.join(t[1] for t in want))
                            if what:
                                verdict, detail = VIOLATED, {'what': what, 'script': list(m.choices)}
                                break
                        rep.add('R-payload', inst, verdict, fn.loc, **detail)
    rep.tables['R-payload'] = {'abstract_runs': nruns}


def check_dup(rep, prog, W):
    rep.rule('R-dup-all', 'upipe_dup_input: no forwarding call receives a NULL uref on any path (every output, the main one included, gets the '
             'buffer or a duplicate); the only return before the end of the function is on an allocation-failure path')
    u = prog.units.get('lib/upipe-modules/upipe_dup.c')
    fn = u.funcs.get('upipe_dup_input') if u else None
    if fn is None:
        raise facts.AnalysisBroken('anchor vanished: upipe_dup_input')
    res = W.explore(u, fn, owned_params=(1,))
    if not res['decided']:
        rep.add('R-dup-all', 'upipe_dup_input', UNDECIDED, fn.loc, why=res['undecided'][:2])
        return
    bad = []
    for name, var, line, trail in sorted(res['null_deliveries']):
        bad.append(('%s(%s) with %s == NULL' % (name, var, var), line, trail))
    for atom, how, af, line, err, trail, loud, nout in res['exit_how']:
        if not af and line != fn.j.get('endline'):
            bad.append(('early return on a non-failure path', line, trail))
    ev = pr.Events(fn)
    if not ev.find(pr.m_call('uref_dup')):
        bad.append(('no uref_dup: outputs would share one uref', fn.line, ()))
    if bad:
        seen = set()
        for what, line, trail in bad:
            if what in seen:
                continue
            seen.add(what)
            rep.add('R-dup-all', 'upipe_dup_input:%s' % what.replace(' ', '-')[:50], VIOLATED, '%s:%s' % (fn.file, line), what=what,
                    path_blocks=list(trail))
    else:
        rep.add('R-dup-all', 'upipe_dup_input', HOLDS, fn.loc, exits=len(res['exit_how']))


def check_need_output(rep, prog):
    """nothing is withheld from an output for the reason that no pipe is plugged there yet"""
    from upv.facts import walk
    rep.rule('R-need-output', 'no delivery through the output helper (a call of the X_output generated by UPIPE_HELPER_OUTPUT) is control-dependent on a test of the '
             'helper\'s own output field: with nothing plugged the helper throws need_output, which is how an application plugs an output lazily; code that skips '
             'the call when the field is NULL never asks, and that output receives nothing (unanimous in the tree: 0 of ~380 deliveries are guarded that way)')
    n = 0
    for uname, u in sorted(prog.units.items()):
        for fn in sorted(u.funcs.values(), key=lambda f: f.name):
            if not fn.blocks or fn.macro:
                continue
            ev = pr.Events(fn)
            outs = [p_ for p_ in ev.find(pr.m_call(r'\w+_output$'))
                    if u.funcs.get(p_[2]['fn']) is not None and u.funcs[p_[2]['fn']].macro == 'UPIPE_HELPER_OUTPUT']
            if not outs:
                continue

            def tests_output(ctree, pol, fn=fn):
                return any(x.get('k') == 'mem' and x.get('f') == 'output' and x.get('t') == 'struct upipe *' for x in walk(fn.resolve(ctree)))
            for o in outs:
                n += 1
                if pr.control_dependent(fn, ev, o, tests_output):
                    rep.add('R-need-output', '%s:%s@%s' % (fn.name, o[2]['fn'], o[2].get('l')), VIOLATED, '%s:%s' % (fn.file, o[2].get('l')),
                            what='%s delivers through %s (line %s) only when the output field is set: an output with nothing plugged yet is skipped instead of '
                                 'being asked for (need_output is never thrown), and misses every buffer' % (fn.name, o[2]['fn'], o[2].get('l')))
    rep.add('R-need-output', 'all-units', HOLDS, '', deliveries=n)
    if n < 100:
        raise facts.AnalysisBroken('R-need-output found only %d deliveries through the output helper' % n)


def run(tier='quick', repo=None):
    repo = repo or facts.REPO
    rep = Report(PROP, tier)
    rep.explanation = (
        'Decides, on all CFG paths: R-own for every input / handler function ("a handed-in buffer is, exactly once, forwarded, kept or '
        'freed"), R-1to1 for the one-to-one pipes the property names (the same uref forwarded exactly once on every silent path), R-fifo '
        'for every UPIPE_HELPER_INPUT instantiation and its users (tail insert, head removal, unshift on refusal, handler only under '
        'check_input), R-dup-all for upipe_dup_input. Does not decide what transformers do to payload bytes, attribute preservation '
        'beyond "same uref object", nor ordering through chains of pipes.')
    dirs = ['lib/upipe-modules'] if tier == 'quick' else ['lib/upipe-modules', 'lib/upipe-filters', 'lib/upipe-pthread']
    prog = c01.load(tier, repo, rep, quick=dirs, thorough=dirs)
    for a in ANCHOR_UNITS:
        if a not in prog.units:
            raise facts.AnalysisBroken('anchor vanished: %s' % a)
    W = ownrule.run_own(rep, prog, local_functions=(tier != 'quick'))
    check_1to1(rep, prog, W)
    check_fifo(rep, prog)
    check_dup(rep, prog, W)
    check_need_output(rep, prog)
    check_touch(rep, prog)
    check_payload(rep, prog)
    rep.assumptions = [
        'ownership contract of the public API as frozen in coverage.tables.consumer_table',
        'allocation-failure paths and failure branches of calls whose failure is not input dependent are out of scope',
    ]
    return rep
