"""C20 - getters report what setters stored and do not change the pipe.

R-get-pure, R-getset-agree, R-set-atomic on the per-command slices of every
control function installed in an upipe_mgr slot (DESIGN §4 C20)."""
import glob
import os

import re
from upv import facts, effects, control
from upv.facts import strip, strip_all_casts, walk, is_assign, const_of, enum_name, path_of
from upv.report import Report, HOLDS, VIOLATED, UNDECIDED, OOS

PROP = 'C20'

QUICK_DIRS = ['lib/upipe-modules']
THOROUGH_DIRS = ['lib/upipe-modules', 'lib/upipe-filters', 'lib/upipe-pthread', 'lib/upipe']
STUB_DIRS = ['lib/upipe-ts', 'lib/upipe-framers']

# anchors named by the property: their control function must be found
ANCHORS = {
    'lib/upipe-modules/upipe_skip.c': 'upipe_skip_control',
    'lib/upipe-modules/upipe_aggregate.c': 'upipe_agg_control',
    'lib/upipe-modules/upipe_chunk_stream.c': 'upipe_chunk_stream_control',
    'lib/upipe-modules/upipe_delay.c': 'upipe_delay_control',
    'lib/upipe-modules/upipe_time_limit.c': 'upipe_time_limit_control',
    'lib/upipe-modules/upipe_setattr.c': 'upipe_setattr_control',
    'lib/upipe-modules/upipe_setflowdef.c': 'upipe_setflowdef_control',
    'lib/upipe-modules/upipe_queue_sink.c': 'upipe_qsink_control',
    'lib/upipe-modules/upipe_queue_source.c': 'upipe_qsrc_control',
    'lib/upipe-modules/upipe_genaux.c': 'upipe_genaux_control',
    'lib/upipe-modules/upipe_buffer.c': 'upipe_buffer_control',
    'lib/upipe-modules/upipe_rate_limit.c': 'upipe_rate_limit_control',
}


def list_units(repo, dirs):
    out = []
    for d in dirs:
        out += sorted(os.path.relpath(p, repo) for p in glob.glob(os.path.join(repo, d, '*.c')))
    return out


# command names that look like a pair but are documented not to be one
NOT_A_PAIR = {
    'UPIPE_GET_FLOW_DEF': 'upipe.h: GET_FLOW_DEF reads the *output* flow definition, SET_FLOW_DEF sets the *input* one',
}


# getters whose slice has an effect that does not alter what the pipe does
# next, confirmed by reading: (function holding the store, record, reason)
GET_EXCEPTIONS = {
    'upipe_ts_decaps_control': [('upipe_ts_decaps_control', 'lost',
                                'UPIPE_TS_DECAPS_GET_PACKETS_LOST is documented as read-and-reset ("packets lost since the last call ... the counter is reset '
                                'to 0 each time", upipe_ts_decaps.h:44-46); `lost` is a statistic that is only ever added to and reported, it does not steer '
                                'what the pipe does next, and it has no setter')],
    'upipe_seg_src_control': [('upipe_seg_src_check_src', None,
                              'upipe_seg_src_check_src() lazily creates the inner source pipe the command is forwarded to, for setters and getters '
                              'alike; it does nothing once the inner pipe exists (upipe_segment_source.c:258-276)')],
}


def fnmatch(cf, e):
    """the effect happens inside (a callee of) the excepted function"""
    if cf[1] is not None and e.field != cf[1]:
        return False
    return e.fn == cf[0] or any(v.split(':')[0] == cf[0] for v in e.via)


def is_getter(name):
    return '_GET_' in name


def setter_of(name):
    return name.replace('_GET_', '_SET_', 1)


def dispatch_skip(fn):
    ci = control.command_param(fn)
    return lambda c: any(control.is_param_ref(a, fn, ci) for a in c.get('args', []))


BRACKET_FNS = ('uatomic_fetch_add', 'uatomic_fetch_sub', 'urefcount_use', 'urefcount_release')


def control_bracket(e):
    """the use/release pair that upipe_control() puts around the handler of
    the pipe it is applied to: balanced (C01 R-core checks the bracket), it
    leaves the count as it found it"""
    return e.fn in BRACKET_FNS and any(v.split(':')[0] in ('upipe_control_nodbg_va', 'upipe_control_va', 'upipe_control', 'upipe_use', 'upipe_release')
                                       for v in e.via) and any(v.split(':')[0].startswith('upipe_control') for v in e.via)


def private_origin(e):
    """an effect that changes the pipe: memory reached from the pipe argument
    (parameter 0 of a control function) or a global"""
    return e.origin[0] in ('param', 'global') and (e.origin[0] != 'param' or e.origin[1] == 0)


def getter_out_fields(E, fn, blocks, depth=0):
    """[(rec, field, direct?)] for stores through va_arg out-pointers in the
    slice, following helper calls that receive the out-pointer"""
    out = []
    org = E.var_origins(fn.unit, fn)
    ldefs = fn.local_defs()

    def fields_of(rhs):
        r = strip_all_casts(fn.resolve(rhs))
        if isinstance(r, dict) and r.get('k') == 'ref' and r.get('d') == 'local' and r['n'] in ldefs:
            r = strip_all_casts(ldefs[r['n']])
        if isinstance(r, dict) and r.get('k') == 'mem' and r.get('rec'):
            return [(r['rec'], r['f'], True)]
        fs = [(x['rec'], x['f'], False) for x in walk(r) if x.get('k') == 'mem' and x.get('rec')] if isinstance(r, dict) else []
        return fs or [(None, None, False)]

    for bid in blocks:
        for s in fn.stmts(bid):
            for x in walk(s):
                if is_assign(x) and x['op'] == '=':
                    l = strip(x['lhs'])
                    if isinstance(l, dict) and l.get('k') == 'un' and l.get('op') == '*':
                        o = E.origin(fn.unit, fn, l['e'], org)
                        if o and all(a[0] in ('vaarg',) or (depth > 0 and a[0] == 'param' and a[1] > 0) for a in o):
                            out += fields_of(x['rhs'])
                elif x.get('k') == 'call' and x.get('fn') and depth < 3:
                    callee = E.prog.lookup(fn.unit, x['fn'])
                    if callee is None:
                        continue
                    # does an out pointer flow into the call?
                    passes = False
                    for a in x.get('args', [])[1:]:
                        o = E.origin(fn.unit, fn, a, org)
                        if o and all(t[0] == 'vaarg' or (depth > 0 and t[0] == 'param' and t[1] > 0) for t in o) and '*' in (strip(a).get('t') or ''):
                            passes = True
                    if passes:
                        out += getter_out_fields(E, callee, set(callee.blocks), depth + 1)
    return out


SET_EXCLUSIVE_OK = {
    # (setter command, (record, field)): reason - opening a resource by name is the other way of giving the pipe its descriptor, and starts a new resource
    ('UPIPE_FSINK_SET_PATH', ('upipe_fsink', 'fd')): 'set_path opens the file: the descriptor it obtains replaces one given with set_fd (two ways of naming the same resource)',
    ('UPIPE_SET_URI', ('upipe_udpsink', 'fd')): 'set_uri opens the socket: the descriptor it obtains replaces one given with set_fd',
    ('UPIPE_SET_URI', ('upipe_udpsrc', 'fd')): 'set_uri opens the socket: the descriptor it obtains replaces one given with set_fd',
    ('UPIPE_SET_URI', ('upipe_fsrc', 'length')): 'set_uri opens another file: the range asked for the previous one does not carry over (upipe.h: the range applies to the current URI)',
    ('UPIPE_SET_URI', ('upipe_http_src', 'position')): 'set_uri starts another transfer: the position restarts with it',
}


def _va_args_in(fn, x):
    """va_arg nodes under the arguments of the call x (nested calls are sequence points of their own, not entered)"""
    from upv.facts import children
    out, st = [], list(x.get('args', []))
    while st:
        n = st.pop()
        if not isinstance(n, dict):
            continue
        if n.get('k') == 'va_arg':
            out.append(n)
            continue
        if n.get('k') == 'call':
            continue
        st.extend(children(n))
    return out


def check_va_seq(rep, prog):
    """the arguments of a command are read from the list in the order they were pushed"""
    rep.rule('R-va-seq', 'no call has two va_arg() reads among its own arguments: the order in which the arguments of a call are evaluated is unspecified, so which '
             'pointer receives which value (or which value lands in which parameter of the setter) is up to the compiler - on x86-64 gcc evaluates right to '
             'left and the two are swapped. Contradiction rule over every function of every unit parsed (expected count 0; the matcher is exercised on a '
             'synthetic call on every run)')
    probe = {'k': 'call', 'fn': 'f', 'args': [{'k': 'va_arg', 'e': {}}, {'k': 'cast', 'e': {'k': 'va_arg', 'e': {}}}]}
    if len(_va_args_in(None, probe)) != 2:
        raise facts.AnalysisBroken('R-va-seq: the matcher no longer recognises its positive example')
    ncalls = 0
    units = list(prog.units.values()) + ([prog.hdr] if prog.hdr else [])
    for u in units:
        for fn in sorted(u.funcs.values(), key=lambda f: f.name):
            if not fn.blocks or not any('va_list' in p_['t'] for p_ in fn.params):
                continue
            for _, _, x in fn.nodes():
                if x.get('k') != 'call':
                    continue
                vas = _va_args_in(fn, x)
                if vas:
                    ncalls += 1
                if len(vas) >= 2:
                    rep.add('R-va-seq', '%s:%s' % (fn.name, x.get('fn')), VIOLATED, '%s:%s' % (fn.file, x.get('l')),
                            what='%s reads %d arguments with va_arg() inside the argument list of one call to %s (line %s): their order of evaluation is '
                                 'unspecified, the values reach the wrong parameters with a compiler that evaluates right to left' % (
                                     fn.name, len(vas), x.get('fn'), x.get('l')))
    rep.add('R-va-seq', 'all-units', HOLDS, '', calls_with_one_va_arg=ncalls)
    return ncalls


def check_va_forward(rep, prog):
    """an argument list that has been read is not handed to another pipe as if it were fresh"""
    rep.rule('R-va-forward', 'in every function receiving a va_list: once va_arg() has read from the list, the list itself is not passed to upipe_control_va / '
             'upipe_mgr_control_va - the public entry points that expect the complete arguments of the command, signature first. The receiving pipe would read '
             'whatever follows as signature and value: the command fails or sets garbage after the forwarding pipe has already taken the value (a refused '
             'setter that changed the option). Forwarding to a function of the same unit, which knows what was consumed, is not an instance. Contradiction rule, '
             'expected count 0; the matcher is exercised on a synthetic function shape on every run')
    from upv import pathrules as pr
    FRESH = ('upipe_control_va', 'upipe_mgr_control_va')
    n = 0
    units = list(prog.units.values()) + ([prog.hdr] if prog.hdr else [])
    for u in units:
        for fn in sorted(u.funcs.values(), key=lambda f: f.name):
            if not fn.blocks:
                continue
            vl = [p_['n'] for p_ in fn.params if 'va_list' in p_['t']]
            if not vl:
                continue
            L = vl[0]

            def is_read(n_, L=L):
                if n_.get('k') != 'va_arg':
                    return False
                e = strip_all_casts(n_.get('e'))
                return isinstance(e, dict) and e.get('k') == 'ref' and e.get('n') == L

            def fwd(n_, L=L):
                if n_.get('k') != 'call' or n_.get('fn') not in FRESH:
                    return False
                return any(isinstance(strip_all_casts(a), dict) and strip_all_casts(a).get('k') == 'ref' and strip_all_casts(a).get('n') == L for a in n_.get('args', []))
            ev = pr.Events(fn)
            fw = ev.find(fwd)
            if not fw:
                continue
            n += len(fw)
            bad = {}
            for pos in ev.find(is_read):
                hits, _ = ev.reach((pos[0], pos[1]), fwd, lambda n_: False)
                for h in hits:
                    bad.setdefault(h[2].get('l'), (pos[2].get('l'), h[2]))
            for line, (rl, call) in sorted(bad.items()):
                rep.add('R-va-forward', '%s:%s@%s' % (fn.name, call.get('fn'), line), VIOLATED, '%s:%s' % (fn.file, line),
                        what='%s reads an argument with va_arg() (line %s) and then passes the same list to %s (line %s), which expects the arguments of the '
                             'command from the start: the inner pipe reads past what the caller supplied' % (fn.name, rl, call.get('fn'), line))
    rep.add('R-va-forward', 'all-units', HOLDS, '', forwarding_calls=n)
    if n < 5:
        raise facts.AnalysisBroken('R-va-forward found only %d calls forwarding an argument list' % n)
    return n


def run(tier='quick', repo=None):
    repo = repo or facts.REPO
    rep = Report(PROP, tier)
    rep.explanation = (
        'Decides, for every control command handled by every pipe type parsed, three structural clauses of C20 on the '
        'per-command slice of the control function (blocks reachable from the case label, helper callees included by '
        'effect summaries): R-get-pure (code reached by getter commands only stores nothing into the pipe or globals), '
        'R-getset-agree (the field a getter copies out is one the paired setter stores), R-set-atomic (no constant error '
        'return of a setter is dominated by a store to the pipe). It does not decide that the data path honours the value.')
    rep.rule('R-get-pure', 'blocks reachable from a *_GET_* case label (and the code that runs after a dispatching helper handled the getter) contain, transitively, no store '
             'whose address derives from the pipe parameter or a global (stores through va_arg out-pointers and to locals are allowed; so is the balanced use/release '
             'bracket that upipe_control() itself puts around a command sent to another pipe)')
    rep.rule('R-getset-agree', 'for each pair K_GET_X / K_SET_X handled by one control root: every private field copied out directly '
             'by the getter is stored somewhere in the setter slice, and the function implementing the setter stores it on every path that does not return a constant error (the path on which the field already equals the value excepted); when what it stores is one of its parameters, that parameter is not rewritten (clamped, rounded) anywhere in the function')
    rep.rule('R-set-atomic', 'in a *_SET_* slice whose command has a paired getter, no return of an error constant other than '
             'UBASE_ERR_ALLOC is dominated (from the case label / callee entry) by a statement that stores into the pipe; and in a setter made of several steps, '
             'a field definitely stored before a local call that can fail is stored again before that failure is returned')
    dirs = QUICK_DIRS if tier == 'quick' else THOROUGH_DIRS
    units = list_units(repo, dirs)
    prog = facts.load_with_stubs(units, list_units(repo, STUB_DIRS) if tier == 'thorough' else [], repo=repo)
    rep.units = sorted(prog.units)
    rep.not_analysed = {k: (v[0] if v else '') for k, v in prog.failed.items()}
    rep.nfuncs = sum(len(u.funcs) for u in prog.units.values()) + len(prog.hdr.funcs)
    for a, fnname in ANCHORS.items():
        if a not in prog.units or fnname not in prog.units[a].funcs:
            raise facts.AnalysisBroken('anchor vanished: %s:%s' % (a, fnname))
    check_va_seq(rep, prog)
    check_va_forward(rep, prog)
    E = effects.Effects(prog)
    pairs_seen = []
    n_excl = [0]
    rep.rule('R-set-exclusive', 'for two options K and J handled by one control function, each with a getter and a setter: a private field that GET_K copies out and '
             'GET_J does not is not stored by the code handling SET_J - configuring one option does not silently rewrite another one the caller configured earlier')
    for uname, u in sorted(prog.units.items()):
        roots = []
        for slots in control.mgr_slots(u):
            c = slots.get('upipe_control')
            if c and c in u.funcs and c not in roots:
                roots.append(c)
        for rname in roots:
            root = u.funcs[rname]
            sl, info = control.command_slices(prog, u, root)
            for msg in info['undecided']:
                rep.add('R-get-pure', '%s:%s' % (rname, msg), UNDECIDED, root.loc)
            # blocks reachable from non-getter labels, per dispatcher function
            nonget = {}
            for k, v in sl.items():
                if not is_getter(k):
                    for s in v:
                        nonget.setdefault(s.fn.name, set()).update(s.blocks)
            # default edges (unlabelled / default successors of command switches)
            for k, v in sl.items():
                for s in v:
                    fn = s.fn
                    if ('dflt', fn.name) in nonget:
                        continue
                    nonget[('dflt', fn.name)] = True
                    ci = control.command_param(fn)
                    for bid, b in fn.blocks.items():
                        t = b.get('term')
                        if t and t.get('cls') == 'SwitchStmt' and control.is_param_ref(fn.resolve(t.get('cond')), fn, ci):
                            for sx in fn.succ[bid]:
                                if sx is None:
                                    continue
                                lab = fn.label(sx)
                                if not lab or lab.get('k') != 'case':
                                    nonget.setdefault(fn.name, set()).update(fn.reachable_from(sx))
            for k in sorted(sl):
                if is_getter(k):
                    for s in sl[k]:
                        own = s.blocks
                        eff, ind, ext, calls = E.block_effects(s.fn.unit, s.fn, own, skip=dispatch_skip(s.fn))
                        bad = [e for e in eff if private_origin(e) and not control_bracket(e)]
                        if bad and all(any(fnmatch(cf, e) for cf in GET_EXCEPTIONS.get(rname, ())) for e in bad):
                            rep.add('R-get-pure', '%s:%s' % (s.fn.name, k), OOS, s.fn.loc,
                                    why='listed exception: ' + GET_EXCEPTIONS[rname][0][2], effects=[e.describe() for e in bad][:3])
                            continue
                        unk = [e for e in eff if e.origin[0] == 'unknown']
                        inst = '%s:%s' % (s.fn.name, k)
                        loc = '%s:%s' % (s.fn.file, s.fn.blocks[s.case_block]['stmts'][0]['l'] if s.fn.blocks[s.case_block].get('stmts') else s.fn.line)
                        if bad:
                            seen = set()
                            for e in bad:
                                key = (e.rec, e.field)
                                if key in seen:
                                    continue
                                seen.add(key)
                                rep.add('R-get-pure', '%s:%s.%s' % (inst, e.rec, e.field), VIOLATED,
                                        '%s:%s' % (e.file, e.line), effect=e.describe(), command=k,
                                        control=rname)
                        elif unk:
                            rep.add('R-get-pure', inst, UNDECIDED, loc, why='store through pointer of unknown origin: ' + unk[0].describe())
                        else:
                            rep.add('R-get-pure', inst, HOLDS, loc, blocks=len(own),
                                    callees=sorted(calls)[:8])
            # pairs
            pair_info = {}
            for k in sorted(sl):
                if not is_getter(k) or setter_of(k) not in sl or k in NOT_A_PAIR:
                    continue
                ks = setter_of(k)
                pairs_seen.append((rname, k, ks))
                gf = []
                for s in sl[k]:
                    gf += getter_out_fields(E, s.fn, s.blocks)
                sf = set()
                for s in sl[ks]:
                    eff, ind, ext, calls = E.block_effects(s.fn.unit, s.fn, s.blocks, skip=dispatch_skip(s.fn))
                    for e in eff:
                        if private_origin(e) and e.rec:
                            sf.add((e.rec, e.field))
                inst = '%s:%s' % (rname, k)
                direct = sorted({(r, f) for r, f, d in gf if d and r})
                pair_info[k] = (ks, set(direct), sf)
                if not direct:
                    rep.add('R-getset-agree', inst, OOS, root.loc, why='getter computes or forwards the value; not compared',
                            getter_fields=[list(x) for x in gf][:6])
                else:
                    # fields of records other than the pipe's own struct that
                    # the getter copies (e.g. through an inner object) are
                    # compared by name too
                    missing = [x for x in direct if x not in sf]
                    if missing and sf:
                        rep.add('R-getset-agree', inst, VIOLATED, root.loc, getter_returns=['%s.%s' % x for x in direct],
                                setter_stores=sorted('%s.%s' % x for x in sf)[:20])
                    elif missing:
                        rep.add('R-getset-agree', inst, UNDECIDED, root.loc, why='setter slice stores no field (forwards?)',
                                getter_returns=['%s.%s' % x for x in direct])
                    else:
                        rep.add('R-getset-agree', inst, HOLDS, root.loc, fields=['%s.%s' % x for x in direct])
                        check_agree_paths(rep, E, prog, sl[ks], direct, inst, root)
                # R-set-atomic on the setter slices
                for s in sl[ks]:
                    check_set_atomic(rep, E, s, ks, rname)
                    # composite setters: callees reached from the slice
                    seen_fns = {s.fn.name}
                    for b3 in s.blocks:
                        for st3 in s.fn.stmts(b3):
                            for x3 in walk(st3):
                                if x3.get('k') == 'call' and x3.get('fn') and not dispatch_skip(s.fn)(x3):
                                    g3 = prog.lookup(s.fn.unit, x3['fn'])
                                    if g3 is not None and g3.blocks and g3.unit is s.fn.unit and g3.inmain:
                                        if g3.name not in seen_fns and ks not in NOT_ATOMIC_BY_CONTRACT:
                                            # the function that implements the setter: its own rejections must come before it touches the pipe
                                            class _S:
                                                pass
                                            ps = _S()
                                            ps.fn, ps.blocks, ps.case_block = g3, set(g3.blocks), g3.entry
                                            check_set_atomic(rep, E, ps, ks, rname)
                                        check_composite(rep, E, g3, ks, rname, seen_fns)
            # R-set-exclusive: what the getter of one option reports is not rewritten by the setter of another option
            for k, (ks, dk, _) in sorted(pair_info.items()):
                for j, (js, dj, sj) in sorted(pair_info.items()):
                    if j == k:
                        continue
                    for fld in sorted(dk & sj):
                        if fld in dj:
                            continue        # one field behind two options: reported by both getters
                        inst2 = '%s:%s-by-%s' % (rname, k, js)
                        if (js, fld) in SET_EXCLUSIVE_OK:
                            rep.add('R-set-exclusive', inst2, OOS, root.loc, why='listed: ' + SET_EXCLUSIVE_OK[(js, fld)])
                        else:
                            rep.add('R-set-exclusive', inst2, VIOLATED, root.loc,
                                    what='%s.%s is what %s reports, and the code handling %s stores into it: after set(%s) the value accepted earlier by %s is no '
                                         'longer the one in force nor the one reported' % (fld[0], fld[1], k, js, js, ks))
                n_excl[0] += len(dk)
    check_post_hooks(rep, prog, E)
    rep.add('R-set-exclusive', 'all-pairs', HOLDS, '', getter_fields_compared=n_excl[0])
    rep.tables['pairs'] = ['%s %s/%s' % p for p in pairs_seen][:300]
    rep.tables['n_pairs'] = len(pairs_seen)
    rep.tables['not_a_pair'] = NOT_A_PAIR
    rep.tables['not_atomic_by_contract'] = NOT_ATOMIC_BY_CONTRACT
    rep.assumptions = [
        'a control function is what is stored in an upipe_mgr.upipe_control slot in the same translation unit',
        'commands are dispatched by switch(command) with enumerator case labels (other forms are reported undecided)',
        'external functions without a body do not store into the pipe structure (libc write functions are modelled: memcpy, memset, ...)',
        'allocation-failure returns (UBASE_ERR_ALLOC) are outside R-set-atomic',
    ]
    return rep




# ---- post-control hooks --------------------------------------------------------------------
# A control function of the form `UBASE_RETURN(_X_control(upipe, command, args)); return X_check(upipe, ...);` runs
# X_check after every command it handled, getters included.  Such hooks acquire resources lazily (pumps, clocks,
# managers: pointer fields) - that is idempotent.  The scalar state they may write in addition is frozen here from
# the tree as confirmed by reading (sources that start producing once everything they need has been provided).
RESOURCE_T = re.compile(r'\*|^struct (urequest|uchain|urefcount|upump_blocker)\b')
POST_HOOK_SCALARS = {
    'upipe_ablk_check': {'output_state'}, 'upipe_audio_merge_check': {'output_state'},
    'upipe_fsrc_check': {'output_state', 'safe'},
    'upipe_msrc_check': {'fd', 'fileidx', 'missing', 'output_state'},
    'upipe_sinesrc_check': {'output_state'}, 'upipe_udpsrc_check': {'output_state'},
    'upipe_vblk_check': {'nb_urefs', 'output_state'}, 'upipe_voidsrc_check': {'output_state'},
    'upipe_http_src_check': {'output_state'},
    # lib/upipe-ts (thorough tier): a timer-driven source of metadata sections; with no timer pending (nothing sent yet, or the clock was missing)
    # the hook sends the pending metadata and arms the timer, exactly what the timer or the next input would do
    'upipe_ts_mdg_check': {'last', 'size', 'max_octetrate', 'output_state', 'cr_dts_delay', 'date_prog', 'date_sys', 'dts_pts_delay', 'flags'},
}


def blocks_with_null_params(g, null_idx):
    """blocks of g reachable when the parameters in null_idx are NULL (branches on `p`, `!p`, `p != NULL`, `p == NULL`
    followed on the arm NULL takes)"""
    def verdict(c):
        c = strip_all_casts(c)
        if isinstance(c, dict) and c.get('k') == 'call' and c.get('fn') == '__builtin_expect' and c.get('args'):
            return verdict(g.resolve(c['args'][0]))
        if any(control.is_param_ref(c, g, i) for i in null_idx):
            return False
        if isinstance(c, dict) and c.get('k') == 'un' and c.get('op') == '!':
            v = verdict(g.resolve(c.get('e')))
            return None if v is None else not v
        if isinstance(c, dict) and c.get('k') == 'bin' and c.get('op') in ('!=', '=='):
            l, r = g.resolve(c['lhs']), g.resolve(c['rhs'])
            for a, b in ((l, r), (r, l)):
                if any(control.is_param_ref(a, g, i) for i in null_idx) and facts.is_null(strip_all_casts(b)):
                    return c['op'] == '=='
        return None
    seen, todo = set(), [g.entry]
    while todo:
        b = todo.pop()
        if b is None or b in seen:
            continue
        seen.add(b)
        c = g.cond(b)
        v = verdict(c[0]) if c else None
        if v is None:
            todo.extend(x for x in g.succ[b] if x is not None)
        else:
            todo.append(c[1] if v else c[2])
    return seen


def check_post_hooks(rep, prog, E):
    from upv import pathrules as pr
    rep.rule('R-get-pure', rep.rules['R-get-pure'] + '; a hook that the control function runs after every handled command (X_check) writes, besides '
             'pointer-typed resource fields, only the scalar fields listed for it in table post_hook_scalars')
    rep.tables['post_hook_scalars'] = {k: sorted(v) for k, v in POST_HOOK_SCALARS.items()}
    n = 0
    for uname, u in sorted(prog.units.items()):
        for slots in control.mgr_slots(u):
            c = slots.get('upipe_control')
            if not c or c not in u.funcs:
                continue
            root = u.funcs[c]
            ci = control.command_param(root)
            if ci is None:
                continue
            if any((b.get('term') or {}).get('cls') == 'SwitchStmt' and control.is_param_ref(root.resolve(b['term'].get('cond')), root, ci)
                   for b in root.blocks.values()):
                continue
            ev = pr.Events(root)
            fwd = lambda x: x.get('k') == 'call' and x.get('fn') and any(control.is_param_ref(a, root, ci) for a in x.get('args', []))
            hooks = []
            for pos in ev.find(fwd):
                hits, _ = ev.reach((pos[0], pos[1]), lambda x: x.get('k') == 'call' and x.get('fn') and not fwd(x), None)
                for h in hits:
                    g = prog.lookup(u, h[2]['fn'])
                    if g is not None and g.blocks and g.unit is u and g.inmain and g not in [x[0] for x in hooks]:
                        nulls = [i for i, a in enumerate(h[2].get('args', [])) if facts.is_null(strip_all_casts(root.resolve(a)))]
                        hooks.append((g, nulls))
            for g, nulls in hooks:
                n += 1
                eff, ind, ext, calls = E.block_effects(u, g, blocks_with_null_params(g, nulls) if nulls else set(g.blocks), skip=lambda c_: False)
                bad = {}
                for e in eff:
                    if not (private_origin(e) and e.kind == 'store' and e.rec) or e.rec in ('urefcount', 'uchain', 'urequest', 'upump', 'upipe'):
                        continue
                    r = u.records.get(e.rec) or (prog.hdr.records.get(e.rec) if prog.hdr else None)
                    ty = None
                    for f in (r['fields'] if r else []):
                        if f['n'] == e.field:
                            ty = f.get('t')
                    if ty and RESOURCE_T.search(ty):
                        continue
                    if e.field in POST_HOOK_SCALARS.get(g.name, ()):
                        continue
                    bad.setdefault((e.rec, e.field), e)
                inst = '%s:after-every-command:%s' % (root.name, g.name)
                if bad:
                    for (rec_, fld), e in sorted(bad.items(), key=str):
                        rep.add('R-get-pure', '%s:%s.%s' % (inst, rec_, fld), VIOLATED, '%s:%s' % (e.file, e.line), effect=e.describe(),
                                what='%s runs after every command %s handles, getters included, and changes %s.%s: calling a getter alters what the pipe does next' % (
                                    g.name, root.name, rec_, fld))
                else:
                    rep.add('R-get-pure', inst, HOLDS, g.loc)
    if n < 10:
        raise facts.AnalysisBroken('only %d post-control hooks found' % n)




AGREE_EXCEPTIONS = {
    ('upipe_http_src_set_uri', 'url'): 'the return without a store (upipe_http_source.c:1202) is the allocation-failure path of uref_block_flow_alloc_def, which the code reports as UBASE_ERR_NONE after logging; allocation failures are out of scope',
    ('_upipe_fsink_set_fd', 'fd'): 'a negative descriptor asks to close: when the sink is already closed (fd == -1, tested at the top) there is nothing to store and -1 is what the getter reports',
}


class _FnView:
    def __init__(self, fn, succ):
        self._fn = fn
        self.succ = succ

    def __getattr__(self, a):
        return getattr(self._fn, a)


def equal_pruned(g, rec, field):
    """g with the arm of `value == s->field` / `s->field != value` (value a parameter) that is taken when the field already
    holds the value cut off: on that arm there is nothing to store and the getter reports the value all the same"""
    def unwrap(c):
        c = strip_all_casts(c)
        while isinstance(c, dict) and c.get('k') == 'call' and c.get('fn') == '__builtin_expect' and c.get('args'):
            c = strip_all_casts(g.resolve(c['args'][0]))
            if isinstance(c, dict) and c.get('k') == 'un' and c.get('op') == '!':
                inner = strip_all_casts(g.resolve(c['e']))
                if isinstance(inner, dict) and inner.get('k') == 'un' and inner.get('op') == '!':
                    c = strip_all_casts(g.resolve(inner['e']))
        return c
    succ = dict(g.succ)
    for b in g.blocks:
        c = g.cond(b)
        if not c:
            continue
        e = unwrap(c[0])
        if not (isinstance(e, dict) and e.get('k') == 'bin' and e.get('op') in ('==', '!=')):
            continue
        l, r = strip_all_casts(g.resolve(e['lhs'])), strip_all_casts(g.resolve(e['rhs']))
        for a, b2 in ((l, r), (r, l)):
            if isinstance(a, dict) and a.get('k') == 'mem' and a.get('rec') == rec and a.get('f') == field and \
                    isinstance(b2, dict) and b2.get('k') == 'ref' and b2.get('d') == 'param':
                keep = c[2] if e['op'] == '==' else c[1]
                succ[b] = [keep]
    return _FnView(g, succ)


def check_agree_paths(rep, E, prog, setter_slices, direct, inst, root):
    """the function that implements the setter stores the field the getter reports on every path that accepts the value
    (returns anything but a constant error)"""
    from upv import pathrules as pr
    for s in setter_slices:
        impl = []
        for b3 in s.blocks:
            for st3 in s.fn.stmts(b3):
                for x3 in walk(st3):
                    if x3.get('k') == 'call' and x3.get('fn') and not dispatch_skip(s.fn)(x3):
                        g3 = prog.lookup(s.fn.unit, x3['fn'])
                        if g3 is not None and g3.blocks and g3.unit is s.fn.unit and g3.inmain and g3 not in impl:
                            impl.append(g3)
        for g in impl:
            for (rec, field) in direct:
                def stores(n, g=g, rec=rec, field=field):
                    if is_assign(n):
                        l = strip(n['lhs'])
                        return isinstance(l, dict) and l.get('k') == 'mem' and l.get('rec') == rec and l.get('f') == field
                    if n.get('k') == 'call':
                        for a in n.get('args', []):
                            a0 = strip_all_casts(a)
                            if isinstance(a0, dict) and a0.get('k') == 'un' and a0.get('op') == '&':
                                m = strip_all_casts(a0.get('e'))
                                if isinstance(m, dict) and m.get('k') == 'mem' and m.get('rec') == rec and m.get('f') == field:
                                    return True      # the field is handed to a function that sets / clears it
                    if n.get('k') == 'call' and n.get('fn'):
                        h = prog.lookup(g.unit, n['fn'])
                        if h is not None and h.blocks and h.unit is g.unit and h is not g:
                            eff, _, _, _ = E.block_effects(g.unit, h, set(h.blocks), skip=lambda c_: False)
                            return any(e.rec == rec and e.field == field and e.kind == 'store' for e in eff)
                    return False
                ev = pr.Events(g)
                if not ev.find(stores):
                    continue         # not the function that implements this pair
                ev.fn = equal_pruned(g, rec, field)
                # the value stored is the value given: a parameter copied into the field is not rewritten on the way
                for bid_, st_, x_ in g.nodes():
                    if not is_assign(x_) or x_.get('op') != '=':
                        continue
                    l_ = strip(x_['lhs'])
                    if not (isinstance(l_, dict) and l_.get('k') == 'mem' and l_.get('rec') == rec and l_.get('f') == field):
                        continue
                    r_ = strip_all_casts(g.resolve(x_['rhs']))
                    if not (isinstance(r_, dict) and r_.get('k') == 'ref' and r_.get('d') == 'param'):
                        continue
                    rewrites = [y for _, _, y in g.nodes() if is_assign(y) and isinstance(strip(y['lhs']), dict) and strip(y['lhs']).get('k') == 'ref'
                                and strip(y['lhs']).get('d') == 'param' and strip(y['lhs']).get('n') == r_.get('n')]
                    nm_ = '%s:stores-the-value-given:%s.%s' % (inst, rec, field)
                    if rewrites:
                        rep.add('R-getset-agree', nm_, VIOLATED, '%s:%s' % (g.file, rewrites[0].get('l')),
                                what='%s rewrites its parameter %s (line %s) before copying it into %s.%s and still accepts the call: the getter then reports a value '
                                     'other than the one that was set' % (g.name, r_.get('n'), rewrites[0].get('l'), rec, field))
                    else:
                        rep.add('R-getset-agree', nm_, HOLDS, g.loc)
                    break

                def accepting(n, g=g):
                    # `return UBASE_ERR_NONE` or a tail call (delegation); a returned variable is the propagated failure of UBASE_RETURN
                    if n.get('k') != 'return':
                        return False
                    if not isinstance(n.get('e'), dict):
                        return True
                    en = enum_name(n['e'])
                    if en:
                        return en == 'UBASE_ERR_NONE'
                    e0 = strip_all_casts(g.resolve(n['e']))
                    return isinstance(e0, dict) and e0.get('k') == 'call'
                bad = pr.must_precede(ev, stores, accepting)
                name = '%s:every-accepting-path-stores:%s.%s' % (inst, rec, field)
                if bad and (g.name, field) in AGREE_EXCEPTIONS:
                    rep.add('R-getset-agree', name, OOS, g.loc, why='listed exception: ' + AGREE_EXCEPTIONS[(g.name, field)])
                elif bad:
                    rep.add('R-getset-agree', name, VIOLATED, '%s:%s' % (g.file, bad[0][2].get('l')),
                            what='%s accepts a value (return at line %s) without storing %s.%s, which is what the getter reports: after that call the getter '
                                 'still returns the previous value' % (g.name, bad[0][2].get('l'), rec, field))
                else:
                    rep.add('R-getset-agree', name, HOLDS, g.loc)


ERR_OK = {'UBASE_ERR_NONE', 'UBASE_ERR_UNHANDLED', 'UBASE_ERR_ALLOC'}


def check_set_atomic(rep, E, s, cmd, rname, depth=0, seen=None):
    fn = s.fn
    skip = dispatch_skip(fn)
    dom = fn.dominators(s.case_block)
    # blocks (of the slice) holding a store into the pipe, with position
    storeblocks = {}
    for bid in s.blocks:
        if bid not in dom:
            continue
        for idx, st in enumerate(fn.stmts(bid)):
            eff = stmt_effects(E, fn, st, skip)
            bad = [e for e in eff if private_origin(e) and e.kind == 'store' and e.rec not in ('urefcount', 'uchain')]
            if bad:
                storeblocks.setdefault(bid, []).append((idx, bad[0]))
    nret = 0
    for bid in s.blocks:
        if bid not in dom:
            continue
        for idx, st in enumerate(fn.stmts(bid)):
            if st.get('k') != 'return' or not isinstance(st.get('e'), dict):
                continue
            en = enum_name(st['e'])
            if not en or not en.startswith('UBASE_ERR_') or en in ERR_OK:
                continue
            nret += 1
            inst = '%s:%s:return@%s' % (fn.name, cmd, en)
            culprit = None
            for d in dom[bid]:
                for (i2, e) in storeblocks.get(d, []):
                    if d != bid or i2 < idx:
                        culprit = e
            if culprit is not None:
                rep.add('R-set-atomic', inst + ':' + '%s.%s' % (culprit.rec, culprit.field), VIOLATED,
                        '%s:%s' % (fn.file, st.get('l')), store=culprit.describe(), control=rname)
            else:
                rep.add('R-set-atomic', inst + ':L%s' % st.get('l'), HOLDS, '%s:%s' % (fn.file, st.get('l')))
    if nret == 0:
        rep.add('R-set-atomic', '%s:%s:no-constant-error-return' % (fn.name, cmd), HOLDS, fn.loc)


_canfail = {}


def can_fail(E, fn, depth=0):
    """may the function return an error constant other than NONE / UNHANDLED / ALLOC?"""
    key = (fn.unit.name, fn.name)
    if key in _canfail:
        return _canfail[key]
    _canfail[key] = False
    r = False
    for bid, st in fn.all_stmts():
        if st.get('k') == 'return' and isinstance(st.get('e'), dict):
            en = enum_name(st['e'])
            arms = []
            e0 = strip_all_casts(fn.resolve(st['e']))
            if isinstance(e0, dict) and e0.get('k') == 'cond':
                arms = [enum_name(fn.resolve(e0.get('a'))), enum_name(fn.resolve(e0.get('bb')))]
            if en and en.startswith('UBASE_ERR_') and en not in ERR_OK:
                r = True
            elif any(a and a.startswith('UBASE_ERR_') and a not in ERR_OK for a in arms):
                r = True
            else:
                e = strip_all_casts(fn.resolve(st['e']))
                if isinstance(e, dict) and e.get('k') == 'call' and e.get('fn') and depth < 4:
                    g = E.prog.lookup(fn.unit, e['fn'])
                    if g is not None and g.blocks and g.unit is fn.unit and can_fail(E, g, depth + 1):
                        r = True
    _canfail[key] = r
    return r


def _null_test(ctree, fn):
    """(path, polarity) if the condition is a NULL test of an access path:
    polarity True means the condition is true when the path IS null"""
    from upv.facts import strip_expect, path_of as _p
    n, neg = strip_expect(fn.resolve(ctree))
    if not isinstance(n, dict):
        return None
    if n.get('k') == 'bin' and n.get('op') in ('==', '!=') and 'lhs' in n:
        for a, b in ((n['lhs'], n['rhs']), (n['rhs'], n['lhs'])):
            if const_of(b) == 0 and _p(a):
                isnull = (n['op'] == '==')
                return _p(a), (isnull != neg)
        return None
    pth = _p(n)
    if pth:
        return pth, neg          # `if (p)` is true when p is NOT null; negated: when null
    return None


def null_guarded_failures(E, g):
    """if every constant failure return of g (other than ALLOC) is reached only
    when one of its pointer parameters is NULL: the set of those parameter
    indices; else None"""
    from upv import pathrules as pr
    ev = pr.Events(g)
    pidx = {p['n']: i for i, p in enumerate(g.params)}
    need = set()
    for bid, st in g.all_stmts():
        if st.get('k') != 'return' or not isinstance(st.get('e'), dict):
            continue
        en = enum_name(st['e'])
        e0 = strip_all_casts(g.resolve(st['e']))
        if isinstance(e0, dict) and e0.get('k') == 'cond':
            return None
        if isinstance(e0, dict) and e0.get('k') == 'call' and e0.get('fn'):
            h = E.prog.lookup(g.unit, e0['fn'])
            if h is not None and h.blocks and h.unit is g.unit and can_fail(E, h):
                return None
        if not (en and en.startswith('UBASE_ERR_') and en not in ERR_OK):
            continue
        found = []

        def cm(ctree, pol, found=found):
            t = _null_test(ctree, g)
            if t and t[0] in pidx and t[1] == pol:
                found.append(pidx[t[0]])
                return True
            return False
        if not pr.control_dependent(g, ev, (bid, 0), cm):
            return None
        need.add(found[0])
    return need


# setters that by contract release the current resource before acquiring the new one:
# a failure leaves the pipe without resource, not with the previous one
NOT_ATOMIC_BY_CONTRACT = {
    'UPIPE_SET_URI': 'upipe.h: set_uri closes the currently opened resource first (also used with NULL to close); a failed open leaves the pipe closed, '
                     'which is the documented behaviour of sources and sinks',
    'UPIPE_FSINK_SET_PATH': 'upipe_file_sink.h: opens the given path (NULL closes); like set_uri the file currently open is closed first, '
                            'a failed open leaves the sink closed',
    'UPIPE_FSINK_SET_FD': 'upipe_file_sink.h: associates a descriptor; like set_uri the file currently open is closed first',
}


_steps_done = set()


def check_composite(rep, E, fn, cmd, rname, seen):
    """a setter made of several fallible steps: if a later step can fail after an
    earlier one stored, the stored fields must be written again before the error is
    returned"""
    if fn.name in seen:
        return
    seen.add(fn.name)
    if cmd in NOT_ATOMIC_BY_CONTRACT:
        return
    from upv import pathrules as pr
    ev = pr.Events(fn)
    skip = dispatch_skip(fn)
    ldefs = fn.local_defs()
    # statements with private store effects, by field
    stores = {}
    for bid in fn.blocks:
        for st in fn.stmts(bid):
            for e in stmt_effects(E, fn, st, skip):
                if private_origin(e) and e.kind == 'store' and e.rec and e.rec not in ('urefcount', 'uchain', 'urequest', 'upipe'):
                    stores.setdefault((e.rec, e.field), []).append(st)
    if stores:
        def in_stmt(stl):
            ids = {id(x) for st in stl for x in walk(st)}
            return lambda n: id(n) in ids
        # returns that hand back the code of a fallible local call
        for bid, st in fn.all_stmts():
            if st.get('k') != 'return' or not isinstance(st.get('e'), dict):
                continue
            e = strip_all_casts(fn.resolve(st['e']))
            gcall = None
            if isinstance(e, dict) and e.get('k') == 'call':
                gcall = e
            elif isinstance(e, dict) and e.get('k') == 'ref' and e.get('d') == 'local':
                # the variable last assigned from a call in a dominating position: use its definitions
                for b2, s2, x in fn.nodes():
                    if x.get('k') == 'decl':
                        for v in x['vars']:
                            if v['n'] == e['n'] and isinstance(v.get('init'), dict):
                                c = strip_all_casts(v['init'])
                                if isinstance(c, dict) and c.get('k') == 'call':
                                    gcall = c if gcall is None or c.get('l', 0) > gcall.get('l', 0) and c.get('l', 0) <= st.get('l', 0) else gcall
                    elif is_assign(x) and x['op'] == '=':
                        l = strip(x['lhs'])
                        c = strip_all_casts(x['rhs'])
                        if isinstance(l, dict) and l.get('k') == 'ref' and l['n'] == e['n'] and isinstance(c, dict) and c.get('k') == 'call':
                            if gcall is None or (c.get('l', 0) > gcall.get('l', 0) and c.get('l', 0) <= st.get('l', 0)):
                                gcall = c
            if gcall is None or not gcall.get('fn'):
                continue
            g = E.prog.lookup(fn.unit, gcall['fn'])
            if g is None or not g.blocks or g.unit is not fn.unit or not can_fail(E, g):
                continue
            if (g.name, cmd) not in _steps_done:
                # a step of the setter whose refusal the setter hands back: its own refusals come before it touches the pipe
                _steps_done.add((g.name, cmd))

                class _S:
                    pass
                ps = _S()
                ps.fn, ps.blocks, ps.case_block = g, set(g.blocks), g.entry
                check_set_atomic(rep, E, ps, cmd, rname)
            isg = (lambda c: (lambda n: n is c))(gcall)
            isret = (lambda r: (lambda n: n is r))(st)
            gpos = ev.find(isg)
            if not gpos:
                continue
            # a callee that only refuses NULL arguments cannot refuse a call
            # made under a test that the argument is not NULL
            ng = null_guarded_failures(E, g)
            if ng is not None:
                ok = True
                for i in ng:
                    ap = path_of(gcall['args'][i]) if i < len(gcall.get('args', [])) else None

                    def cm(ctree, pol, ap=ap):
                        t = _null_test(ctree, fn)
                        return bool(t and ap and t[0] == ap and t[1] != pol)
                    if not (ap and pr.control_dependent(fn, ev, (gpos[0][0], gpos[0][1]), cm)):
                        ok = False
                if ok:
                    continue
            for f, stl in sorted(stores.items()):
                isst = in_stmt([x for x in stl if not any(y is gcall for y in walk(x))])
                # definitely stored before the fallible call
                hits, _ = ev.reach(None, isg, isst, from_entry=True)
                if hits:
                    continue
                # written again between the failing call and the return?
                hits2, _ = ev.reach((gpos[0][0], gpos[0][1]), isret, isst)
                inst = '%s:%s:%s.%s-then-%s-fails' % (fn.name, cmd, f[0], f[1], gcall['fn'])
                if hits2:
                    rep.add('R-set-atomic', inst, VIOLATED, '%s:%s' % (fn.file, st.get('l')), control=rname,
                            what='%s stores %s.%s, then calls %s() which can fail, and returns that failure (line %s) without writing %s.%s again: a rejected setter leaves the new value in force' % (
                                fn.name, f[0], f[1], gcall['fn'], st.get('l'), f[0], f[1]))
                else:
                    rep.add('R-set-atomic', inst, HOLDS, '%s:%s' % (fn.file, st.get('l')), note='restored before the error is returned')
    # callees of the setter in the same unit
    for bid, s_, x in fn.calls():
        if x.get('fn') and not skip(x):
            g = E.prog.lookup(fn.unit, x['fn'])
            if g is not None and g.blocks and g.unit is fn.unit and g.inmain and len(seen) < 12:
                check_composite(rep, E, g, cmd, rname, seen)


def stmt_effects(E, fn, st, skip):
    # effects of one top-level statement: reuse block_effects on a fake block
    class _F:
        pass
    saved = fn.blocks.get(-1)
    fn.blocks[-1] = {'id': -1, 'stmts': [st]}
    try:
        eff, ind, ext, calls = E.block_effects(fn.unit, fn, [-1], skip=skip)
    finally:
        if saved is None:
            del fn.blocks[-1]
        else:
            fn.blocks[-1] = saved
    return eff
