"""C12 - requests travel downstream, answers travel back, surviving
re-plumbing.  R-reqpair, R-replay, R-unreg-always, R-regflag, R-late-answer
(DESIGN §4 C12)."""
import re

from upv import facts, control
from upv import pathrules as pr
from upv.facts import strip, strip_all_casts, strip_expect, walk, is_assign, const_of, enum_name, path_of
from upv.report import Report, HOLDS, VIOLATED, UNDECIDED, OOS
from rules.c20 import list_units
from rules import c01

PROP = 'C12'

REQ_HELPERS = ('UPIPE_HELPER_UBUF_MGR', 'UPIPE_HELPER_UREF_MGR', 'UPIPE_HELPER_UCLOCK', 'UPIPE_HELPER_FLOW_FORMAT')

PAIRS = [('alloc_output_proxy', 'free_output_proxy'), ('register_output_request', 'unregister_output_request')]


def calls_in(fn, blocks):
    out = []
    for b in blocks:
        for st in fn.stmts(b):
            for x in walk(st):
                if x.get('k') == 'call' and x.get('fn'):
                    out.append(x['fn'])
    return out


def addr_of_field(n, mp=None, f=None):
    n = strip_all_casts(n)
    if isinstance(n, dict) and n.get('k') == 'un' and n.get('op') == '&':
        m = strip_all_casts(n.get('e'))
        if isinstance(m, dict) and m.get('k') == 'mem':
            return (mp is not None and m.get('mp') == mp) or (f is not None and m.get('f') == f)
    return False


PROVIDER_PROBES = ['lib/upipe/uprobe_ubuf_mem.c', 'lib/upipe/uprobe_ubuf_mem_pool.c', 'lib/upipe/uprobe_uref_mgr.c', 'lib/upipe/uprobe_uclock.c']


def check_probe_chain(rep, repo):
    """a provider probe that cannot serve a request passes it on"""
    rep.rule('R-probe-chain', 'the catch functions of the provider probes (ubuf_mem, ubuf_mem_pool, uref_mgr, uclock): a request either is answered '
             '(urequest_provide_*) or goes on to the next probe (uprobe_throw_next); a return of an error constant is allowed only on the failure of the '
             'duplication of the request\'s flow format (uref_dup == NULL, an allocation failure) - in particular a manager constructor that returns NULL for '
             'a flow format it does not know is not a reason to stop the chain: a provider further down would never be asked')
    prog = facts.load_program(PROVIDER_PROBES, repo=repo)
    n = 0
    for uname in PROVIDER_PROBES:
        u = prog.units.get(uname)
        if u is None:
            raise facts.AnalysisBroken('anchor vanished: %s' % uname)
        for fn in sorted(u.funcs.values(), key=lambda f: f.name):
            if not fn.blocks or fn.macro or not (len(fn.params) == 4 and fn.params[0]['t'] == 'struct uprobe *' and 'va_list' in fn.params[3]['t']):
                continue
            if not any(x.get('k') == 'call' and (x.get('fn') or '').startswith('urequest_provide') for _, _, x in fn.nodes()):
                continue
            n += 1
            ev = pr.Events(fn)
            dups = set()
            for _, _, x in fn.nodes():
                if x.get('k') == 'decl':
                    for v in x['vars']:
                        i = strip_all_casts(v['init']) if isinstance(v.get('init'), dict) else None
                        if isinstance(i, dict) and i.get('k') == 'call' and i.get('fn') in ('uref_dup', 'udict_dup'):
                            dups.add(v['n'])

            def dup_failed(ctree, pol, fn=fn, dups=dups):
                # the arm taken when the duplicate is NULL
                n_, neg = strip_expect(fn.resolve(ctree))
                n_ = strip_all_casts(n_)
                if not isinstance(n_, dict):
                    return False
                n_true = (pol != neg)
                if n_.get('k') == 'ref':
                    return n_.get('n') in dups and not n_true
                if n_.get('k') == 'bin' and n_.get('op') in ('==', '!='):
                    l, r = strip_all_casts(n_['lhs']), strip_all_casts(n_['rhs'])
                    for a, b in ((l, r), (r, l)):
                        if isinstance(a, dict) and a.get('k') == 'ref' and a.get('n') in dups and const_of(b) == 0:
                            return n_true if n_['op'] == '==' else not n_true
                return False
            bad = []
            for pos in ev.find(pr.m_return()):
                e = pos[2].get('e')
                en = enum_name(e) if isinstance(e, dict) else None
                if en and en.startswith('UBASE_ERR_') and en != 'UBASE_ERR_NONE':
                    if not pr.control_dependent(fn, ev, pos, dup_failed):
                        bad.append(pos)
            rep.add('R-probe-chain', fn.name, VIOLATED if bad else HOLDS, fn.loc,
                    **({'what': '%s returns %s (line %s) on a path that is not the failure of duplicating the request\'s flow format: the request is neither '
                                'answered nor passed to the next probe, a provider further down the hierarchy is never asked' % (
                                    fn.name, enum_name(bad[0][2]['e']), bad[0][2].get('l'))} if bad else {}))
    if n < 4:
        raise facts.AnalysisBroken('R-probe-chain found only %d provider probes' % n)


def run(tier='quick', repo=None):
    repo = repo or facts.REPO
    rep = Report(PROP, tier)
    rep.explanation = (
        'Decides structural clauses of C12 on every pipe type parsed: R-reqpair (the code reached for UPIPE_REGISTER_REQUEST and UPIPE_UNREGISTER_REQUEST uses the '
        'matching halves of one mechanism), R-replay (every X_set_output withdraws the listed requests from the old output inside a loop over REQUEST_LIST before '
        'releasing it, and after storing the new output registers every not-yet-registered request, restarting the scan of the list after each registration since '
        'answers may change the list), R-unreg-always (unregistering removes the request from the list on every path, whatever the forwarding reports), R-regflag '
        '(urequest.registered is written only by urequest_init*, upipe_register_request and upipe_unregister_request), R-late-answer (the queue sink provides an '
        'answer only for a request that is still listed; free_output_proxy unregisters before freeing). End-to-end delivery over chains and across the queue under '
        'all histories is NOT decided.')
    dirs = ['lib/upipe-modules'] if tier == 'quick' else ['lib/upipe-modules', 'lib/upipe-filters', 'lib/upipe-pthread']
    prog = c01.load(tier, repo, rep, quick=dirs, thorough=dirs)
    H = prog.hdr
    check_probe_chain(rep, repo)
    rep.rule('R-reqpair', 'per control root: alloc_output_proxy is reached for REGISTER iff free_output_proxy is reached for UNREGISTER; likewise register_output_request / unregister_output_request')
    rep.rule('R-replay', 'X_set_output: (a) upipe_unregister_request(old OUTPUT, r) sits in a loop over REQUEST_LIST and precedes upipe_release; (b) upipe_register_request(new OUTPUT, r) is reachable after the OUTPUT store, guarded by !r->registered; (c) after a registration the scan of REQUEST_LIST restarts from the head')
    rep.rule('R-unreg-always', 'X_unregister_output_request: ulist_delete precedes every return; upipe_qsink_unregister_request: once the proxy is found every path to a return passes ulist_delete; X_free_output_proxy: unregister precedes urequest_free_proxy')
    rep.rule('R-regflag', 'stores to urequest.registered occur only in urequest_init*, upipe_register_request, upipe_unregister_request')
    rep.rule('R-require', 'X_require_* of the four request helpers: the managed request is never modified in place; every path re-initialises it (urequest_init_*); a live request is unregistered, then cleaned, before that; the new request is registered afterwards')
    rep.rule('R-fallback', 'X_register_output_request: the result of forwarding to the output is returned only under the test that it is not UBASE_ERR_UNHANDLED; otherwise the request is thrown to the probes (upipe_throw_provide_request)')
    rep.rule('R-unreg-match', 'a function that receives the request being unregistered and forgets a proxied request (urequest_set_opaque(x, NULL)) does so only under an equality test involving that request')
    rep.rule('R-late-answer', 'upipe_qsink_oob: every urequest_provide_* call is control dependent on ulist_is_in(request) being true')
    # ---- R-reqpair ------------------------------------------------------------------
    for uname, u in sorted(prog.units.items()):
        roots = []
        for slots in control.mgr_slots(u):
            c = slots.get('upipe_control')
            if c and c in u.funcs and c not in roots:
                roots.append(c)
        for rname in roots:
            sl, info = control.command_slices(prog, u, u.funcs[rname])

            def mech(cmd):
                ks = set()
                for s in sl.get(cmd, []):
                    for f in calls_in(s.fn, s.blocks):
                        for a, b in PAIRS:
                            if f.endswith('_' + a):
                                ks.add(a)
                            elif f.endswith('_' + b) and not f.endswith('_' + a):
                                ks.add(b)
                return ks
            r, un = mech('UPIPE_REGISTER_REQUEST'), mech('UPIPE_UNREGISTER_REQUEST')
            if 'UPIPE_REGISTER_REQUEST' not in sl and 'UPIPE_UNREGISTER_REQUEST' not in sl:
                continue
            bad = []
            for a, b in PAIRS:
                if (a in r) != (b in un):
                    bad.append('%s for REGISTER: %s, %s for UNREGISTER: %s' % (a, a in r, b, b in un))
            rep.add('R-reqpair', rname, VIOLATED if bad else HOLDS, u.funcs[rname].loc, register=sorted(r), unregister=sorted(un),
                    **({'what': 'register and unregister use different mechanisms: ' + '; '.join(bad)} if bad else {}))
    # ---- R-answer-back -----------------------------------------------------------------
    rep.rule('R-answer-back', 'a function installed as the provide call-back of a forwarded request (stored into ->urequest_provide: the proxy of UPIPE_HELPER_OUTPUT, '
             'upipe_crop, the queue source) passes the answer on - urequest_provide_proxy / urequest_provide_*(upstream) / a push on the upstream queue - on every '
             'path to a return, the allocation-failure return excepted: an answer given by the downstream pipe or probe always travels back towards the requester')
    nback = 0
    for uname, u in sorted(prog.units.items()):
        cbs = []
        for fn in u.funcs.values():
            if not fn.blocks:
                continue
            for bid, st, x in fn.nodes():
                if is_assign(x):
                    l = strip(x['lhs'])
                    if isinstance(l, dict) and l.get('k') == 'mem' and l.get('f') == 'urequest_provide':
                        r = strip_all_casts(fn.resolve(x['rhs']))
                        if isinstance(r, dict) and r.get('k') == 'ref' and r.get('n') in u.funcs and u.funcs[r['n']].blocks and u.funcs[r['n']] not in cbs:
                            cbs.append(u.funcs[r['n']])
        for cb in sorted(cbs, key=lambda f: f.name):
            if not (cb.inmain or cb.macro):
                continue
            nback += 1
            ev = pr.Events(cb)
            fwd = pr.m_call(r'urequest_provide_\w+|uqueue_push')

            def plain_return(n, cb=cb):
                if n.get('k') != 'return':
                    return False
                return enum_name(n['e']) != 'UBASE_ERR_ALLOC' if isinstance(n.get('e'), dict) else True
            bad = pr.must_precede(ev, fwd, plain_return)
            rep.add('R-answer-back', cb.name, VIOLATED if bad else HOLDS, cb.loc if not bad else '%s:%s' % (cb.file, bad[0][2].get('l')),
                    **({'what': '%s can return (line %s) without having passed the answer on: the requester never receives what the downstream provided' % (
                        cb.name, bad[0][2].get('l'))} if bad else {}))
    if nback < 20:
        raise facts.AnalysisBroken('only %d provide call-backs of forwarded requests found' % nback)
    # ---- R-same-answer ------------------------------------------------------------------
    rep.rule('R-same-answer', 'X_provide_ubuf_mgr (UPIPE_HELPER_UBUF_MGR): an answer is dropped as a repetition - a return that has neither stored the flow format nor '
             'called the pipe\'s check function - only on a path that compared the flow formats (udict_cmp): the same manager with an amended flow format, '
             'which is what a newly connected output or a pooling probe hands out, is a new answer and reaches the requester')
    nsame = 0
    for uname, u in sorted(prog.units.items()):
        for fn in sorted(u.funcs.values(), key=lambda f: f.name):
            if fn.macro != 'UPIPE_HELPER_UBUF_MGR' or not fn.name.endswith('_provide_ubuf_mgr') or not fn.blocks:
                continue
            nsame += 1
            ev = pr.Events(fn)
            st = pr.m_store('FLOW_FORMAT')
            early, _ = ev.reach(None, pr.m_return(), st, from_entry=True)
            cmpc = pr.m_call('udict_cmp')
            bad = []
            for r_ in early:
                hit, _ = ev.reach(None, lambda n_, r_=r_: n_ is r_[2], cmpc, from_entry=True)
                if hit:
                    bad.append(r_)
            rep.add('R-same-answer', fn.name, VIOLATED if bad else HOLDS, fn.loc,
                    **({'what': '%s drops an answer (return at line %s, flow format not stored, check function not called) without having compared the flow '
                                'formats: an answer with the same manager and another flow format never reaches the requester' % (fn.name, bad[0][2].get('l'))} if bad else {}))
    if nsame < 10:
        raise facts.AnalysisBroken('only %d X_provide_ubuf_mgr functions found' % nsame)
    # ---- R-bin-fields -------------------------------------------------------------------
    rep.rule('R-bin-fields', 'a pipe type that instantiates both UPIPE_HELPER_BIN_INPUT and UPIPE_HELPER_BIN_OUTPUT binds FIRST_INNER and LAST_INNER to two different '
             'structure members: with one member store_bin_output() overwrites the pipe store_bin_input() has to withdraw the listed requests from, so the old '
             'inner pipe never sees the UNREGISTER and the new one gets an UNREGISTER for requests it never received')
    nbin = 0
    for uname, u in sorted(prog.units.items()):
        bound = {}
        for fn in u.funcs.values():
            if fn.macro in ('UPIPE_HELPER_BIN_INPUT', 'UPIPE_HELPER_BIN_OUTPUT') and fn.blocks:
                want = 'FIRST_INNER' if fn.macro == 'UPIPE_HELPER_BIN_INPUT' else 'LAST_INNER'
                for bid, st, x in fn.nodes():
                    if x.get('k') == 'mem' and x.get('mp') == want and x.get('rec'):
                        bound.setdefault(x['rec'], {}).setdefault(want, (x.get('f'), fn))
        for rec, b in sorted(bound.items()):
            if len(b) < 2:
                continue
            nbin += 1
            same = b['FIRST_INNER'][0] == b['LAST_INNER'][0]
            rep.add('R-bin-fields', rec, VIOLATED if same else HOLDS, b['FIRST_INNER'][1].loc, first_inner=b['FIRST_INNER'][0], last_inner=b['LAST_INNER'][0],
                    **({'what': 'struct %s: the bin input and the bin output helpers both manage member %s' % (rec, b['FIRST_INNER'][0])} if same else {}))
    if nbin < 3:
        raise facts.AnalysisBroken('only %d pipe types with both bin helpers found' % nbin)
    # ---- helper instantiations ---------------------------------------------------------
    for uname, u in sorted(prog.units.items()):
        for fn in sorted(u.funcs.values(), key=lambda f: f.name):
            if fn.macro not in ('UPIPE_HELPER_OUTPUT', 'UPIPE_HELPER_BIN_INPUT'):
                continue
            if fn.macro == 'UPIPE_HELPER_OUTPUT' and fn.name.endswith('_set_output'):
                ev = pr.Events(fn)
                unreg = pr.m_call('upipe_unregister_request')
                reg = pr.m_call('upipe_register_request')
                rel = pr.m_call('upipe_release')
                st = pr.m_store('OUTPUT')
                why = []
                us = ev.find(unreg)
                # (a)
                if not us or not ev.find(rel):
                    why.append('no upipe_unregister_request / upipe_release of the old output')
                else:
                    if pr.never_after(ev, rel, unreg):
                        why.append('a request is unregistered from the old output after that output was released')
                    for c in us:
                        me = (lambda p: (lambda n: n is p[2]))(c)
                        if not pr.never_after(ev, me, me):
                            why.append('upipe_unregister_request is not in a loop over the request list')
                # (b)
                rs = ev.find(reg)
                if not rs:
                    why.append('no upipe_register_request on the new output')
                else:
                    hits, _ = ev.reach(None, reg, st, from_entry=True)
                    if hits:
                        why.append('a request is registered before the new output is stored')

                    def notreg(ctree, pol, fn=fn):
                        n, neg = strip_expect(fn.resolve(ctree))
                        return isinstance(n, dict) and n.get('k') == 'mem' and n.get('f') == 'registered' and (pol == neg)
                    # the registered test guards the selection of the request, not necessarily the call itself: accept either
                    # (c) restart: from the register call the head of REQUEST_LIST is read again

                    def list_head(n):
                        if is_assign(n) and n['op'] == '=':
                            r = strip_all_casts(n['rhs'])
                            if isinstance(r, dict) and r.get('k') == 'mem' and r.get('f') == 'next':
                                b = strip_all_casts(r.get('b'))
                                return addr_of_field(b, mp='REQUEST_LIST')
                        return False
                    for c in rs:
                        me = (lambda p: (lambda n: n is p[2]))(c)
                        hits, _ = ev.reach((c[0], c[1]), list_head, None)
                        if not hits:
                            why.append('after upipe_register_request the scan of REQUEST_LIST does not restart from its head: requests moved or added by a synchronous answer are skipped')
                    loads = [p for p in ev.find(lambda n: n.get('k') == 'mem' and n.get('f') == 'registered')]
                    if not loads:
                        why.append('the registered flag is not consulted: requests would be registered twice')
                rep.add('R-replay', fn.name, VIOLATED if why else HOLDS, fn.loc, **({'what': '; '.join(sorted(set(why)))} if why else {}))
            elif fn.macro == 'UPIPE_HELPER_BIN_INPUT' and fn.name.endswith('_store_bin_input'):
                # the same obligations for a bin whose first inner pipe is replaced (cleared, then rebuilt)
                ev = pr.Events(fn)
                why = []
                unreg_, reg_ = pr.m_call('upipe_unregister_request'), pr.m_call('upipe_register_request')
                stc = lambda n: n.get('k') == 'call' and re.match(r'\w+_store_\w+$', n.get('fn') or '') and n.get('fn') != fn.name
                old = lambda n: n.get('k') == 'mem' and n.get('mp') == 'FIRST_INNER'
                if not ev.find(stc):
                    raise facts.AnalysisBroken('%s: the store of the first inner pipe was not found' % fn.name)
                if not ev.find(unreg_):
                    why.append('no upipe_unregister_request on the old inner pipe')
                else:
                    for c in ev.find(unreg_):
                        me = (lambda p_: (lambda n: n is p_[2]))(c)
                        if not pr.never_after(ev, me, me):
                            why.append('upipe_unregister_request is not in a loop over the request list')
                    if pr.never_after(ev, stc, unreg_):
                        why.append('a request is unregistered after the inner pipe was replaced (from the wrong pipe)')
                # every path to the replacement looks at the old inner pipe (and withdraws from it when there is one):
                # clearing the inner pipe (NULL) must withdraw too, or the requests stay flagged as registered and are
                # never re-issued to the next inner pipe
                if pr.must_precede(ev, old, stc):
                    why.append('a path replaces the inner pipe without having examined the old one: the requests are not withdrawn from it, stay flagged as '
                               'registered and are never re-issued to the next inner pipe')
                if not ev.find(reg_):
                    why.append('no upipe_register_request on the new inner pipe')
                elif ev.reach(None, reg_, stc, from_entry=True)[0]:
                    why.append('a request is registered before the new inner pipe is stored')
                if not ev.find(lambda n: n.get('k') == 'mem' and n.get('f') == 'registered'):
                    why.append('the registered flag is not consulted: requests would be registered twice')
                rep.add('R-replay', fn.name, VIOLATED if why else HOLDS, fn.loc, **({'what': '; '.join(sorted(set(why)))} if why else {}))
            elif fn.name.endswith('_unregister_output_request'):
                ev = pr.Events(fn)
                bad = pr.must_precede(ev, pr.m_call('ulist_delete'), pr.m_return())
                rep.add('R-unreg-always', fn.name, VIOLATED if bad else HOLDS, fn.loc,
                        **({'what': 'a path returns without removing the request from REQUEST_LIST: it would be replayed on the next output and answered after unregistration'} if bad else {}))
            elif fn.name.endswith('_free_output_proxy'):
                ev = pr.Events(fn)
                fr = pr.m_call('urequest_free_proxy')
                bad = pr.must_precede(ev, pr.m_call(r'\w+_unregister_output_request'), fr)
                rep.add('R-unreg-always', fn.name, VIOLATED if (bad or not ev.find(fr)) else HOLDS, fn.loc,
                        **({'what': 'the proxy is freed without having been unregistered'} if bad else {}))
            elif fn.name.endswith('_register_output_request'):
                ev = pr.Events(fn)
                add = pr.m_call('ulist_add')
                fw = pr.m_call('upipe_register_request')
                bad = pr.must_precede(ev, add, fw) or not ev.find(add)
                thr = ev.find(pr.m_call('upipe_throw_provide_request'))
                rep.add('R-replay', fn.name, VIOLATED if (bad or not thr) else HOLDS, fn.loc,
                        **({'what': 'a request must be listed (for replay) before it is forwarded, and thrown as provide_request when no output handles it'} if (bad or not thr) else {}))
                # the forwarding result is final only if the output handled the command
                fws = ev.find(fw)
                rets = []
                for c in fws:
                    hits, _ = ev.reach((c[0], c[1]), pr.m_return(), pr.m_call('upipe_throw_provide_request'))
                    rets += hits
                line_conds = {}
                for b2 in fn.blocks:
                    c2 = fn.cond(b2)
                    if c2 and any(enum_name(y) == 'UBASE_ERR_UNHANDLED' or y.get('n') == 'UBASE_ERR_UNHANDLED' for y in walk(fn.resolve(c2[0]))):
                        line_conds[b2] = True
                # operands of likely(a && b) are evaluated in blocks of their own: look for the comparison anywhere before the return
                cmp_unh = lambda n: n.get('k') == 'bin' and n.get('op') in ('!=', '==') and any(
                    enum_name(y) == 'UBASE_ERR_UNHANDLED' or (y.get('k') == 'ref' and y.get('n') == 'UBASE_ERR_UNHANDLED') for y in walk(n))
                badr = []
                for c in fws:
                    hits, _ = ev.reach((c[0], c[1]), pr.m_return(), pr.m_any(pr.m_call('upipe_throw_provide_request'), cmp_unh))
                    badr += hits
                okf = bool(fws) and bool(thr) and not badr
                rep.add('R-fallback', fn.name, HOLDS if okf else VIOLATED, fn.loc,
                        **({} if okf else {'what': 'the value of upipe_register_request(output) is returned without testing it against UBASE_ERR_UNHANDLED: '
                                                   'when the output does not implement the command nobody provides and the request is never thrown to the probes'}))
    # ---- R-unreg-match ------------------------------------------------------------------------
    for uname, u in sorted(prog.units.items()):
        for fn in sorted(u.funcs.values(), key=lambda f: f.name):
            if fn.macro or not fn.blocks or 'unregister' not in fn.name:
                continue
            rp = [p_['n'] for p_ in fn.params if p_['t'] == 'struct urequest *']
            if not rp:
                continue
            ev = pr.Events(fn)
            forget = lambda n: n.get('k') == 'call' and n.get('fn') == 'urequest_set_opaque' and len(n.get('args', [])) > 1 and const_of(n['args'][1]) == 0
            sites = ev.find(forget)
            if not sites:
                continue
            ldefs = fn.local_defs()

            def matches(ctree, pol, fn=fn, rp=rp):
                n, neg = strip_expect(fn.resolve(ctree))
                if not (isinstance(n, dict) and n.get('k') == 'bin' and n.get('op') in ('==', '!=')):
                    return False
                names = {y.get('n') for y in walk(n) if y.get('k') == 'ref'}
                want = (n['op'] == '==') != neg
                return bool(names & set(rp)) and pol == want
            ok = all(pr.control_dependent(fn, ev, c, matches) for c in sites)
            rep.add('R-unreg-match', fn.name, HOLDS if ok else VIOLATED, fn.loc,
                    **({} if ok else {'what': '%s forgets the proxied request whatever request is being unregistered: unregistering an older request '
                                              'disconnects the one registered after it, whose answer is then swallowed' % fn.name}))
    # ---- qsink ----------------------------------------------------------------------------------
    u = prog.units.get('lib/upipe-modules/upipe_queue_sink.c')
    if u is None:
        raise facts.AnalysisBroken('anchor vanished: upipe_queue_sink.c')
    fn = u.funcs.get('upipe_qsink_unregister_request')
    if fn is None:
        raise facts.AnalysisBroken('anchor vanished: upipe_qsink_unregister_request')
    ev = pr.Events(fn)
    # the match: proxy->upstream == urequest
    bad = None
    found = False
    for bid in fn.blocks:
        c = fn.cond(bid)
        if not c:
            continue
        n, neg = strip_expect(fn.resolve(c[0]))
        if isinstance(n, dict) and n.get('k') == 'bin' and n.get('op') == '==' and any(y.get('k') == 'mem' and y.get('f') == 'upstream' for y in walk(n)):
            found = True
            tgt = c[2] if neg else c[1]
            # from the matched arm, every path to a return passes ulist_delete
            class _P:
                pass
            first = (tgt, -1)
            hits, ex = ev.reach(first, pr.m_return(), pr.m_call('ulist_delete'))
            if hits:
                bad = hits[0]
    if not found:
        rep.add('R-unreg-always', 'upipe_qsink_unregister_request', UNDECIDED, fn.loc, why='proxy match test not recognised')
    else:
        rep.add('R-unreg-always', 'upipe_qsink_unregister_request', VIOLATED if bad else HOLDS, fn.loc,
                **({'what': 'once the proxy of the request is found, the return at line %s is reachable without ulist_delete(): the proxy stays listed, so a late answer from the source side still reaches the requester after it unregistered' % bad[2].get('l')} if bad else {}))
    fn = u.funcs.get('upipe_qsink_oob')
    if fn is None:
        raise facts.AnalysisBroken('anchor vanished: upipe_qsink_oob')
    ev = pr.Events(fn)
    provs = ev.find(pr.m_call(r'urequest_provide_\w+'))

    def listed(ctree, pol, fn=fn):
        n, neg = strip_expect(fn.resolve(ctree))
        return isinstance(n, dict) and n.get('k') == 'call' and n.get('fn') == 'ulist_is_in' and pol != neg
    ok = len(provs) >= 3 and all(pr.control_dependent(fn, ev, p, listed) for p in provs)
    rep.add('R-late-answer', 'upipe_qsink_oob', HOLDS if ok else VIOLATED, fn.loc, provide_sites=len(provs),
            **({} if ok else {'what': 'an answer is delivered without checking that the request is still listed (ulist_is_in)'}))
    # ---- R-regflag / R-req-fields -------------------------------------------------------------------
    allowed = re.compile(r'^(urequest_init\w*|upipe_register_request|upipe_unregister_request|urequest_alloc_proxy|urequest_clean)$')
    allowed_other = re.compile(r'^(urequest_init\w*|urequest_clean|urequest_alloc_proxy|urequest_free_proxy|urequest_set_opaque|urequest_free|\w+_alloc_output_proxy)$')  # the last one fills a proxy it has just allocated
    writers, fwriters = {}, {}
    for uname2, u2 in list(prog.units.items()) + [('headers', H)]:
        for fn in u2.funcs.values():
            for bid, s, x in fn.nodes():
                if is_assign(x):
                    l = strip(x['lhs'])
                    if isinstance(l, dict) and l.get('k') == 'mem' and l.get('rec') == 'urequest':
                        if l.get('f') == 'registered':
                            writers.setdefault(fn.name, '%s:%s' % (fn.file, x.get('l')))
                        elif l.get('f') in ('type', 'uref', 'urequest_provide', 'urequest_free', 'opaque'):
                            fwriters.setdefault((fn.name, l['f']), '%s:%s' % (fn.file, x.get('l')))
    if not writers:
        raise facts.AnalysisBroken('no writer of urequest.registered found')
    for w, loc in sorted(writers.items()):
        ok = bool(allowed.match(w))
        rep.add('R-regflag', w, HOLDS if ok else VIOLATED, loc, **({} if ok else {'what': '%s writes urequest.registered' % w}))
    # direct stores into the request a request helper manages (the macro parameter REQUEST): never, anywhere
    nreq = 0
    for uname2, u2 in sorted(prog.units.items()):
        for fn in sorted(u2.funcs.values(), key=lambda f: f.name):
            if not (fn.macro in REQ_HELPERS and re.search(r'_require_\w+$', fn.name)):
                continue
            nreq += 1
            ev = pr.Events(fn)
            why = []
            direct = []
            for bid, st_, x in fn.nodes():
                if is_assign(x):
                    l = strip(x['lhs'])
                    if isinstance(l, dict) and l.get('k') == 'mem' and l.get('rec') == 'urequest':
                        b_ = strip_all_casts(l.get('b'))
                        if isinstance(b_, dict) and b_.get('k') == 'mem' and b_.get('mp') == 'REQUEST':
                            direct.append(x.get('l'))
            if direct:
                why.append('the request is modified in place (urequest.%s written directly): pipes downstream hold proxies made from the old contents, '
                           'so the change is never re-issued' % 'uref')
            init = pr.m_call(r'urequest_init_\w+')
            clean = pr.m_call('urequest_clean')
            ind = lambda n: n.get('k') == 'call' and not n.get('fn')
            _, ex = ev.reach(None, lambda n: False, init, from_entry=True)
            if ex or not ev.find(init):
                why.append('a path returns without re-issuing the request (no urequest_init_*): the new flow format never reaches the provider')
            if not ev.find(clean) or pr.never_after(ev, init, clean):
                why.append('urequest_clean must precede the re-initialisation of a live request')
            inds = ev.find(ind)
            if len(inds) < 2:
                why.append('the request must be unregistered (before urequest_clean) and registered (after urequest_init_*) through the REGISTER / UNREGISTER call-backs')
            else:
                # an indirect call before the clean (unregister) and one after the init (register)
                # (the call-backs are optional: `if (unreg != NULL)`) an indirect call from which the clean is reached
                pre = []
                for pos in inds:
                    h, _ = ev.reach((pos[0], pos[1]), clean, init)
                    pre += h
                if not pre:
                    why.append('a live request is cleaned without having been unregistered first')
                hits = []
                for pos in ev.find(init):
                    h, _ = ev.reach((pos[0], pos[1]), ind, None)
                    hits += h
                if not hits:
                    why.append('the re-initialised request is not registered again')
            rep.add('R-require', fn.name, VIOLATED if why else HOLDS, fn.loc, **({'what': '; '.join(why)} if why else {'helper': fn.macro}))
    if nreq < 30:
        raise facts.AnalysisBroken('R-require found only %d X_require_* functions' % nreq)
    rep.assumptions = ['a pipe\'s control function is what its upipe_mgr slot holds; commands are dispatched by switch']
    return rep
