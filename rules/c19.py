"""C19 - picture and sound windows stay inside the allocation.

R-usub-cmp (range checks computed with a wrapping unsigned subtraction),
R-gran (granularity tests), R-window-copy (duplicates copy each window field
from the same field), R-plane-slack (per-plane alignment slack), plus the
copy-on-write gate of C02 for write mappings (DESIGN §4 C19)."""
import re

from upv import facts
from upv import pathrules as pr
from upv.facts import strip, strip_all_casts, strip_expect, walk, is_assign, const_of, enum_name, path_of
from upv.own import cond_key_expr
from upv.report import Report, HOLDS, VIOLATED, UNDECIDED, OOS

PROP = 'C19'
UNITS = ['lib/upipe/ubuf_pic_common.c', 'lib/upipe/ubuf_sound_common.c', 'lib/upipe/ubuf_pic_mem.c',
         'lib/upipe/ubuf_sound_mem.c', 'lib/upipe/ubuf_pic.c']

MAPPERS = {'lib/upipe/ubuf_pic_common.c': ['ubuf_pic_common_plane_map'],
           'lib/upipe/ubuf_sound_common.c': ['ubuf_sound_common_plane_map']}


def signed_operand(n):
    """key of the signed value that an unsigned expression converts (implicit
    IntegralCast from a signed int), or None"""
    for x in walk(n):
        if x.get('k') == 'cast' and x.get('ck') == 'IntegralCast' and x.get('s') is False:
            e = x.get('e')
            while isinstance(e, dict) and e.get('k') == 'cast' and e.get('ck') == 'LValueToRValue':
                e = e['e']
            if isinstance(e, dict) and e.get('s') is True and e.get('k') in ('ref', 'bin', 'mem'):
                return cond_key_expr(e)
    return None


def all_conds(fn):
    """(block, condition tree) for every branch, the operands of && / ||
    chains included"""
    out = []
    for bid in fn.blocks:
        c = fn.cond(bid)
        if c:
            out.append((bid, c[0]))
    return out


def has_direct_guard(fn, kb, ka):
    """some condition of the function compares kb with ka directly (any
    direction, any strictness): the subtraction kb <= ka is then established
    on one side"""
    for bid, st, x in fn.nodes():
        if x.get('k') == 'bin' and x.get('op') in ('<', '>', '<=', '>=') and 'lhs' in x:
            l, r = cond_key_expr(x['lhs']), cond_key_expr(x['rhs'])
            # only direct comparisons: neither side may itself be the wrapping difference
            if {l, r} == {ka, kb}:
                return True
    return False


WRAP_CMDS = {
    'ubuf_pic_common_plane_map': ('UBUF_READ_PICTURE_PLANE', 'UBUF_WRITE_PICTURE_PLANE', r'ubuf_pic_size'),
    'ubuf_sound_common_plane_map': ('UBUF_READ_SOUND_PLANE', 'UBUF_WRITE_SOUND_PLANE', r'ubuf_sound_size'),
}


def wrapper_guards(prog, mapper, offset_param):
    """public header wrappers that issue the mapping commands, and whether
    each validates offset_param against the size obtained from X_size()
    before the command (signed comparison in the wrapper's callee closure)"""
    H = prog.hdr
    rd, wr, sizefn = WRAP_CMDS[mapper]
    res = {}
    for fn in H.funcs.values():
        cmds = set()
        for bid, s, x in fn.calls():
            if x.get('fn') == 'ubuf_control' and len(x.get('args', [])) > 1 and enum_name(x['args'][1]) in (rd, wr):
                cmds.add(enum_name(x['args'][1]))
        if not cmds:
            continue
        # closure over header callees
        seen, work = {}, [fn]
        while work:
            f = work.pop()
            if f.name in seen:
                continue
            seen[f.name] = f
            for bid, s, x in f.calls():
                g = H.funcs.get(x.get('fn') or '')
                if g is not None and g.blocks and g.name != 'ubuf_control':
                    work.append(g)
        guarded = False
        for f in seen.values():
            sized = set()
            for bid, s, x in f.calls():
                if re.match(sizefn, x.get('fn') or ''):
                    for a in x['args']:
                        a = strip_all_casts(a)
                        if isinstance(a, dict) and a.get('k') == 'un' and a.get('op') == '&':
                            e = strip_all_casts(a['e'])
                            if isinstance(e, dict) and e.get('k') == 'ref':
                                sized.add(e['n'])
            if not sized:
                continue
            for bid, s, x in f.nodes():
                if x.get('k') == 'bin' and x.get('op') in ('<', '>', '<=', '>=') and 'lhs' in x:
                    ln = {y.get('n') for y in walk(x['lhs']) if y.get('k') == 'ref'}
                    rn = {y.get('n') for y in walk(x['rhs']) if y.get('k') == 'ref'}
                    for a, b in ((ln, rn), (rn, ln)):
                        if any(re.match(r'^%s(_p)?$' % offset_param, n or '') for n in a) and (b & sized) and len(a) == 1:
                            guarded = True
        res[fn.name] = guarded
    return res


def run(tier='quick', repo=None):
    repo = repo or facts.REPO
    rep = Report(PROP, tier)
    rep.explanation = (
        'Decides structural clauses of C19 on the picture / sound window code: R-usub-cmp (no range check `x > size - offset` is evaluated in an '
        'unsigned type with a caller-supplied signed offset unless the function also compares that offset with the size directly: otherwise an '
        'offset beyond the buffer wraps to a huge bound and the request is accepted), R-gran (every caller-supplied offset/size of plane_map is '
        'tested modulo a granularity derived from macropixel / hsub / vsub before success), R-window-copy (ubuf_pic_common_dup / ubuf_sound_common_dup '
        'give each window field of the duplicate the value of the same field of the original), R-plane-slack (if a plane origin is shifted by an '
        'amount depending on the manager alignment, the size reserved for that plane depends on it too), R-resize-guarded (the window fields are '
        'stored by resize only under the margin comparisons). Write mappings under a single owner are decided by C02. Does not decide that the plane '
        'sizes computed at allocation cover all window arithmetic, nor content preservation.')
    prog = facts.load_program(UNITS, repo=repo)
    rep.units = sorted(prog.units)
    rep.nfuncs = sum(len(u.funcs) for u in prog.units.values())
    rep.rule('R-usub-cmp', 'comparison whose operand is an unsigned subtraction A - B with B converted from a signed caller-supplied value: the function must also contain a direct comparison of B with A')
    rep.rule('R-gran', 'plane_map: each of hoffset, voffset, hsize, vsize is the left operand of a %% whose right operand derives from macropixel/hsub (horizontal) or vsub (vertical), in a condition that leads to UBASE_ERR_INVALID')
    rep.rule('R-window-copy', 'X_common_dup: every window field (hmprepend, hmappend, hmsize, vprepend, vappend, vsize / size) of the new buffer receives the same-named field of the source, directly or through an initialiser whose parameter stores that field')
    rep.rule('R-plane-slack', 'ubuf_pic_mem_alloc: when the plane origin computation depends on pic_mgr->align, the value stored into plane_sizes[] depends on pic_mgr->align as well')
    rep.rule('R-resize-guarded', 'ubuf_pic_common_resize stores the six window fields only in blocks dominated by a condition that mentions hmhigh and vhigh (the allocated extent)')
    # ---- R-usub-cmp ------------------------------------------------------------------
    nsub = 0
    for uname in ('lib/upipe/ubuf_pic_common.c', 'lib/upipe/ubuf_sound_common.c'):
        u = prog.units[uname]
        for fn in sorted(u.funcs.values(), key=lambda f: f.name):
            if not fn.inmain or not fn.blocks:
                continue
            seen = set()
            for bid, s, x in fn.nodes():
                if not (x.get('k') == 'bin' and x.get('op') in ('<', '>', '<=', '>=') and 'lhs' in x):
                    continue
                for side in ('lhs', 'rhs'):
                    sub = strip_all_casts(x[side])
                    if not (isinstance(sub, dict) and sub.get('k') == 'bin' and sub.get('op') == '-' and sub.get('s') is False and 'lhs' in sub):
                        continue
                    kb = signed_operand(sub['rhs'])
                    ka = cond_key_expr(sub['lhs'])
                    if not kb or not ka:
                        continue
                    nsub += 1
                    inst = '%s:%s-%s' % (fn.name, ka, kb)
                    if inst in seen:
                        continue
                    seen.add(inst)
                    # the caller-supplied parameter the subtrahend derives from
                    ldefs = fn.local_defs()
                    pname = None
                    for y in walk(sub['rhs']):
                        if y.get('k') == 'ref':
                            nm = y['n']
                            seen_l = 0
                            while nm in ldefs and seen_l < 4:
                                seen_l += 1
                                inner = [z['n'] for z in walk(ldefs[nm]) if z.get('k') == 'ref' and z.get('d') in ('param', 'local')]
                                if not inner:
                                    break
                                nm = inner[0]
                            if any(p['n'] == nm for p in fn.params):
                                pname = nm
                    wg = wrapper_guards(prog, fn.name, pname) if (pname and fn.name in WRAP_CMDS) else {}
                    if has_direct_guard(fn, kb, ka):
                        rep.add('R-usub-cmp', inst, HOLDS, '%s:%s' % (fn.file, x.get('l')))
                    elif wg and all(wg.values()):
                        rep.add('R-usub-cmp', inst, HOLDS, '%s:%s' % (fn.file, x.get('l')), guarded_by_public_wrappers=sorted(wg),
                                note='%s is compared with the size in every public wrapper that issues the mapping command' % pname)
                    else:
                        unguarded = sorted(k for k, v in wg.items() if not v)[:6]
                        rep.add('R-usub-cmp', inst, VIOLATED, '%s:%s' % (fn.file, x.get('l')),
                                what='the range check at line %s computes %s - %s in an unsigned type and %s is never compared with %s, neither here nor in the public wrappers %s: with %s = %s + 1 the difference wraps to a huge value and a window beyond the buffer is accepted' % (
                                    x.get('l'), ka, kb, kb, ka, unguarded, kb, ka))
    if nsub < 1:
        raise facts.AnalysisBroken('no unsigned range check found in the plane mapping code')
    # ---- R-gran ----------------------------------------------------------------------
    u = prog.units['lib/upipe/ubuf_pic_common.c']
    fn = u.funcs.get('ubuf_pic_common_plane_map')
    if fn is None:
        raise facts.AnalysisBroken('anchor vanished: ubuf_pic_common_plane_map')
    ldefs = fn.local_defs()
    mods = {}
    for bid, s, x in fn.nodes():
        if x.get('k') == 'bin' and x.get('op') == '%' and 'lhs' in x:
            l = strip_all_casts(x['lhs'])
            r = strip_all_casts(x['rhs'])
            if isinstance(l, dict) and l.get('k') == 'ref':
                deps = set()
                rr = r
                if isinstance(rr, dict) and rr.get('k') == 'ref' and rr['n'] in ldefs:
                    rr = ldefs[rr['n']]
                for y in walk(rr) if isinstance(rr, dict) else []:
                    if y.get('k') == 'mem':
                        deps.add(y['f'])
                mods.setdefault(l['n'], set()).update(deps)
    for p, need in (('hoffset', {'macropixel', 'hsub'}), ('hsize', {'macropixel', 'hsub'}), ('voffset', {'vsub'}), ('vsize', {'vsub'})):
        got = mods.get(p, set())
        ok = need <= got
        rep.add('R-gran', 'ubuf_pic_common_plane_map:%s' % p, HOLDS if ok else VIOLATED, fn.loc, granularity_fields=sorted(got),
                **({} if ok else {'what': '%s is not tested modulo a granularity derived from %s' % (p, sorted(need))}))
    # ---- R-window-copy ------------------------------------------------------------------
    for uname, fname, rec, fields, initname in (
            ('lib/upipe/ubuf_pic_common.c', 'ubuf_pic_common_dup', 'ubuf_pic_common', ['hmprepend', 'hmappend', 'hmsize', 'vprepend', 'vappend', 'vsize'], 'ubuf_pic_common_init'),
            ('lib/upipe/ubuf_sound_common.c', 'ubuf_sound_common_dup', 'ubuf_sound_common', ['size'], 'ubuf_sound_common_init')):
        u = prog.units[uname]
        fn = u.funcs.get(fname)
        if fn is None:
            raise facts.AnalysisBroken('anchor vanished: %s' % fname)
        got = {}

        def srcfield(e):
            e = strip_all_casts(e)
            if isinstance(e, dict) and e.get('k') == 'mem' and e.get('rec') == rec:
                return e['f']
            return '?'
        for bid, s, x in fn.nodes():
            if is_assign(x) and x['op'] == '=':
                l = strip(x['lhs'])
                if isinstance(l, dict) and l.get('k') == 'mem' and l.get('rec') == rec and l['f'] in fields:
                    got[l['f']] = srcfield(x['rhs'])
            if x.get('k') == 'call' and x.get('fn'):
                g = prog.lookup(u, x['fn'])
                if g is None or not g.blocks or g.name == fname:
                    continue
                # parameter index -> field stored in the callee
                pmap = {}
                for b2, s2, y in g.nodes():
                    if is_assign(y) and y['op'] == '=':
                        l = strip(y['lhs'])
                        r = strip_all_casts(y['rhs'])
                        if isinstance(l, dict) and l.get('k') == 'mem' and l.get('rec') == rec and l['f'] in fields and \
                                isinstance(r, dict) and r.get('k') == 'ref' and r.get('d') == 'param':
                            pmap[r['pi']] = l['f']
                for pi, f in pmap.items():
                    if pi < len(x['args']):
                        got[f] = srcfield(x['args'][pi])
        for f in fields:
            ok = got.get(f) == f
            rep.add('R-window-copy', '%s:%s' % (fname, f), HOLDS if ok else VIOLATED, fn.loc,
                    **({} if ok else {'what': 'the duplicate\'s %s is taken from %s of the original' % (f, got.get(f, 'nothing'))}))
    # ---- R-plane-slack ---------------------------------------------------------------------
    u = prog.units['lib/upipe/ubuf_pic_mem.c']
    fn = u.funcs.get('ubuf_pic_mem_alloc')
    if fn is None:
        raise facts.AnalysisBroken('anchor vanished: ubuf_pic_mem_alloc')

    def depends_on_align(e, depth=0):
        for y in walk(e) if isinstance(e, dict) else []:
            if y.get('k') == 'mem' and y.get('f') == 'align':
                return True
        return False
    origin_dep = False
    size_dep = None
    for bid, s, x in fn.nodes():
        if is_assign(x) or x.get('k') == 'decl':
            if x.get('k') == 'decl':
                for v in x['vars']:
                    if v['n'].startswith('plane_buffer') and depends_on_align(v.get('init')):
                        origin_dep = True
                continue
            l = strip(x['lhs'])
            if isinstance(l, dict) and l.get('k') == 'ref' and l['n'].startswith('plane_buffer') and depends_on_align(x['rhs']):
                origin_dep = True
            if isinstance(l, dict) and l.get('k') == 'idx':
                b = strip_all_casts(l['b'])
                if isinstance(b, dict) and b.get('k') == 'ref' and b['n'] == 'plane_sizes':
                    size_dep = bool(size_dep) or depends_on_align(x['rhs'])
    if size_dep is None:
        rep.add('R-plane-slack', 'ubuf_pic_mem_alloc', UNDECIDED, fn.loc, why='no store to plane_sizes[] found')
    else:
        ok = (not origin_dep) or size_dep
        rep.add('R-plane-slack', 'ubuf_pic_mem_alloc', HOLDS if ok else VIOLATED, fn.loc, origin_depends_on_align=origin_dep, size_depends_on_align=size_dep,
                **({} if ok else {'what': 'each plane origin is shifted by up to pic_mgr->align octets but the size reserved for a plane does not include that slack: the end of one plane can overlap the start of the next'}))
    # ---- R-resize-guarded ---------------------------------------------------------------------
    u = prog.units['lib/upipe/ubuf_pic_common.c']
    fn = u.funcs.get('ubuf_pic_common_resize')
    if fn is None:
        raise facts.AnalysisBroken('anchor vanished: ubuf_pic_common_resize')
    ev = pr.Events(fn)
    dom = fn.dominators()
    wfields = ('hmprepend', 'hmappend', 'hmsize', 'vprepend', 'vappend', 'vsize')
    stores = ev.find(lambda n: (is_assign(n) and isinstance(strip(n['lhs']), dict) and strip(n['lhs']).get('k') == 'mem' and strip(n['lhs']).get('f') in wfields))
    # the four margin comparisons are the operands of one likely(a && b && c && d):
    # the condition of the dominating if is everything evaluated on its source line
    ok = bool(stores)
    for pos in stores:
        names = set()
        for d in dom.get(pos[0], set()):
            t = fn.term(d)
            if not t or t.get('cls') != 'IfStmt' or d == pos[0]:
                continue
            c = fn.cond(d)
            if not c or c[1] is None or c[1] not in dom.get(pos[0], set()):
                continue    # the store must be on the true arm
            for b2 in fn.blocks:
                for st in fn.stmts(b2):
                    for y in walk(st):
                        if y.get('k') == 'ref' and y.get('l') == t.get('l'):
                            names.add(y.get('n'))
        if not ({'hmhigh', 'vhigh'} <= names):
            ok = False
    rep.add('R-resize-guarded', 'ubuf_pic_common_resize', HOLDS if ok else VIOLATED, fn.loc, stores=len(stores),
            **({} if ok else {'what': 'a window field is stored on a path that has not compared the new window with both hmhigh and vhigh'}))
    # ---- R-offset-normalised ---------------------------------------------------------------
    rep.rule('R-offset-normalised', 'a function that subtracts one of its offset parameters (a signed value that, by the API, counts from the end when negative) from a '
             'size has first, on every path, given that parameter its normalised value under a `< 0` test: otherwise "up to the end" (size -1) from a '
             'negative offset yields more than the whole size and the function works outside the window')
    noff = 0
    units_ = dict(prog.units)
    for uname, u in sorted(units_.items()):
        for fn in sorted(u.funcs.values(), key=lambda f: f.name):
            if not fn.blocks or not fn.inmain:
                continue
            offs = [p_['n'] for p_ in fn.params if re.search(r'offset$', p_['n'] or '') and p_['t'] in ('int', 'int64_t', 'ssize_t', 'long')]
            if not offs:
                continue
            ev = pr.Events(fn)
            for o in offs:
                def is_o(n, o=o):
                    n = strip_all_casts(fn.resolve(n)) if isinstance(n, dict) else n
                    return isinstance(n, dict) and n.get('k') == 'ref' and n.get('d') == 'param' and n.get('n') == o

                def sub(n, o=o):
                    if n.get('k') == 'bin' and n.get('op') == '-' and is_o(n.get('rhs')):
                        return True
                    return is_assign(n) and n.get('op') == '-=' and is_o(n.get('rhs'))

                def norm(n, o=o):
                    return is_assign(n) and is_o(n.get('lhs')) and n.get('op') in ('=', '+=')
                subs = ev.find(sub)
                if not subs:
                    continue
                noff += 1
                # follow only the arms a negative value takes (tests `o < 0`, `o >= 0`, wrapped in unlikely())
                succ = dict(fn.succ)
                for b_ in fn.blocks:
                    c_ = fn.cond(b_)
                    if not c_:
                        continue
                    t_ = strip_all_casts(c_[0])
                    while isinstance(t_, dict) and t_.get('k') == 'call' and t_.get('fn') == '__builtin_expect' and t_.get('args'):
                        t_ = strip_all_casts(fn.resolve(t_['args'][0]))
                        while isinstance(t_, dict) and t_.get('k') == 'un' and t_.get('op') == '!' and isinstance(strip_all_casts(fn.resolve(t_['e'])), dict) and \
                                strip_all_casts(fn.resolve(t_['e'])).get('k') == 'un' and strip_all_casts(fn.resolve(t_['e'])).get('op') == '!':
                            t_ = strip_all_casts(fn.resolve(strip_all_casts(fn.resolve(t_['e']))['e']))
                    if isinstance(t_, dict) and t_.get('k') == 'bin' and t_.get('op') in ('<', '>=') and is_o(t_.get('lhs')) and const_of(strip_all_casts(fn.resolve(t_['rhs']))) == 0:
                        succ[b_] = [c_[1] if t_['op'] == '<' else c_[2]]

                class _V:
                    def __init__(self, f, sc):
                        self._f, self.succ = f, sc

                    def __getattr__(self, a):
                        return getattr(self._f, a)
                ev.fn = _V(fn, succ)
                bad = pr.must_precede(ev, norm, sub)
                ev.fn = fn
                rep.add('R-offset-normalised', '%s:%s' % (fn.name, o), VIOLATED if bad else HOLDS, fn.loc if not bad else '%s:%s' % (fn.file, bad[0][2].get('l')),
                        **({'what': '%s subtracts its parameter %s from a size (line %s) on a path where a negative value (counted from the end) has not been '
                                    'normalised: with size -1 the result exceeds the whole size' % (fn.name, o, bad[0][2].get('l'))} if bad else {}))
    if noff < 4:
        raise facts.AnalysisBroken('R-offset-normalised found only %d offset parameters used in subtractions' % noff)
    rep.assumptions = ['negative offsets are normalised by adding the size before the range checks (as the code does); sizes fit in int']
    from rules import c19model
    gprog = facts.load_program([c19model.PIC_COMMON, c19model.PIC_MEM, c19model.SND_COMMON], repo=repo)
    c19model.run_model(rep, gprog, tier)
    return rep
