"""C02 - shared buffer memory is copy-on-write.

R-cow-gate, R-cow-ref, R-cow-pure, R-cow-who (DESIGN §4 C02)."""
import re

from upv import facts
from upv import pathrules as pr
from upv.facts import (strip, strip_all_casts, strip_expect, walk, is_assign, is_incdec, const_of,
                       enum_name, path_of)
from upv.report import Report, HOLDS, VIOLATED, UNDECIDED, OOS

PROP = 'C02'
UNITS = ['lib/upipe/ubuf_block_mem.c', 'lib/upipe/ubuf_pic_mem.c', 'lib/upipe/ubuf_sound_mem.c',
         'lib/upipe/ubuf_mem.c', 'lib/upipe/ubuf_pic_common.c', 'lib/upipe/ubuf_sound_common.c',
         'lib/upipe/udict_inline.c']

RESTRUCTURING = ['ubuf_block_append', 'ubuf_block_insert', 'ubuf_block_delete', 'ubuf_block_truncate', 'ubuf_block_resize',
                 'ubuf_block_prepend', 'ubuf_block_splice', 'ubuf_block_split', 'ubuf_block_slice', 'ubuf_block_get',
                 'ubuf_block_common_dup', 'ubuf_block_common_splice', 'ubuf_block_common_init', 'ubuf_block_common_set']
BYTE_WRITERS = re.compile(r'^(memcpy|memmove|memset|__builtin_mem\w+|__builtin___mem\w+|strcpy|strncpy|ubuf_block_write|uref_block_write|'
                          r'\w+_plane_write\w*|ubuf_pic_clear|ubuf_pic_plane_clear|bzero)$')

# functions that may obtain the writable base pointer of a shared area
# (today's callers, confirmed by reading: allocation-time window computation,
# GET_SHARED offset computation, the inline dictionary's own storage)
BASE_POINTER_CALLERS = {
    'ubuf_mem_shared_buffer': 'the accessor itself (ubuf_mem_common.h)',
    'ubuf_block_mem_alloc': 'sets the window of a fresh or re-exported area at allocation',
    'ubuf_pic_mem_alloc': 'computes plane origins of a fresh area',
    '_ubuf_pic_mem_get_shared': 'returns an offset (pointer difference) into the area',
    'ubuf_sound_mem_alloc': 'computes plane origins of a fresh area',
    '_ubuf_sound_mem_get_shared': 'returns an offset (pointer difference) into the area',
}


def lookup_x(prog, unit, name):
    """definition of name: in the unit, in the header unit, or (external linkage) in another unit analysed"""
    g = prog.lookup(unit, name)
    if g is not None and g.blocks:
        return g
    for u2 in prog.units.values():
        g2 = u2.funcs.get(name)
        if g2 is not None and g2.blocks:
            return g2
    return g


def callee_closure(prog, unit, fn, stop_at=()):
    seen, work = {}, [fn]
    while work:
        f = work.pop()
        if f.name in seen:
            continue
        seen[f.name] = f
        for bid, s, x in f.calls():
            if x.get('fn') and x['fn'] not in stop_at:
                g = lookup_x(prog, unit if f.unit is unit else f.unit, x['fn'])
                if g is not None and g.blocks:
                    work.append(g)
    return seen


def byte_stores(prog, unit, fn):
    """[(function, line, what)] byte-store effects reachable from fn"""
    out = []
    for name, f in callee_closure(prog, unit, fn).items():
        for bid, s, x in f.nodes():
            if x.get('k') == 'call' and x.get('fn') and BYTE_WRITERS.match(x['fn']):
                out.append((f.name, x.get('l'), 'call to %s' % x['fn']))
            tgt = None
            if is_assign(x):
                tgt = strip(x['lhs'])
            elif is_incdec(x):
                tgt = strip(x.get('e'))
            if isinstance(tgt, dict) and tgt.get('k') in ('un', 'idx') and tgt.get('t') in ('uint8_t', 'unsigned char', 'char'):
                if tgt.get('k') == 'un' and tgt.get('op') != '*':
                    continue
                out.append((f.name, x.get('l'), 'store through a byte pointer'))
    return out


def narrow_free_value(fn, n, want_call, depth=0):
    """is n the result of call `want_call`, possibly through casts and
    single-definition locals none of which is narrower than 32 bits?"""
    while isinstance(n, dict) and depth < 6:
        depth += 1
        if n.get('k') == 'cast':
            if n.get('w') is not None and n['w'] < 32:
                return False
            n = n['e']
            continue
        if n.get('k') in ('opaque', 'choose'):
            n = n['e']
            continue
        if n.get('k') == 'ref' and n.get('d') == 'local':
            if n.get('w') is not None and n['w'] < 32:
                return False
            d = fn.local_defs().get(n['n'])
            if d is None:
                return False
            n = d
            continue
        if n.get('k') == 'call':
            return n.get('fn') == want_call
        if n.get('k') == 'atomic':
            return want_call.startswith('__atomic') and n.get('op') == want_call
        return False
    return False


def check_compare_one(rep, fn, call, rule, inst, what):
    """the function returns `call(...) == 1` without narrowing"""
    ok = False
    for bid, s in fn.all_stmts():
        if s.get('k') == 'return' and isinstance(s.get('e'), dict):
            e = strip_all_casts(s['e'])
            if isinstance(e, dict) and e.get('k') == 'bin' and e.get('op') == '==' and 'lhs' in e:
                if const_of(e['rhs']) == 1 and narrow_free_value(fn, e['lhs'], call):
                    ok = True
                elif const_of(e['lhs']) == 1 and narrow_free_value(fn, e['rhs'], call):
                    ok = True
    rep.add(rule, inst, HOLDS if ok else VIOLATED, fn.loc, **({} if ok else {'what': what}))


def run(tier='quick', repo=None):
    repo = repo or facts.REPO
    rep = Report(PROP, tier)
    rep.explanation = (
        'Decides four structural clauses of C02: R-cow-gate (a writable mapping is granted only under the single-owner test: ubuf_block_write passes '
        'UBUF_SINGLE and returns on its failure; the block manager answers UBUF_SINGLE from ubuf_mem_shared_single(); the picture/sound write handlers '
        'map only under it; the test compares the full-width atomic count with 1), R-cow-ref (dup/splice/re-export store ubuf_mem_shared_use(src) into '
        'the new handle on every success path, and the shared pointer is never copied uncounted), R-cow-pure (restructuring operations have, transitively, '
        'no byte-store effect), R-cow-who (only the frozen set of functions obtains the writable base pointer of a shared area). Does not decide that '
        'content seen through a handle is unchanged over histories (that also needs the window arithmetic of C03/C19).')
    prog = facts.load_program(UNITS, repo=repo)
    H = prog.hdr
    rep.units = sorted(prog.units) + ['include/upipe/*.h (header unit)']
    rep.nfuncs = len(H.funcs) + sum(len(u.funcs) for u in prog.units.values())
    rep.rule('R-cow-gate', 'see instance names: each is one obligation on one function')
    rep.rule('R-cow-ref', 'every success return of X_mem_dup / X_mem_splice / re-export allocation is preceded by new->shared = ubuf_mem_shared_use(...); every store to a `shared` field is a counted use, a fresh allocation or NULL')
    rep.rule('R-cow-pure', 'append, insert, delete, truncate, resize, prepend, splice, split, slice, get, common_dup/_splice/_init/_set and the managers\' UBUF_DUP / UBUF_SPLICE_BLOCK / UBUF_RESIZE_* handlers reach no memcpy/memset/memmove/*_write call and no store through a byte pointer')
    rep.rule('R-cow-who', 'ubuf_mem_shared_buffer is called only from the functions listed in coverage.tables.base_pointer_callers')
    for n in RESTRUCTURING + ['ubuf_block_write', 'ubuf_mem_shared_single', 'ubuf_mem_shared_use']:
        if n not in H.funcs:
            raise facts.AnalysisBroken('anchor vanished: %s' % n)
    # ---- gate -----------------------------------------------------------
    fn = H.funcs['ubuf_block_write']
    ev = pr.Events(fn)

    def single_call(n):
        return n.get('k') == 'call' and n.get('fn') == 'ubuf_control' and len(n.get('args', [])) >= 2 and enum_name(n['args'][1]) == 'UBUF_SINGLE'

    def ok_return(n):
        return n.get('k') == 'return' and isinstance(n.get('e'), dict) and enum_name(n['e']) == 'UBASE_ERR_NONE'
    sc = ev.find(single_call)
    ok = bool(sc) and not pr.must_precede(ev, single_call, ok_return)
    # its failure returns: the block holding the call ends in a test of the result
    if ok:
        pos = sc[0]

        def failed(ctree, pol):
            n, neg = strip_expect(fn.resolve(ctree))
            return isinstance(n, dict) and n.get('k') == 'call' and n.get('fn') == 'ubase_check' and pol != neg
        oks = ev.find(ok_return)
        ok = all(pr.control_dependent(fn, ev, o, failed) for o in oks)
    # and the arm taken when the single-owner test failed reaches no success return (whatever else is tested on the way)
    if ok:
        ldefs = fn.local_defs()
        ntests = 0
        for bid in fn.blocks:
            c = fn.cond(bid)
            if not c:
                continue
            n, neg = strip_expect(fn.resolve(c[0]))
            if not (isinstance(n, dict) and n.get('k') == 'call' and n.get('fn') == 'ubase_check' and n.get('args')):
                continue
            a = strip_all_casts(fn.resolve(n['args'][0]))
            if isinstance(a, dict) and a.get('k') == 'ref' and a.get('n') in ldefs:
                a = strip_all_casts(ldefs[a['n']])
            if not (isinstance(a, dict) and single_call(a)):
                continue
            ntests += 1
            failing = c[2] if not neg else c[1]
            if failing is None:
                continue
            reach = fn.reachable_from(failing)
            for b2 in reach:
                for st2 in fn.stmts(b2):
                    if ok_return(st2):
                        ok = False
        if not ntests:
            ok = False
    rep.add('R-cow-gate', 'ubuf_block_write:UBUF_SINGLE-before-success', HOLDS if ok else VIOLATED, fn.loc,
            **({} if ok else {'what': 'ubuf_block_write can return UBASE_ERR_NONE without ubuf_control(ubuf, UBUF_SINGLE) having succeeded (a path from the failure of the single-owner test reaches a success return)'}))
    check_compare_one(rep, H.funcs['ubuf_mem_shared_single'], 'uatomic_load', 'R-cow-gate', 'ubuf_mem_shared_single:full-width==1',
                      'ubuf_mem_shared_single must compare the 32-bit count returned by uatomic_load with 1 (no narrowing, no other bound)')
    ub = prog.units['lib/upipe/ubuf_block_mem.c']
    fs = ub.funcs.get('ubuf_block_mem_single')
    if fs is None:
        raise facts.AnalysisBroken('anchor vanished: ubuf_block_mem_single')
    okc = False
    for bid, s, x in fs.nodes():
        if x.get('k') == 'cond':
            c = strip_all_casts(fs.resolve(x.get('c')))
            a = fs.resolve(x.get('a'))
            b = fs.resolve(x.get('bb'))
            if isinstance(c, dict) and c.get('k') == 'call' and c.get('fn') == 'ubuf_mem_shared_single' and \
                    enum_name(a) == 'UBASE_ERR_NONE' and const_of(b) not in (None, 0):
                okc = True
    rep.add('R-cow-gate', 'ubuf_block_mem_single:NONE-only-if-single', HOLDS if okc else VIOLATED, fs.loc,
            **({} if okc else {'what': 'the UBUF_SINGLE handler must answer UBASE_ERR_NONE exactly when ubuf_mem_shared_single() is true'}))
    ctl = ub.funcs.get('ubuf_block_mem_control')
    okd = False
    if ctl:
        for bid in ctl.blocks:
            lab = ctl.label(bid)
            if lab and lab.get('n') == 'UBUF_SINGLE':
                for st in ctl.stmts(bid):
                    for x in walk(st):
                        if x.get('k') == 'call' and x.get('fn') == 'ubuf_block_mem_single':
                            okd = True
    rep.add('R-cow-gate', 'ubuf_block_mem_control:UBUF_SINGLE-dispatch', HOLDS if okd else VIOLATED, ctl.loc if ctl else None,
            **({} if okd else {'what': 'case UBUF_SINGLE must return ubuf_block_mem_single(ubuf)'}))
    for unit, ctlname, mapper in (('lib/upipe/ubuf_pic_mem.c', 'ubuf_pic_mem_control', 'ubuf_pic_common_plane_map'),
                                  ('lib/upipe/ubuf_sound_mem.c', 'ubuf_sound_mem_control', 'ubuf_sound_common_plane_map')):
        u = prog.units[unit]
        fnc = u.funcs.get(ctlname)
        if fnc is None:
            raise facts.AnalysisBroken('anchor vanished: %s' % ctlname)
        evc = pr.Events(fnc)
        # the write case: blocks reachable from the WRITE label only
        wl = [b for b in fnc.blocks if (fnc.label(b) or {}).get('n', '').startswith('UBUF_WRITE_')]
        if not wl:
            raise facts.AnalysisBroken('anchor vanished: UBUF_WRITE_* case in %s' % ctlname)
        wblocks = set()
        for b in wl:
            wblocks |= fnc.reachable_from(b)
        other = set()
        for b in fnc.blocks:
            lab = fnc.label(b)
            if lab and lab.get('k') in ('case', 'default') and b not in wl:
                other |= fnc.reachable_from(b)
        wonly = wblocks - other
        maps = [p for p in evc.find(pr.m_call(mapper)) if p[0] in wonly]

        def single_true(ctree, pol, fnc=fnc):
            n, neg = strip_expect(fnc.resolve(ctree))
            return isinstance(n, dict) and n.get('k') == 'call' and n.get('fn') == 'ubuf_mem_shared_single' and pol != neg
        okw = bool(maps) and all(pr.control_dependent(fnc, evc, m, single_true) for m in maps)
        rep.add('R-cow-gate', '%s:write-map-under-single' % ctlname, HOLDS if okw else VIOLATED, fnc.loc,
                **({'map_sites': len(maps)} if okw else {'what': 'the write-mapping case reaches %s without ubuf_mem_shared_single() having been true' % mapper}))
    # ---- ref ------------------------------------------------------------
    def shared_store(n):
        if not is_assign(n) or n['op'] != '=':
            return False
        l = strip(n['lhs'])
        return isinstance(l, dict) and l.get('k') == 'mem' and l.get('f') == 'shared' and (l.get('rec') or '').endswith('_mem')

    def counted(n):
        r = strip_all_casts(n['rhs'])
        return isinstance(r, dict) and r.get('k') == 'call' and r.get('fn') == 'ubuf_mem_shared_use'
    for unit in ('lib/upipe/ubuf_block_mem.c', 'lib/upipe/ubuf_pic_mem.c', 'lib/upipe/ubuf_sound_mem.c'):
        u = prog.units[unit]
        for fn in sorted(u.funcs.values(), key=lambda f: f.name):
            if not fn.blocks:
                continue
            ev = pr.Events(fn)
            for pos in ev.find(shared_store):
                n = pos[2]
                r = strip_all_casts(n['rhs'])
                okv = counted(n) or const_of(n['rhs']) == 0 or \
                    (isinstance(r, dict) and r.get('k') == 'call' and re.search(r'shared_alloc(_pool|_inner)?$', r.get('fn') or ''))
                rep.add('R-cow-ref', '%s:shared-store@L%s' % (fn.name, n.get('l') - fn.line), HOLDS if okv else VIOLATED,
                        '%s:%s' % (fn.file, n.get('l')),
                        **({} if okv else {'what': 'the shared-area pointer is copied without ubuf_mem_shared_use(): the owner count no longer covers this handle'}))
            if re.search(r'_mem_(dup|splice)$', fn.name):
                def succ(n):
                    return n.get('k') == 'return' and isinstance(n.get('e'), dict) and enum_name(n['e']) == 'UBASE_ERR_NONE'
                cs = pr.m_any(lambda n: shared_store(n) and counted(n))
                okr = bool(ev.find(succ)) and not pr.must_precede(ev, cs, succ)
                rep.add('R-cow-ref', '%s:success-needs-counted-use' % fn.name, HOLDS if okr else VIOLATED, fn.loc,
                        **({} if okr else {'what': '%s can return success without having stored ubuf_mem_shared_use(src->shared) into the new handle' % fn.name}))
    fa = ub.funcs.get('ubuf_block_mem_alloc')
    if fa is None:
        raise facts.AnalysisBroken('anchor vanished: ubuf_block_mem_alloc')
    ev = pr.Events(fa)

    def succ_ptr(n):
        return n.get('k') == 'return' and isinstance(n.get('e'), dict) and const_of(n['e']) != 0
    anystore = shared_store
    oka = bool(ev.find(succ_ptr)) and not pr.must_precede(ev, anystore, succ_ptr)
    rep.add('R-cow-ref', 'ubuf_block_mem_alloc:success-needs-shared', HOLDS if oka else VIOLATED, fa.loc,
            **({} if oka else {'what': 'an allocation path returns a block whose shared area pointer was never set'}))
    # ---- pure -----------------------------------------------------------
    for name in RESTRUCTURING:
        fn = H.funcs[name]
        bs = byte_stores(prog, H, fn)
        if bs:
            rep.add('R-cow-pure', name, VIOLATED, '%s' % fn.loc,
                    what='%s reaches a byte store: %s in %s (line %s); restructuring must never modify octets of a possibly shared area' % (name, bs[0][2], bs[0][0], bs[0][1]),
                    all_sites=[list(b) for b in bs[:6]])
        else:
            rep.add('R-cow-pure', name, HOLDS, fn.loc)
    for unit, ctlname in (('lib/upipe/ubuf_block_mem.c', 'ubuf_block_mem_control'), ('lib/upipe/ubuf_pic_mem.c', 'ubuf_pic_mem_control'),
                          ('lib/upipe/ubuf_sound_mem.c', 'ubuf_sound_mem_control')):
        u = prog.units[unit]
        fnc = u.funcs[ctlname]
        for b in sorted(fnc.blocks):
            lab = fnc.label(b)
            if not lab or lab.get('n') not in ('UBUF_DUP', 'UBUF_SPLICE_BLOCK', 'UBUF_RESIZE_PICTURE', 'UBUF_RESIZE_SOUND'):
                continue
            blocks = fnc.reachable_from(b)
            bs = []
            for bb in blocks:
                for st in fnc.stmts(bb):
                    for x in walk(st):
                        if x.get('k') == 'call' and x.get('fn'):
                            if BYTE_WRITERS.match(x['fn']):
                                bs.append((fnc.name, x.get('l'), 'call to %s' % x['fn']))
                            g = lookup_x(prog, u, x['fn'])
                            if g is not None and g.blocks and not g.name.endswith('_control'):
                                bs += byte_stores(prog, u, g)
            inst = '%s:%s' % (ctlname, lab['n'])
            if bs:
                rep.add('R-cow-pure', inst, VIOLATED, fnc.loc, what='handler reaches a byte store: %s in %s (line %s)' % (bs[0][2], bs[0][0], bs[0][1]))
            else:
                rep.add('R-cow-pure', inst, HOLDS, fnc.loc)
    # ---- who ------------------------------------------------------------
    rep.tables['base_pointer_callers'] = BASE_POINTER_CALLERS
    seen_callers = set()
    for uname, u in list(prog.units.items()) + [('headers', H)]:
        for fn in u.funcs.values():
            for bid, s, x in fn.calls():
                if x.get('fn') == 'ubuf_mem_shared_buffer':
                    seen_callers.add(fn.name)
                    if fn.name not in BASE_POINTER_CALLERS:
                        rep.add('R-cow-who', '%s:ubuf_mem_shared_buffer' % fn.name, VIOLATED, '%s:%s' % (fn.file, x.get('l')),
                                what='%s obtains the writable base pointer of a shared area; only %s may' % (fn.name, sorted(BASE_POINTER_CALLERS)))
    for c in sorted(seen_callers & set(BASE_POINTER_CALLERS)):
        rep.add('R-cow-who', c, HOLDS, None, reason=BASE_POINTER_CALLERS[c])
    if not seen_callers:
        raise facts.AnalysisBroken('no caller of ubuf_mem_shared_buffer found')
    rep.assumptions = ['byte stores are recognised as calls to the mem*/str*/…_write family or assignments through uint8_t/char pointers',
                       'indirect calls (ubuf_control -> manager) are followed through the three memory managers\' control functions only']
    return rep
