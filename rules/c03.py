"""C03 - segmented block buffers behave like byte strings (structural
clauses only).

R-err-atomic, R-total, R-alloc-single, and two cache-discipline rules
R-cache-refresh / R-cache-end (DESIGN §4 C03)."""
from upv import facts
from upv import pathrules as pr
from upv.facts import strip, strip_all_casts, walk, is_assign, is_incdec, const_of, enum_name, path_of
from upv.report import Report, HOLDS, VIOLATED, UNDECIDED, OOS

PROP = 'C03'

PUBLIC = ['ubuf_block_append', 'ubuf_block_insert', 'ubuf_block_delete', 'ubuf_block_truncate',
          'ubuf_block_resize', 'ubuf_block_prepend', 'ubuf_block_split']
INTERNAL = ['ubuf_block_slice', 'ubuf_block_get']
COMMON = ['ubuf_block_common_dup', 'ubuf_block_common_splice', 'ubuf_block_common_init', 'ubuf_block_common_set']

GEOM = ('offset', 'size', 'next_ubuf', 'total_size')


def blk_store(fields, value=None):
    def f(n):
        tgt = None
        if is_assign(n):
            tgt = strip(n['lhs'])
        elif is_incdec(n):
            tgt = strip(n.get('e'))
        if not (isinstance(tgt, dict) and tgt.get('k') == 'mem' and tgt.get('rec') == 'ubuf_block' and tgt.get('f') in fields):
            return False
        if value is None:
            return True
        if not is_assign(n) or n['op'] != '=':
            return False
        c = const_of(n['rhs'])
        if value == 'null':
            return c == 0
        if value == 'nonnull':
            return c != 0
        return False
    return f


def is_chain_store(n):
    """multiple assignment a = b = c: inner assignments are events too (walk
    visits them), nothing special to do"""
    return False


def success_return(fn):
    isptr = '*' in (fn.ret or '')

    def f(n):
        if n.get('k') != 'return' or not isinstance(n.get('e'), dict):
            return False
        if isptr:
            return const_of(n['e']) != 0
        en = enum_name(n['e'])
        if en:
            return en == 'UBASE_ERR_NONE'
        c = const_of(n['e'])
        if c is not None:
            return c == 0
        return True     # returns a callee's code: may be success
    return f


def error_return(fn):
    isptr = '*' in (fn.ret or '')

    def f(n):
        if n.get('k') != 'return' or not isinstance(n.get('e'), dict):
            return False
        if isptr:
            return const_of(n['e']) == 0
        en = enum_name(n['e'])
        return bool(en) and en.startswith('UBASE_ERR_') and en not in ('UBASE_ERR_NONE', 'UBASE_ERR_ALLOC')
    return f


def range_guard(fn, ev, G):
    """line of a branch on total_size that dominates every geometry mutation
    of fn and one of whose arms returns an error without mutating; None
    otherwise"""
    dom = fn.dominators()
    muts = ev.find(G)
    if not muts:
        return None
    for bid in fn.blocks:
        c = fn.cond(bid)
        if not c:
            continue
        ctree = c[0]
        # the condition of a && / || chain is spread over blocks: look at
        # every operand block that ends in this chain
        tl = fn.blocks[bid]['term'].get('l')
        has_total = any(x.get('k') == 'mem' and x.get('f') == 'total_size' for x in walk(ctree)) or \
            any(x.get('k') == 'mem' and x.get('f') == 'total_size' and x.get('l') == tl
                for b2 in fn.blocks for st in fn.stmts(b2) for x in walk(st))
        if not has_total:
            continue
        if not all(bid in dom.get(m[0], ()) for m in muts):
            continue
        # an arm that reaches an error return without any mutation
        er = error_return(fn)
        for succ in c[1:]:
            if succ is None:
                continue
            first = fn.stmts(succ)
            if any(er(x) for st in first for x in walk(st)):
                return fn.blocks[bid]['term'].get('l')
    return None



# ---- R-model (rules/c03model.py) in parallel over the segmentations ------------------------------------

_G = {}


def _model_job(job):
    from rules import c03model
    repo, tier, idx = job
    if _G.get('repo') != repo:
        _G['prog'] = facts.load_program([], repo=repo)
        _G['repo'] = repo
    sub = Report('tmp', tier)
    c03model.check_model(sub, _G['prog'], tier, only={idx})
    return [(o.instance, o.status, o.loc, o.detail) for o in sub.obs], sub.rules.get('R-model'), sub.tables.get('R-model')


def check_model_parallel(rep, repo, tier):
    import multiprocessing
    import os
    from rules import c03model
    _G['prog'] = facts.load_program([], repo=repo)
    _G['repo'] = repo
    N = 5 if tier == 'quick' else 6
    n = len(list(c03model.comps(N)))
    with multiprocessing.Pool(min(16, os.cpu_count() or 4)) as pool:
        out = pool.map(_model_job, [(repo, tier, i) for i in range(n)], chunksize=1)
    tot = {'operations_checked': 0, 'interpreted_calls': 0}
    seen = set()
    for obs, rule, tab in out:
        if rule:
            rep.rule('R-model', rule)
        for k in tot:
            tot[k] += (tab or {}).get(k, 0)
        for inst, status, loc, detail in obs:
            if status == VIOLATED:
                key = (inst.split(':')[0], str(detail.get('what', '')).split(' is ')[0].split(' returns ')[0][:50])
                if key in seen:
                    continue
                seen.add(key)
            rep.add('R-model', inst, status, loc, **detail)
    rep.tables['R-model'] = dict(tot, block_size=N, segmentations=n)
    if tot['operations_checked'] < 5000:
        raise facts.AnalysisBroken('R-model checked only %d operations' % tot['operations_checked'])


def run(tier='quick', repo=None, model=True):
    repo = repo or facts.REPO
    rep = Report(PROP, tier)
    rep.explanation = (
        'Decides structural clauses of C03 on the block API of include/upipe/ubuf_block.h, ubuf_block_common.h and the block memory manager: '
        'R-err-atomic (no constant error return of a primitive mutator is reached only through a geometry mutation), R-total (every mutator that '
        'changes a segment size or the chain also updates total_size), R-alloc-single (allocation links no second segment), R-cache-refresh (a mutator '
        'that changes a segment offset/size re-derives or resets the offset cache on every success path), R-cache-end (after unlinking or freeing '
        'segments the tail hint is rewritten or the link restored on every path). Does not decide equality with the byte-string model, the '
        'iteration logic of the accessors, nor the full coherence of the offset cache (a relational invariant over an unbounded chain).')
    prog = facts.load_program(['lib/upipe/ubuf_block_mem.c', 'lib/upipe/ubuf_block.c'] if False else ['lib/upipe/ubuf_block_mem.c'], repo=repo)
    H = prog.hdr
    rep.units = sorted(prog.units) + ['include/upipe/*.h (header unit)']
    rep.nfuncs = len(H.funcs) + sum(len(u.funcs) for u in prog.units.values())
    for n in PUBLIC + INTERNAL + COMMON:
        if n not in H.funcs:
            raise facts.AnalysisBroken('anchor vanished: %s' % n)
    rep.rule('R-err-atomic', 'primitive mutators (append, insert, delete, truncate, prepend, split, slice): a return of an error constant other than '
             'UBASE_ERR_ALLOC (NULL for split) must be reachable from the entry without passing a store to offset/size/next_ubuf/total_size of a block '
             'or a ubuf_free: otherwise every execution reporting that error has already changed the buffer')
    rep.rule('R-total', 'every public mutator that stores a segment size or a next_ubuf link also stores total_size')
    rep.rule('R-alloc-single', 'ubuf_block_mem_alloc and its callees store only NULL into next_ubuf')
    rep.rule('R-cache-refresh', 'public mutator storing a segment offset or size: no path runs from such a store to a success return, and none from the '
             'entry to such a store, ... without a call to ubuf_block_get / ubuf_block_truncate / ubuf_block_delete or stores to both cached_ubuf and cached_offset '
             '(the offset cache is re-derived or reset whenever segment geometry changes)')
    rep.rule('R-cache-end', 'after next_ubuf = NULL or ubuf_free(x->next_ubuf), every path to a success return stores cached_end_ubuf or stores a non-NULL '
             'next_ubuf again (the tail hint never keeps pointing into an unlinked chain)')
    geom = blk_store(GEOM)
    freecall = pr.m_call('ubuf_free')
    G = pr.m_any(geom, freecall)
    for name in ['ubuf_block_append', 'ubuf_block_insert', 'ubuf_block_delete', 'ubuf_block_truncate', 'ubuf_block_prepend',
                 'ubuf_block_split', 'ubuf_block_slice']:
        fn = H.funcs[name]
        ev = pr.Events(fn)
        er = error_return(fn)
        rets = ev.find(er)
        if not rets:
            rep.add('R-err-atomic', name + ':no-constant-error-return', HOLDS, fn.loc)
        guard = range_guard(fn, ev, G)
        for pos in rets:
            target = (lambda p: (lambda n: n is p[2]))(pos)
            hits, _ = ev.reach(None, target, G, from_entry=True)
            inst = '%s:return@L%s' % (name, pos[2].get('l') - fn.line)
            if hits:
                rep.add('R-err-atomic', inst, HOLDS, '%s:%s' % (fn.file, pos[2].get('l')))
            elif guard is not None:
                rep.add('R-err-atomic', inst, OOS, '%s:%s' % (fn.file, pos[2].get('l')),
                        why='defensive return after the chain walk: every mutation is dominated by the range test against total_size at line %s, '
                            'under which the walk always ends through the success label (arithmetic trusted, not decided)' % guard)
            else:
                rep.add('R-err-atomic', '%s:error-after-mutation' % name, VIOLATED, '%s:%s' % (fn.file, pos[2].get('l')),
                        what='the error return at line %s is only reachable after a store to segment geometry or a ubuf_free: the operation reports an error although it has already shrunk / unlinked segments' % pos[2].get('l'))
    # R-total
    for name in PUBLIC:
        fn = H.funcs[name]
        ev = pr.Events(fn)
        touches = ev.find(blk_store(('size', 'next_ubuf')))
        if not touches:
            rep.add('R-total', name, OOS, fn.loc, why='composite: no direct store to size / next_ubuf')
            continue
        tot = ev.find(blk_store(('total_size',)))
        rep.add('R-total', name, HOLDS if tot else VIOLATED, fn.loc,
                **({} if tot else {'what': '%s changes segment sizes or links but never updates total_size' % name}))
    # R-alloc-single
    u = prog.units['lib/upipe/ubuf_block_mem.c']
    fn = u.funcs.get('ubuf_block_mem_alloc')
    if fn is None:
        raise facts.AnalysisBroken('anchor vanished: ubuf_block_mem_alloc')
    seen, work, bad, nstores = set(), [fn], [], 0
    while work:
        f = work.pop()
        if f.name in seen:
            continue
        seen.add(f.name)
        for bid, s, x in f.nodes():
            if blk_store(('next_ubuf',))(x):
                nstores += 1
                if not blk_store(('next_ubuf',), 'null')(x):
                    bad.append((f, x))
            if x.get('k') == 'call' and x.get('fn'):
                g = prog.lookup(u, x['fn'])
                if g is not None and g.blocks and (g.unit is u or g.name.startswith('ubuf_block_common')):
                    work.append(g)
    init = H.funcs['ubuf_block_common_init']
    evi = pr.Events(init)
    _, ex = evi.reach(None, lambda n: False, blk_store(('next_ubuf',), 'null'), from_entry=True)
    ok = not bad and nstores > 0 and not ex and 'ubuf_block_common_init' in seen
    rep.add('R-alloc-single', 'ubuf_block_mem_alloc', HOLDS if ok else VIOLATED, fn.loc,
            **({'functions': sorted(seen)} if ok else {'what': 'allocation path stores a non-NULL next_ubuf or does not initialise it to NULL: ' + str([(f.name, x.get('l')) for f, x in bad])}))
    # R-cache-refresh
    refresh_call = pr.m_call(r'ubuf_block_get|ubuf_block_truncate|ubuf_block_delete')
    for name in PUBLIC:
        fn = H.funcs[name]
        ev = pr.Events(fn)
        S = blk_store(('offset', 'size'))
        stores = ev.find(S)
        if not stores:
            rep.add('R-cache-refresh', name, OOS, fn.loc, why='no direct store to a segment offset / size')
            continue
        sr = success_return(fn)
        # a refresh is either a call, or the *pair* of stores; treat each
        # store of the pair as refreshing only if the other one also lies on
        # every path: approximated by requiring cached_ubuf to be stored
        # (cached_offset alone, as an adjustment, does not re-derive anything)
        R = pr.m_any(refresh_call, blk_store(('cached_ubuf',)))
        bad = None
        for pos in stores:
            before, _ = ev.reach(None, (lambda p: (lambda n: n is p[2]))(pos), R, from_entry=True)
            if not before:
                continue        # every path to this store already refreshed
            after, _ = ev.reach((pos[0], pos[1]), sr, R)
            if after:
                bad = (pos, after[0])
                break
        if bad:
            rep.add('R-cache-refresh', name, VIOLATED, '%s:%s' % (fn.file, bad[0][2].get('l')),
                    what='%s changes a segment %s at line %s and returns success at line %s without re-deriving (ubuf_block_get) or resetting (cached_ubuf / cached_offset) the offset cache' % (
                        name, strip(bad[0][2].get('lhs') or bad[0][2].get('e')).get('f'), bad[0][2].get('l'), bad[1][2].get('l')))
        else:
            rep.add('R-cache-refresh', name, HOLDS, fn.loc, stores=len(stores))
    # R-cache-end
    for name in PUBLIC + INTERNAL + ['ubuf_block_common_dup', 'ubuf_block_common_splice']:
        fn = H.funcs[name]
        ev = pr.Events(fn)

        def unlink(n):
            if blk_store(('next_ubuf',), 'null')(n):
                return True
            if n.get('k') == 'call' and n.get('fn') == 'ubuf_free' and n.get('args'):
                a = strip_all_casts(n['args'][0])
                return isinstance(a, dict) and a.get('k') == 'mem' and a.get('f') == 'next_ubuf'
            return False
        us = ev.find(unlink)
        if not us:
            continue
        sr = success_return(fn)
        fixed = pr.m_any(blk_store(('cached_end_ubuf',)), blk_store(('next_ubuf',), 'nonnull'))
        # a void-ish fallthrough counts as success too
        bad = None
        for pos in us:
            hits, ex = ev.reach((pos[0], pos[1]), sr, fixed)
            if hits or (ex and fn.ret == 'void'):
                bad = pos
                break
        if bad:
            rep.add('R-cache-end', name, VIOLATED, '%s:%s' % (fn.file, bad[2].get('l')),
                    what='%s unlinks / frees the segments after a block (line %s) and can return success without rewriting cached_end_ubuf: a later append would link into the released chain' % (name, bad[2].get('l')))
        else:
            rep.add('R-cache-end', name, HOLDS, fn.loc, unlink_sites=len(us))
    if model:
        check_model_parallel(rep, repo, tier)
    rep.assumptions = ['the chain fields are only written by the functions of ubuf_block.h / ubuf_block_common.h and the block manager (checked by C02 R-cow-who for buffers; not re-checked here)']
    return rep
