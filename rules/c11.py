"""C11 - timestamp algebra: cr / dts / pts views of a date stay consistent.

Affine-form evaluation (DESIGN §3.6) of the accessors generated in
uref_clock.h: the abstract machine of upv.absint runs their CFGs with the
stored date and the three delays as symbols; values are integer linear forms
modulo 2^64, so every identity holds for all 64-bit dates, wrap-around
included.  No solver: forms are compared syntactically."""
import itertools

from upv import facts, effects
from upv.absint import Machine, Lin, SYM, Finding, Undecided, explore, M64
from upv.facts import strip, strip_all_casts, walk, is_assign
from upv.report import Report, HOLDS, VIOLATED, UNDECIDED, OOS

PROP = 'C11'

NONE, CR, DTS, PTS = 0, 1, 2, 3
TNAME = {NONE: 'none', CR: 'cr', DTS: 'dts', PTS: 'pts'}
UNSET = M64


class ClockMachine(Machine):
    def __init__(self, prog, unit, fields):
        Machine.__init__(self, prog, unit)
        self.f = dict(fields)
        self.stores = []

    def field_load(self, obj, rec, field):
        if rec == 'uref':
            return self.f.get(field, SYM)
        return SYM

    def field_store(self, obj, rec, field, v, node):
        if rec == 'uref':
            self.f[field] = v
            self.stores.append((field, v, node.get('l'), list(self.compares)))

    def call(self, fn, node, args, env, depth):
        name = node.get('fn')
        if name is None:
            raise NotImplementedError
        if name == 'ubase_check':
            v = self.eval(fn, args[0], env, depth)
            return SYM if not isinstance(v, int) else int(v == 0)
        callee = self.prog.lookup(self.unit, name)
        if callee is not None and callee.blocks and name.startswith('uref_clock_'):
            return self.run(callee, [self.eval(fn, a, env, depth) for a in args], depth + 1)
        raise NotImplementedError


def flags_of(shifts, types):
    v = 0
    for dv, t in types.items():
        v |= t << shifts[dv]
    return v


def run(tier='quick', repo=None):
    repo = repo or facts.REPO
    rep = Report(PROP, tier)
    rep.level = 'proof'
    rep.exhaustive = True
    rep.explanation = (
        'Affine-form evaluation of the uref_clock.h accessors of the three domains: their CFGs are run by the abstract machine with the stored '
        'date and the delays as symbols (integer linear forms modulo 2^64), over the finite discriminants stored type in {cr,dts,pts} x each delay '
        'set / unset x branch outcomes. Obligations: dts - cr = cr_dts_delay, pts - dts = dts_pts_delay, cr - rap = rap_cr_delay whichever type '
        'is stored; set_T(d) then get_T gives d; rebase_T keeps every date that could be read before and the delays; getters store nothing into '
        'the uref; set_rap stores cr - rap only on the branch where !(rap > cr) with cr the derived clock reference; uref_dup_inner copies and '
        'uref_init initialises every date / delay field. Because forms are compared modulo 2^64 the identities hold for all dates, wrap-around '
        'included. Does not decide add_date saturation nor what set_date of a NEW value does to the other domains (not promised).')
    prog = facts.load_program([], repo=repo)
    H = prog.hdr
    rep.units = ['include/upipe/*.h (header unit)']
    rep.nfuncs = len(H.funcs)
    domains = ['sys', 'prog', 'orig']
    needed = ['uref_clock_get_%s_%s' % (t, d) for t in ('cr', 'dts', 'pts', 'rap') for d in domains] + \
             ['uref_clock_set_%s_%s' % (t, d) for t in ('cr', 'dts', 'pts', 'rap') for d in domains] + \
             ['uref_clock_rebase_%s_%s' % (t, d) for t in ('cr', 'dts', 'pts') for d in domains] + ['uref_dup_inner', 'uref_init']
    for n in needed:
        if n not in H.funcs:
            raise facts.AnalysisBroken('anchor vanished: %s' % n)
    enums = H.enumerators
    shifts = {}
    from upv.facts import const_of
    for d in domains:
        g = H.funcs.get('uref_clock_get_date_%s' % d)
        if g is None:
            raise facts.AnalysisBroken('anchor vanished: uref_clock_get_date_%s' % d)
        for bid, st, x in g.nodes():
            if x.get('k') == 'bin' and x.get('op') == '>>' and 'lhs' in x:
                l = strip_all_casts(x['lhs'])
                if isinstance(l, dict) and l.get('k') == 'mem' and l.get('f') == 'flags' and const_of(x['rhs']) is not None:
                    shifts[d] = const_of(x['rhs'])
        if d not in shifts:
            raise facts.AnalysisBroken('date type shift of domain %s not found' % d)
    for nm, v in (('UREF_DATE_NONE', NONE), ('UREF_DATE_CR', CR), ('UREF_DATE_DTS', DTS), ('UREF_DATE_PTS', PTS)):
        if enums.get(nm) != v:
            raise facts.AnalysisBroken('enum %s is %s, expected %s' % (nm, enums.get(nm), v))
    rep.rule('R-clock-consistent', 'for each domain and stored type, with the needed delays set: form(get_dts) - form(get_cr) = cr_dts_delay, form(get_pts) - form(get_dts) = dts_pts_delay, form(get_cr) - form(get_rap) = rap_cr_delay')
    rep.rule('R-clock-setget', 'set_T(d) on any previous state, then get_T, yields exactly d')
    rep.rule('R-clock-rebase', 'rebase_T from any stored type: get_cr/dts/pts/rap have the same forms before and after, the three delays too; when a needed delay is unset it returns an error before any store')
    rep.rule('R-clock-getpure', 'get_* store nothing into the uref')
    rep.rule('R-clock-rap', 'set_rap stores rap_cr_delay only on the branch where rap > cr is false, cr being the derived clock reference, and stores cr - rap')
    rep.rule('R-dup-all-fields', 'every field of struct uref other than uchain/mgr/ubuf/udict is assigned in uref_dup_inner from the same field of the source and assigned in uref_init')
    U = ('obj', 'uref')
    D, A, B, R = Lin.sym('date'), Lin.sym('cr_dts_delay'), Lin.sym('dts_pts_delay'), Lin.sym('rap_cr_delay')

    def state(dv, t, a=A, b=B, r=R, date=D):
        types = {d: NONE for d in domains}
        types[dv] = t
        f = {'flags': flags_of(shifts, types), 'cr_dts_delay': a, 'dts_pts_delay': b, 'rap_cr_delay': r}
        for d in domains:
            f['date_' + d] = date if d == dv else UNSET
        return f

    def call(fname, fields, extra_args=(), want_out=True):
        """runs fname(uref, [&out | args]); returns list of (ret, out, machine)"""
        fn = H.funcs[fname]
        res = []

        def mk():
            return ClockMachine(prog, H, fields)
        holder = {}

        def args_of(m):
            env = holder.setdefault(id(m), {})
            m.cells[(id(env), 'out')] = env
            env['out'] = SYM
            a = [U]
            if want_out:
                a.append(('addr', 'var', 'out', id(env)))
            return a + list(extra_args)
        for m, out in explore(mk, fn, args_of):
            env = holder.get(id(m), {})
            if out[0] == 'ok':
                res.append((out[1], env.get('out'), m))
            else:
                res.append((out, None, m))
        return res

    def single(fname, fields, extra=(), want_out=True):
        r = call(fname, fields, extra, want_out)
        return r

    def norm(v):
        return Lin.of(v) if isinstance(v, (int, Lin)) and not isinstance(v, bool) else v
    # ---- consistency ---------------------------------------------------------
    for dv in domains:
        for t in (CR, DTS, PTS):
            forms = {}
            ok = True
            why = ''
            for g in ('cr', 'dts', 'pts', 'rap'):
                rs = single('uref_clock_get_%s_%s' % (g, dv), state(dv, t))
                if len(rs) != 1 or rs[0][0] != 0 or not isinstance(norm(rs[0][1]), Lin):
                    ok, why = False, 'get_%s_%s does not return one definite form with all delays set (%s)' % (g, dv, [(r[0], r[1]) for r in rs][:3])
                    break
                forms[g] = norm(rs[0][1])
                if rs[0][2].stores:
                    rep.add('R-clock-getpure', 'uref_clock_get_%s_%s:stores' % (g, dv), VIOLATED, H.funcs['uref_clock_get_%s_%s' % (g, dv)].loc,
                            what='getter stores into uref.%s' % rs[0][2].stores[0][0])
            inst = '%s:stored-as-%s' % (dv, TNAME[t])
            if ok:
                checks = (('dts-cr', forms['dts'].add(forms['cr'], -1), A), ('pts-dts', forms['pts'].add(forms['dts'], -1), B),
                          ('cr-rap', forms['cr'].add(forms['rap'], -1), R))
                for nm, got, want in checks:
                    if got != want:
                        ok, why = False, '%s = %s, expected %s (forms: %s)' % (nm, got, want, {k: str(v) for k, v in forms.items()})
                        break
            rep.add('R-clock-consistent', inst, HOLDS if ok else VIOLATED, H.funcs['uref_clock_get_pts_%s' % dv].loc,
                    **({'forms': {k: str(v) for k, v in forms.items()}} if ok else {'what': why}))
    for g in ('cr', 'dts', 'pts', 'rap'):
        for dv in domains:
            if not any(o.rule == 'R-clock-getpure' and o.instance.startswith('uref_clock_get_%s_%s:' % (g, dv)) for o in rep.obs):
                rep.add('R-clock-getpure', 'uref_clock_get_%s_%s' % (g, dv), HOLDS, H.funcs['uref_clock_get_%s_%s' % (g, dv)].loc)
    # ---- set then get ---------------------------------------------------------
    NEW = Lin.sym('d')
    for dv in domains:
        for t0 in (NONE, CR, DTS, PTS):
            for a0, b0 in itertools.product((A, UNSET), (B, UNSET)):
                for t in (CR, DTS, PTS):
                    tn = TNAME[t]
                    inst = '%s:%s-after-%s%s%s' % (dv, tn, TNAME[t0], '' if a0 is A else ',cr_dts_unset', '' if b0 is B else ',dts_pts_unset')
                    rs = single('uref_clock_set_%s_%s' % (tn, dv), state(dv, t0, a=a0, b=b0), extra=(NEW,), want_out=False)
                    bad = None
                    for ret, _, m in rs:
                        if isinstance(ret, tuple):
                            bad = 'set did not complete: %s' % (ret,)
                            break
                        gs = single('uref_clock_get_%s_%s' % (tn, dv), m.f)
                        for gret, gout, gm in gs:
                            if gret != 0 or norm(gout) != NEW:
                                bad = 'after set_%s(d), get_%s returns %s (error %s); branch outcomes %s' % (tn, tn, gout, gret, [(c[0], str(c[1]), str(c[2]), c[3]) for c in m.compares])
                                break
                        if bad:
                            break
                    rep.add('R-clock-setget', inst, VIOLATED if bad else HOLDS, H.funcs['uref_clock_set_%s_%s' % (tn, dv)].loc,
                            **({'what': bad} if bad else {}))
    # ---- rebase ----------------------------------------------------------------
    for dv in domains:
        for t0 in (CR, DTS, PTS):
            for t in (CR, DTS, PTS):
                tn = TNAME[t]
                inst = '%s:rebase-%s-from-%s' % (dv, tn, TNAME[t0])
                before = {}
                for g in ('cr', 'dts', 'pts', 'rap'):
                    rs = single('uref_clock_get_%s_%s' % (g, dv), state(dv, t0))
                    before[g] = norm(rs[0][1]) if len(rs) == 1 else None
                rs = single('uref_clock_rebase_%s_%s' % (tn, dv), state(dv, t0), want_out=False)
                bad = None
                for ret, _, m in rs:
                    if ret != 0:
                        bad = 'rebase fails although all delays are set (%s)' % (ret,)
                        break
                    for k, want in (('cr_dts_delay', A), ('dts_pts_delay', B), ('rap_cr_delay', R)):
                        if norm(m.f.get(k)) != want:
                            bad = '%s changed to %s (branch outcomes %s)' % (k, m.f.get(k), [(c[0], str(c[1]), str(c[2]), c[3]) for c in m.compares])
                    for g in ('cr', 'dts', 'pts', 'rap'):
                        gs = single('uref_clock_get_%s_%s' % (g, dv), m.f)
                        if len(gs) != 1 or gs[0][0] != 0 or norm(gs[0][1]) != before[g]:
                            bad = 'get_%s was %s before the rebase and is %s after' % (g, before[g], gs[0][1] if gs else None)
                    if bad:
                        break
                rep.add('R-clock-rebase', inst, VIOLATED if bad else HOLDS, H.funcs['uref_clock_rebase_%s_%s' % (tn, dv)].loc,
                        **({'what': bad} if bad else {}))
        # unset delay: error before any store
        for t0, t, a0, b0 in ((CR, DTS, UNSET, B), (CR, PTS, A, UNSET), (DTS, PTS, A, UNSET), (PTS, DTS, A, UNSET), (PTS, CR, UNSET, B), (DTS, CR, UNSET, B)):
            tn = TNAME[t]
            inst = '%s:rebase-%s-from-%s-delay-unset' % (dv, tn, TNAME[t0])
            rs = single('uref_clock_rebase_%s_%s' % (tn, dv), state(dv, t0, a=a0, b=b0), want_out=False)
            bad = None
            for ret, _, m in rs:
                if ret == 0 or isinstance(ret, tuple):
                    bad = 'rebase reports %s although a needed delay is unset' % (ret,)
                elif m.stores:
                    bad = 'rebase fails after having stored uref.%s' % m.stores[0][0]
            rep.add('R-clock-rebase', inst, VIOLATED if bad else HOLDS, H.funcs['uref_clock_rebase_%s_%s' % (tn, dv)].loc,
                    **({'what': bad} if bad else {}))
    # ---- delete_date: one domain only ---------------------------------------------------
    rep.rule('R-clock-delete', 'uref_clock_delete_date_D on a uref that carries dates in all three domains: it stores nothing but the date and the type bits of D - the '
             'other domains keep their date and type, and the delays (cr_dts_delay, dts_pts_delay, rap_cr_delay), which the three domains share, are untouched: '
             'every view of the other domains reads as before')
    for dv in domains:
        fdel = H.funcs.get('uref_clock_delete_date_%s' % dv)
        if fdel is None:
            raise facts.AnalysisBroken('anchor vanished: uref_clock_delete_date_%s' % dv)
        for t_all in (CR, DTS, PTS):
            types = {d: t_all for d in domains}
            fields = {'flags': flags_of(shifts, types), 'cr_dts_delay': A, 'dts_pts_delay': B, 'rap_cr_delay': R}
            for d in domains:
                fields['date_' + d] = Lin.sym('date_' + d)
            rs = single('uref_clock_delete_date_%s' % dv, fields, want_out=False)
            bad = None
            after_types = dict(types)
            after_types[dv] = NONE
            for ret, _, m in rs:
                for fld, val in [(s_[0], s_[1]) for s_ in m.stores]:
                    if fld == 'flags':
                        if isinstance(val, int) and val != flags_of(shifts, after_types):
                            bad = 'the type bits become %#x, expected %#x (only those of %s cleared)' % (val, flags_of(shifts, after_types), dv)
                    elif fld != 'date_' + dv:
                        bad = 'it stores uref.%s, which the other domains read through (every date of another domain stored as DTS / PTS derives its other views from it)' % fld
            rep.add('R-clock-delete', '%s:delete-date-all-stored-as-%s' % (dv, TNAME[t_all]), VIOLATED if bad else HOLDS, fdel.loc, **({'what': bad} if bad else {}))
    # ---- set_rap ------------------------------------------------------------------
    RAP = Lin.sym('rap')
    for dv in domains:
        for t0 in (CR, DTS, PTS):
            inst = '%s:set_rap-stored-as-%s' % (dv, TNAME[t0])
            crs = single('uref_clock_get_cr_%s' % dv, state(dv, t0, r=UNSET))
            crform = norm(crs[0][1])
            rs = single('uref_clock_set_rap_%s' % dv, state(dv, t0, r=UNSET), extra=(RAP,), want_out=False)
            bad = None
            nstore = 0
            for ret, _, m in rs:
                st = [s for s in m.stores if s[0] == 'rap_cr_delay']
                if ret == 0 and not st:
                    bad = 'success without recording the delay'
                for field, v, line, compares in st:
                    nstore += 1
                    guard = [c for c in compares if c[0] in ('>', '<=', '<', '>=')]
                    okg = any((c[0] == '>' and c[1] == RAP and c[2] == crform and c[3] is False) or
                              (c[0] == '<=' and c[1] == RAP and c[2] == crform and c[3] is True) or
                              (c[0] == '<' and c[1] == crform and c[2] == RAP and c[3] is False) or
                              (c[0] == '>=' and c[1] == crform and c[2] == RAP and c[3] is True) for c in guard)
                    if not okg:
                        bad = 'rap_cr_delay stored (line %s) on a path that has not established rap <= cr with cr = %s; comparisons on the path: %s' % (
                            line, crform, [(c[0], str(c[1]), str(c[2]), c[3]) for c in compares])
                    elif norm(v) != crform.add(RAP, -1):
                        bad = 'rap_cr_delay stored as %s, expected cr - rap = %s' % (v, crform.add(RAP, -1))
            if not bad and nstore == 0:
                bad = 'no path stores rap_cr_delay'
            rep.add('R-clock-rap', inst, VIOLATED if bad else HOLDS, H.funcs['uref_clock_set_rap_%s' % dv].loc, **({'what': bad} if bad else {}))
    # ---- dup / init copy every field ---------------------------------------------------
    rec = H.records.get('uref')
    if not rec:
        raise facts.AnalysisBroken('struct uref not found')
    skip = {'uchain', 'mgr', 'ubuf', 'udict'}
    fields = [f['n'] for f in rec['fields'] if f['n'] not in skip]
    for fname, need_same in (('uref_dup_inner', True), ('uref_init', False)):
        fn = H.funcs[fname]
        assigned = {}
        for bid, s, x in fn.nodes():
            if is_assign(x) and x['op'] == '=':
                l = strip(x['lhs'])
                if isinstance(l, dict) and l.get('k') == 'mem' and l.get('rec') == 'uref':
                    r = strip_all_casts(x['rhs'])
                    src = r.get('f') if isinstance(r, dict) and r.get('k') == 'mem' and r.get('rec') == 'uref' else None
                    assigned[l['f']] = src
                    # chained assignment a = b = v
                    while isinstance(r, dict) and is_assign(r):
                        l2 = strip(r['lhs'])
                        if isinstance(l2, dict) and l2.get('k') == 'mem':
                            assigned[l2['f']] = None
                        r = strip_all_casts(r['rhs'])
        for f in fields:
            ok = f in assigned and (not need_same or assigned[f] == f)
            rep.add('R-dup-all-fields', '%s:%s' % (fname, f), HOLDS if ok else VIOLATED, fn.loc,
                    **({} if ok else {'what': '%s does not %s uref.%s' % (fname, 'copy the source\'s' if need_same else 'initialise', f)}))
    rep.tables['uref_fields'] = fields
    rep.assumptions = ['a symbolic value that is "set" differs from the unset marker UINT64_MAX and from any other particular constant',
                       'order comparisons between forms that are not syntactically equal are explored both ways']
    return rep
