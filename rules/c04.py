"""C04 - ready first, dead last, flow definition before data.

R-ready, R-dead, R-gate (DESIGN §4 C04)."""
import os

import re
from upv import facts, control, throws
from upv import pathrules as pr
from upv.facts import strip, strip_all_casts, walk, is_assign, const_of, enum_name, path_of
from upv.report import Report, HOLDS, VIOLATED, UNDECIDED, OOS
from rules.c20 import list_units

PROP = 'C04'
QUICK_DIRS = ['lib/upipe-modules']
THOROUGH_DIRS = ['lib/upipe-modules', 'lib/upipe-filters', 'lib/upipe-pthread']
STUB_DIRS = ['lib/upipe-ts', 'lib/upipe-framers']


def load(tier, repo, rep, dirs_quick=QUICK_DIRS, dirs_thorough=THOROUGH_DIRS):
    dirs = dirs_quick if tier == 'quick' else dirs_thorough
    units = list_units(repo, dirs)
    prog = facts.load_with_stubs(units, list_units(repo, STUB_DIRS) if tier == 'thorough' else [], repo=repo)
    rep.units = sorted(prog.units)
    rep.not_analysed = {k: (v[0] if v else '') for k, v in prog.failed.items()}
    rep.nfuncs = sum(len(u.funcs) for u in prog.units.values()) + len(prog.hdr.funcs)
    return prog


def m_dead(T, fn, root, ldefs):
    def f(n):
        return n.get('k') == 'call' and n.get('fn') == 'upipe_throw_dead' and n.get('args') and T.same_pipe(fn, n['args'][0], root, ldefs)
    return f


def check_dead(rep, prog, T, u, fn):
    ldefs = fn.local_defs()
    ev = pr.Events(fn)
    deads = [p for p in ev.find(lambda n: n.get('k') == 'call' and n.get('fn') == 'upipe_throw_dead')]
    if not deads:
        return
    # which pipe: parameter index designated by the argument
    root = None
    for i, p in enumerate(fn.params):
        if T.same_pipe(fn, deads[0][2]['args'][0], i, ldefs):
            root = i
            break
    if root is None:
        rep.add('R-dead', fn.name, UNDECIDED, fn.loc, why='upipe_throw_dead on a pipe that is not a parameter of the function')
        return
    isdead = m_dead(T, fn, root, ldefs)
    cache = {}

    def after_event(n):
        if n.get('k') != 'call':
            return False
        i = n.get('i')
        if i not in cache:
            if isdead(n):
                cache[i] = [('throw:upipe_throw_dead', 'second upipe_throw_dead at %s:%s' % (fn.file, n.get('l')))]
            else:
                cache[i] = T.events_of_call(u, fn, n, root, ldefs)
        return bool(cache[i])
    bad = pr.never_after(ev, isdead, after_event)
    seen = set()
    for apos, bpos in bad:
        n = bpos[2]
        for kind, desc in cache[n['i']]:
            inst = '%s:%s:%s' % (fn.name, kind, n.get('fn'))
            if inst in seen:
                continue
            seen.add(inst)
            rep.add('R-dead', inst, VIOLATED, '%s:%s' % (fn.file, n.get('l')),
                    what='after upipe_throw_dead (line %s) the pipe still causes an event: %s' % (apos[2].get('l'), desc))
    if not seen:
        rep.add('R-dead', fn.name, HOLDS, fn.loc, dead_at=[p[2].get('l') for p in deads])


def base_var(fn, n, ldefs, depth=0):
    """the variable a pipe expression is derived from through conversions"""
    from upv.throws import CONV_RE
    while depth < 10:
        depth += 1
        n = strip_all_casts(fn.resolve(n)) if isinstance(n, dict) else n
        if not isinstance(n, dict):
            return None
        k = n.get('k')
        if k == 'ref' and n.get('d') in ('local', 'param'):
            d = ldefs.get(n['n'])
            ds = strip_all_casts(d) if isinstance(d, dict) else None
            if isinstance(ds, dict) and (ds.get('k') == 'container_of' or
                                         (ds.get('k') == 'call' and ds.get('fn') and CONV_RE.match(ds['fn']) and len(ds.get('args', [])) == 1) or
                                         (ds.get('k') == 'un' and ds.get('op') == '&')):
                n = ds
                continue
            return n['n']
        if k == 'call' and n.get('fn') and len(n.get('args', [])) == 1 and CONV_RE.match(n['fn']):
            n = n['args'][0]
        elif k == 'container_of':
            n = n['e']
        elif k == 'un' and n.get('op') == '&' and 'e' in n:
            m = strip_all_casts(n['e'])
            if isinstance(m, dict) and m.get('k') == 'mem':
                n = m['b']
            else:
                return None
        else:
            return None
    return None


def ret_var(fn):
    """variable the pipe returned by an alloc function is derived from"""
    names = {}
    ldefs = fn.local_defs()
    for bid, s in fn.all_stmts():
        if s.get('k') == 'return' and isinstance(s.get('e'), dict):
            v = base_var(fn, s['e'], ldefs)
            if v:
                names[v] = names.get(v, 0) + 1
    if not names:
        return None
    return max(names, key=names.get)


def check_ready(rep, prog, T, u, fn, depth=0):
    ldefs = fn.local_defs()
    ev = pr.Events(fn)
    rv = ret_var(fn)
    if rv is None:
        # delegation: return g(...)
        for bid, s in fn.all_stmts():
            if s.get('k') == 'return' and isinstance(s.get('e'), dict):
                e = strip_all_casts(s['e'])
                if isinstance(e, dict) and e.get('k') == 'call' and e.get('fn'):
                    g = prog.lookup(u, e['fn'])
                    if g is not None and g.blocks and depth < 3 and g.unit is u:
                        return check_ready(rep, prog, T, u, g, depth + 1)
        rep.add('R-ready', fn.name, UNDECIDED, fn.loc, why='no returned pipe variable found')
        return

    def isready(n):
        return n.get('k') == 'call' and n.get('fn') == 'upipe_throw_ready' and n.get('args') and T.same_pipe(fn, n['args'][0], rv, ldefs)

    def ret_nonnull(n):
        if n.get('k') != 'return' or not isinstance(n.get('e'), dict):
            return False
        return base_var(fn, n['e'], ldefs) == rv
    readies = ev.find(isready)
    if not readies:
        # ready thrown by a local helper that receives the pipe
        helper = None
        for bid, s, x in fn.calls():
            if x.get('fn') and x.get('args') and T.same_pipe(fn, x['args'][0], rv, ldefs):
                g = prog.lookup(u, x['fn'])
                if g is not None and g.unit is u and any(k == 'throw:upipe_throw_ready' for k, _ in T.summary(u, g)):
                    helper = x['fn']
        if helper:
            def isready(n, helper=helper):  # noqa
                return n.get('k') == 'call' and n.get('fn') == helper
            readies = ev.find(isready)
    if not readies:
        rep.add('R-ready', '%s:no-ready' % fn.name, VIOLATED, fn.loc, what='allocation function returns a pipe without throwing ready')
        return
    cache = {}

    def early(n):
        if n.get('k') != 'call' or isready(n):
            return False
        i = n.get('i')
        if i not in cache:
            cache[i] = [e for e in T.events_of_call(u, fn, n, rv, ldefs) if e[0] != 'log']
        return bool(cache[i])
    hits, _ = ev.reach(None, early, isready, from_entry=True)
    nv = 0
    seen = set()
    for h in hits:
        for kind, desc in cache[h[2]['i']]:
            inst = '%s:%s:%s' % (fn.name, kind, h[2].get('fn'))
            if inst in seen:
                continue
            seen.add(inst)
            nv += 1
            rep.add('R-ready', inst, VIOLATED, '%s:%s' % (fn.file, h[2].get('l')),
                    what='event before upipe_throw_ready: %s' % desc)
    unready = pr.must_precede(ev, isready, ret_nonnull)
    for h in unready:
        nv += 1
        rep.add('R-ready', '%s:return-without-ready' % fn.name, VIOLATED, '%s:%s' % (fn.file, h[2].get('l')),
                what='a path returns the pipe without passing upipe_throw_ready')
        break
    # a failure path that gives the pipe up through upipe_release() runs the free function, which throws dead:
    # that too must come after ready (dead is the last event of a pipe that announced itself)
    def isrelease(n):
        return n.get('k') == 'call' and n.get('fn') == 'upipe_release' and n.get('args') and T.same_pipe(fn, n['args'][0], rv, ldefs)
    # counted from the point where the pipe variable receives the new pipe (releasing a NULL variable on an
    # earlier failure path does nothing)
    def binds(n):
        if n.get('k') == 'decl':
            return any(v['n'] == rv and isinstance(v.get('init'), dict) and const_of(v['init']) != 0 for v in n['vars'])
        if is_assign(n) and n['op'] == '=':
            l = strip(n['lhs'])
            return isinstance(l, dict) and l.get('k') == 'ref' and l.get('n') == rv and const_of(n['rhs']) != 0
        return False
    norel = []
    for pos in ev.find(binds):
        hits, _ = ev.reach((pos[0], pos[1]), isrelease, isready)
        norel += hits
    for h in norel:
        nv += 1
        rep.add('R-ready', '%s:release-without-ready' % fn.name, VIOLATED, '%s:%s' % (fn.file, h[2].get('l')),
                what='a failure path of the allocation function releases the pipe (its free function throws dead) without having thrown ready: '
                     'dead is then the only event this pipe ever throws')
        break
    twice = pr.never_after(ev, isready, isready)
    if twice:
        nv += 1
        rep.add('R-ready', '%s:ready-twice' % fn.name, VIOLATED, '%s:%s' % (fn.file, twice[0][1][2].get('l')),
                what='upipe_throw_ready reachable twice on one path')
    if nv == 0:
        rep.add('R-ready', fn.name, HOLDS, fn.loc, ready_at=[p[2].get('l') for p in readies])


AMEND_RE = re.compile(r'^(uref_\w+_(set|delete|copy)\w*|uref_attr_(import|set|delete)\w*|udict_(set|delete|import)\w*|uref_clock_(set|delete|add|rebase)\w*)$')
# functions that amend the stored definition without re-storing it, confirmed by reading
AMEND_EXCEPTIONS = {
    'upipe_http_src_header_value': 'the content type is added while the response headers are parsed, before the first buffer of the transfer is '
                                   'output; every (re)connection goes through upipe_http_src_set_uri, which stores a fresh definition (upipe_http_source.c:1198-1211)',
    'upipe_http_src_close': 'the content type is removed when the connection is closed; nothing is output until the next set_uri stores a fresh definition',
}


def output_fields(u):
    """{record: {OUTPUT: field, FLOW_DEF: field, OUTPUT_STATE: field}} from
    the UPIPE_HELPER_OUTPUT instantiations of the unit"""
    res = {}
    for fn in u.funcs.values():
        if fn.macro != 'UPIPE_HELPER_OUTPUT':
            continue
        for bid, s, x in fn.nodes():
            if x.get('k') == 'mem' and x.get('mp') in ('OUTPUT', 'FLOW_DEF', 'OUTPUT_STATE', 'REQUEST_LIST') and x.get('rec'):
                res.setdefault(x['rec'], {})[x['mp']] = x['f']
    return res


def check_gate(rep, prog, u):
    of = output_fields(u)
    if not of:
        return
    for rec, fields in sorted(of.items()):
        inv = {v: k for k, v in fields.items()}
        # (a) who stores the fields
        bad = []
        for fn in u.funcs.values():
            if fn.macro == 'UPIPE_HELPER_OUTPUT':
                continue
            for bid, s, x in fn.nodes():
                if is_assign(x):
                    l = strip(x['lhs'])
                    if isinstance(l, dict) and l.get('k') == 'mem' and l.get('rec') == rec and l.get('f') in inv and inv[l['f']] != 'REQUEST_LIST':
                        if inv[l['f']] == 'FLOW_DEF' and x['op'] == '=' and const_of(x['rhs']) == 0:
                            # detaching the flow definition (NULL) cannot leave a stale VALID state behind:
                            # X_output drops while FLOW_DEF is NULL and X_store_flow_def resets the state
                            continue
                        bad.append((fn, x, inv[l['f']]))
        for fn, x, role in bad:
            rep.add('R-gate-writer', '%s:%s.%s' % (fn.name, rec, role), VIOLATED, '%s:%s' % (fn.file, x.get('l')),
                    what='field %s.%s (helper role %s) is stored outside the output helper' % (rec, x['lhs'] and strip(x['lhs']).get('f'), role))
        if not bad:
            rep.add('R-gate-writer', rec, HOLDS, u.name, fields=fields)
        # (b) who feeds the output
        feeders = []
        for fn in u.funcs.values():
            for bid, s, x in fn.calls():
                if x.get('fn') == 'upipe_input' and x.get('args'):
                    a0 = strip_all_casts(x['args'][0])
                    if isinstance(a0, dict) and a0.get('k') == 'mem' and a0.get('rec') == rec and a0.get('f') == fields.get('OUTPUT'):
                        feeders.append((fn, x))
        badf = [(fn, x) for fn, x in feeders if not (fn.macro == 'UPIPE_HELPER_OUTPUT' and fn.name.endswith('_output'))]
        for fn, x in badf:
            rep.add('R-gate-feed', '%s:%s' % (fn.name, rec), VIOLATED, '%s:%s' % (fn.file, x.get('l')),
                    what='upipe_input on the helper-managed output outside %s_output: bypasses the flow definition gate' % rec)
        if not badf:
            rep.add('R-gate-feed', rec, HOLDS, u.name, feeders=[fn.name for fn, _ in feeders])
        # (b') the stored definition is amended in place only on the way to X_store_flow_def
        fd = fields.get('FLOW_DEF')
        if fd:
            for fn in sorted(u.funcs.values(), key=lambda f: f.name):
                if fn.macro == 'UPIPE_HELPER_OUTPUT' or not fn.blocks:
                    continue
                al = set()
                for bid, st_, x in fn.nodes():
                    if x.get('k') == 'decl':
                        for v in x['vars']:
                            i = strip_all_casts(v.get('init')) if isinstance(v.get('init'), dict) else None
                            if isinstance(i, dict) and i.get('k') == 'mem' and i.get('rec') == rec and i.get('f') == fd:
                                al.add(v['n'])
                    elif is_assign(x) and x['op'] == '=':
                        r, l = strip_all_casts(x['rhs']), strip(x['lhs'])
                        if isinstance(r, dict) and r.get('k') == 'mem' and r.get('rec') == rec and r.get('f') == fd and \
                                isinstance(l, dict) and l.get('k') == 'ref':
                            al.add(l['n'])

                def amends(n, al=al):
                    if n.get('k') != 'call' or not n.get('fn') or not AMEND_RE.match(n['fn']) or not n.get('args'):
                        return False
                    a = strip_all_casts(n['args'][0])
                    if not isinstance(a, dict):
                        return False
                    return (a.get('k') == 'mem' and a.get('rec') == rec and a.get('f') == fd) or (a.get('k') == 'ref' and a.get('n') in al)
                ev = pr.Events(fn)
                sites = ev.find(amends)
                if not sites:
                    continue
                store = pr.m_call(r'\w+_store_flow_def')
                bad = pr.must_follow(ev, amends, store)
                inst = '%s:%s' % (fn.name, rec)
                if bad and fn.name in AMEND_EXCEPTIONS:
                    rep.add('R-gate-amend', inst, OOS, fn.loc, why='listed exception: ' + AMEND_EXCEPTIONS[fn.name])
                elif bad:
                    rep.add('R-gate-amend', inst, VIOLATED, '%s:%s' % (fn.file, bad[0][2].get('l')),
                            what='%s modifies the stored flow definition in place (%s, line %s) and can return without passing X_store_flow_def: '
                                 'the output state stays VALID and the output never receives the amended definition before the next buffer' % (
                                     fn.name, bad[0][2].get('fn'), bad[0][2].get('l')))
                else:
                    rep.add('R-gate-amend', inst, HOLDS, fn.loc, sites=[x[2].get('l') for x in sites])
    # (c),(d) shape of the generated functions
    for fn in sorted(u.funcs.values(), key=lambda f: f.name):
        if fn.macro != 'UPIPE_HELPER_OUTPUT':
            continue
        if fn.name.endswith('_store_flow_def'):
            check_store_flow_def(rep, fn)
        elif fn.name.endswith('_set_output'):
            check_set_output(rep, fn)
        elif fn.name.endswith('_output') and not fn.name.endswith(('_set_output', '_get_output', '_init_output', '_clean_output', '_control_output')):
            check_output_fn(rep, fn)


def state_store(value):
    def f(n):
        if not is_assign(n) or n['op'] != '=':
            return False
        l = strip(n['lhs'])
        if not (isinstance(l, dict) and l.get('k') == 'mem' and l.get('mp') == 'OUTPUT_STATE'):
            return False
        return value is None or enum_name(n['rhs']) == value
    return f


def check_output_fn(rep, fn):
    ev = pr.Events(fn)
    dom = fn.dominators()
    inputs = ev.find(lambda n: n.get('k') == 'call' and n.get('fn') == 'upipe_input')
    # the case VALID block of the switch on OUTPUT_STATE
    valid_blocks = set()
    for bid, b in fn.blocks.items():
        t = b.get('term')
        if t and t.get('cls') == 'SwitchStmt':
            c = strip_all_casts(fn.resolve(t.get('cond')))
            if isinstance(c, dict) and c.get('k') == 'mem' and c.get('mp') == 'OUTPUT_STATE':
                for s in fn.succ[bid]:
                    lab = fn.label(s) if s is not None else None
                    if lab and lab.get('n') == 'UPIPE_HELPER_OUTPUT_VALID':
                        valid_blocks.add(s)
    ok = bool(inputs) and bool(valid_blocks)
    why = []
    for pos in inputs:
        if not any(v in dom.get(pos[0], ()) for v in valid_blocks):
            ok = False
            why.append('upipe_input at line %s is not dominated by case UPIPE_HELPER_OUTPUT_VALID' % pos[2].get('l'))
    # VALID is stored only when set_flow_def succeeded
    for pos in ev.find(state_store('UPIPE_HELPER_OUTPUT_VALID')):
        def cm(ctree, pol):
            from upv.facts import strip_expect
            n, neg = strip_expect(fn.resolve(ctree))
            if isinstance(n, dict) and n.get('k') == 'call' and n.get('fn') == 'ubase_check':
                a = strip_all_casts(fn.resolve(n['args'][0]))
                if isinstance(a, dict) and a.get('k') == 'ref':
                    d = fn.local_defs().get(a['n'])
                    d = strip_all_casts(d) if isinstance(d, dict) else None
                    if isinstance(d, dict) and d.get('k') == 'call' and d.get('fn') == 'upipe_set_flow_def':
                        return pol != neg
                if isinstance(a, dict) and a.get('k') == 'call' and a.get('fn') == 'upipe_set_flow_def':
                    return pol != neg
            return False
        if not pr.control_dependent(fn, ev, pos, cm):
            ok = False
            why.append('OUTPUT_STATE = VALID at line %s is not guarded by the success of upipe_set_flow_def' % pos[2].get('l'))
    # after need_output (a probe may have connected another output, whose set_output reset the state to NONE) the state is
    # declared INVALID only under a test that looks at the output again: otherwise the newly connected output is never
    # offered the flow definition
    need = pr.m_call('upipe_throw_need_output')
    for npos in ev.find(need):
        hits, _ = ev.reach((npos[0], npos[1]), state_store('UPIPE_HELPER_OUTPUT_INVALID'), need)
        for h in hits:
            def cm2(ctree, pol):
                return any(y.get('k') == 'mem' and y.get('mp') == 'OUTPUT' for y in walk(fn.resolve(ctree)) if isinstance(y, dict)) or \
                    any(y.get('k') == 'mem' and y.get('mp') == 'OUTPUT' for y in walk(ctree))
            # blocks reachable from the event (the test must be made after it)
            after, todo = set(), [npos[0]]
            while todo:
                b_ = todo.pop()
                for s_ in fn.succ.get(b_, []):
                    if s_ is not None and s_ not in after:
                        after.add(s_)
                        todo.append(s_)
            after.add(npos[0])
            guarded = False
            for d_ in fn.dominators().get(h[0], ()):
                c_ = fn.cond(d_)
                if c_ and d_ in after and d_ != h[0] and cm2(c_[0], True):
                    # and the event's block must itself reach the store through d_ (d_ lies between the two)
                    guarded = True
            if not guarded:
                ok = False
                why.append('after upipe_throw_need_output the state is set to INVALID (line %s) without looking at the output again: an output connected by the '
                           'probe that answered the event is never offered the flow definition' % h[2].get('l'))
    # the INVALID arm frees the uref and returns without feeding
    if not ev.find(state_store('UPIPE_HELPER_OUTPUT_VALID')):
        ok = False
        why.append('no store OUTPUT_STATE = VALID')
    rep.add('R-gate-output', fn.name, HOLDS if ok else VIOLATED, fn.loc, **({'what': '; '.join(why)} if why else {'inputs': len(inputs)}))


def check_store_flow_def(rep, fn):
    ev = pr.Events(fn)
    # every path to the exit passes OUTPUT_STATE = NONE, except through the
    # "same dictionary" branch (which keeps the state by design)
    def same_dict(n):
        return n.get('k') == 'call' and n.get('fn') == 'udict_cmp'
    none_store = state_store('UPIPE_HELPER_OUTPUT_NONE')
    _, exit_reached = ev.reach(None, lambda n: False, pr.m_any(none_store, same_dict), from_entry=True)
    stores = ev.find(pr.m_store('FLOW_DEF'))
    ok = not exit_reached and bool(stores)
    # and the unchanged branch is really guarded by !udict_cmp: the only
    # FLOW_DEF store not followed/preceded by NONE is control dependent on it
    rep.add('R-gate-reset', fn.name, HOLDS if ok else VIOLATED, fn.loc,
            **({} if ok else {'what': 'a path through store_flow_def changes the flow definition without resetting OUTPUT_STATE to NONE (and without the equal-dictionary test)'}))


def check_set_output(rep, fn):
    ev = pr.Events(fn)
    none_store = state_store('UPIPE_HELPER_OUTPUT_NONE')
    out_store = pr.m_store('OUTPUT')
    bad = pr.must_follow(ev, out_store, none_store)
    # allow NONE stored before the OUTPUT store as well: then no path from
    # entry reaches exit without it
    _, exit_reached = ev.reach(None, lambda n: False, none_store, from_entry=True)
    ok = not bad and not exit_reached and bool(ev.find(out_store))
    rep.add('R-gate-reset', fn.name, HOLDS if ok else VIOLATED, fn.loc,
            **({} if ok else {'what': 'a path through set_output does not reset OUTPUT_STATE to NONE: the pipe connected by this call does not get '
                                      'the flow definition (again) before the next buffer'}))



# ---- R-gate-inner: a pipe this one feeds by hand has accepted the flow definition -------------------------------
def _fail_polarity(fn, c, is_target):
    """'T' if the condition is true when the negotiation failed, 'F' if false, None if it does not test it"""
    c = strip_all_casts(c)
    if not isinstance(c, dict):
        return None
    if is_target(c):
        return 'T'
    k = c.get('k')
    if k == 'call' and c.get('fn') == '__builtin_expect' and c.get('args'):
        return _fail_polarity(fn, fn.resolve(c['args'][0]), is_target)
    if k == 'un' and c.get('op') == '!':
        r = _fail_polarity(fn, fn.resolve(c['e']), is_target)
        return {'T': 'F', 'F': 'T'}.get(r)
    if k == 'call' and c.get('fn') == 'ubase_check' and c.get('args'):
        r = _fail_polarity(fn, fn.resolve(c['args'][0]), is_target)
        return {'T': 'F', 'F': 'T'}.get(r)
    if k == 'bin' and c.get('op') in ('!=', '=='):
        for a, b in ((c['lhs'], c['rhs']), (c['rhs'], c['lhs'])):
            r = _fail_polarity(fn, fn.resolve(a), is_target)
            bb = strip_all_casts(fn.resolve(b))
            if r and isinstance(bb, dict) and const_of(bb) == 0:
                return r if c['op'] == '!=' else {'T': 'F', 'F': 'T'}[r]
    if is_assign(c):
        return _fail_polarity(fn, fn.resolve(c['rhs']), is_target)
    return None


def check_gate_inner(rep, prog, u, setflow_handlers):
    from upv import pathrules as pr
    n = 0
    for fn in sorted(u.funcs.values(), key=lambda f: f.name):
        if not (fn.inmain and fn.blocks):
            continue
        ev = None
        for bid, st, x in fn.nodes():
            if x.get('k') == 'call' and x.get('fn') == 'upipe_set_flow_def' and x.get('args'):
                ev = pr.Events(fn)
                break
        if ev is None:
            continue

        def local_of(a):
            a = strip_all_casts(fn.resolve(a))
            if isinstance(a, dict) and a.get('k') == 'call' and a.get('fn') == 'upipe_use' and a.get('args'):
                a = strip_all_casts(fn.resolve(a['args'][0]))
            if isinstance(a, dict) and a.get('k') == 'ref' and a.get('d') not in ('param', 'enum', 'global', 'func'):
                return a.get('n')
            return None
        for pos in ev.find(lambda x: x.get('k') == 'call' and x.get('fn') == 'upipe_set_flow_def' and x.get('args')):
            call = pos[2]
            X = local_of(call['args'][0])
            if X is None:
                continue

            def keeps(x, X=X):
                """the pipe is installed in the structure: s->F = X, s->F = upipe_use(X), P_store_bin_input(upipe, X)"""
                if is_assign(x):
                    l = strip(x['lhs'])
                    return isinstance(l, dict) and l.get('k') == 'mem' and local_of(x['rhs']) == X
                if x.get('k') == 'call' and (x.get('fn') or '').endswith(('_store_bin_input', '_store_first_inner')) and len(x.get('args', [])) > 1:
                    return local_of(x['args'][1]) == X
                return False
            before = [k_ for k_ in ev.find(keeps) if ev.reach((k_[0], k_[1]), lambda y: y is call, None)[0]]
            if not before:
                n += 1
                rep.add('R-gate-inner', '%s:upipe_set_flow_def(%s)' % (fn.name, X), HOLDS, '%s:%s' % (fn.file, call.get('l')))
                continue
            keep = before[0][2]
            fld = strip(keep['lhs']).get('f') if is_assign(keep) else keep.get('fn')

            def undo(x, keep=keep):
                if is_assign(x) and is_assign(keep):
                    l, l0 = strip(x['lhs']), strip(keep['lhs'])
                    return isinstance(l, dict) and l.get('k') == 'mem' and l.get('f') == l0.get('f') and l.get('rec') == l0.get('rec') and x is not keep
                if x.get('k') == 'call' and not is_assign(keep):
                    return x.get('fn') == keep.get('fn') and x is not keep
                return False
            # where does a refusal go?
            fails = []            # positions from which the refusal path starts
            direct_return = False
            var = None
            for bid, st, x in fn.nodes():
                if x.get('k') == 'return' and isinstance(x.get('e'), dict) and strip_all_casts(fn.resolve(x['e'])) is call:
                    direct_return = True
                if is_assign(x) and strip_all_casts(fn.resolve(x['rhs'])) is call:
                    l = strip(x['lhs'])
                    if isinstance(l, dict) and l.get('k') == 'ref':
                        var = l.get('n')
                if x.get('k') == 'decl':
                    for v in x.get('vars', []):
                        if isinstance(v.get('init'), dict) and strip_all_casts(fn.resolve(v['init'])) is call:
                            var = v['n']

            def is_target(c, var=var):
                return c is call or (var is not None and c.get('k') == 'ref' and c.get('n') == var)
            for b in fn.blocks:
                c = fn.cond(b)
                if not c:
                    continue
                pol = _fail_polarity(fn, c[0], is_target)
                if pol:
                    arm = c[1] if pol == 'T' else c[2]
                    if arm is not None:
                        fails.append(arm)
            n += 1
            inst = '%s:upipe_set_flow_def(%s)' % (fn.name, X)
            loc = '%s:%s' % (fn.file, call.get('l'))
            if direct_return and not fails:
                if fn.name in setflow_handlers:
                    rep.add('R-gate-inner', inst, OOS, loc, why='the refusal is the result of this pipe\'s own SET_FLOW_DEF: the upstream output gate '
                            '(R-gate-output) stops feeding this pipe, hence the inner one')
                else:
                    rep.add('R-gate-inner', inst, VIOLATED, loc, what='%s installs the pipe (%s, line %s) before negotiating and returns the refusal of '
                            'upipe_set_flow_def with the pipe still installed: the next buffer is fed to a pipe that rejected the definition' % (
                                fn.name, fld, keep.get('l')))
                continue
            if not fails:
                rep.add('R-gate-inner', inst, UNDECIDED, loc, why='the result of the negotiation is not tested in a recognised form')
                continue
            bad = False
            for arm in fails:
                _, ex = ev.reach((arm, -1), lambda y: False, undo)
                if ex:
                    bad = True
            if bad and fn.name in setflow_handlers:
                rep.add('R-gate-inner', inst, OOS, loc, why='the refusal is the result of this pipe\'s own SET_FLOW_DEF: the upstream output gate stops feeding it')
            elif bad:
                rep.add('R-gate-inner', inst, VIOLATED, loc, what='%s installs the pipe (%s, line %s) before negotiating; when upipe_set_flow_def refuses, a path '
                        'returns with the pipe still installed: later calls find it in place, skip the negotiation and feed buffers to a pipe that rejected '
                        'the definition' % (fn.name, fld, keep.get('l')))
            else:
                rep.add('R-gate-inner', inst, HOLDS, loc)
    return n



# ---- R-dead-guard: the code that announces a changed flow definition is reachable --------------------------------
def check_dead_guard(rep, prog):
    """a branch taken on the result of a function that returns UBASE_ERR_NONE on every path is never taken: what it
    guards - in UPIPE_HELPER_OUTPUT_SIZE the storing of the flow definition amended with the new size - is dead"""
    from upv.facts import strip_expect
    rep.rule('R-dead-guard', 'no branch condition is the bare result (possibly through likely / unlikely / !) of a function of the tree whose every return is the '
             'constant UBASE_ERR_NONE: such a test is always false, and the arm it guards never runs. Where that arm passes X_store_flow_def (the set_output_size '
             'of UPIPE_HELPER_OUTPUT_SIZE: aggregate, ts_check, ts_sync, the sources) the output is never told that the unit size changed')
    def always_none(g):
        rets = [x for _, _, x in g.nodes() if x.get('k') == 'return']
        return bool(rets) and all(isinstance(r.get('e'), dict) and enum_name(r['e']) == 'UBASE_ERR_NONE' for r in rets)
    cache = {}
    n = 0
    for uname, u in sorted(prog.units.items()):
        for fn in sorted(u.funcs.values(), key=lambda f: f.name):
            if not fn.blocks:
                continue
            for b in sorted(fn.blocks):
                c = fn.cond(b)
                if not c:
                    continue
                t, neg = strip_expect(c[0])
                if not (isinstance(t, dict) and t.get('k') == 'call' and t.get('fn')):
                    continue
                g = prog.lookup(u, t['fn'])
                if g is None or not g.blocks:
                    continue
                n += 1
                key = (g.file, g.name)
                if key not in cache:
                    cache[key] = always_none(g)
                if cache[key]:
                    rep.add('R-dead-guard', '%s:%s' % (fn.name, t['fn']), VIOLATED, '%s:%s' % (fn.file, t.get('l')),
                            what='%s branches on the result of %s(), which returns UBASE_ERR_NONE (0) on every path: the %s arm is dead code%s' % (
                                fn.name, t['fn'], 'false' if neg else 'true',
                                ' - it holds the call that stores the amended flow definition' if any(
                                    x.get('k') == 'call' and (x.get('fn') or '').endswith('_store_flow_def') for _, _, x in fn.nodes()) else ''))
    rep.add('R-dead-guard', 'all-units', HOLDS, 'lib', conditions_on_call_results=n)
    if n < 200:
        raise facts.AnalysisBroken('R-dead-guard examined only %d conditions' % n)



# ---- R-cache: a cached output flow definition is invalidated by whoever changes what it is built from ------------
CACHE_FLAG = 'flow_def_uptodate'


def check_cache(rep, prog):
    rep.rule('R-cache', 'pipes that cache their output flow definition behind a flag (flow_def_uptodate: videocont, grid): the fields read where the definition is '
             'rebuilt (between the test of the flag and its being set) are its sources; any other function of the unit that stores into a source - allocation and '
             'teardown apart - stores the flag (invalidates) or passes a test on a source field (is this the input in use?) on every path from that store to its '
             'return: the invalidation happens where the new value takes effect, so the definition announced is never older than the data')
    n = 0
    for uname, u in sorted(prog.units.items()):
        flagged = [fn for fn in u.funcs.values() if fn.blocks and fn.inmain and not fn.macro and any(
            is_assign(x) and isinstance(strip(x['lhs']), dict) and strip(x['lhs']).get('f') == CACHE_FLAG and const_of(strip_all_casts(fn.resolve(x['rhs']))) == 1
            for _, _, x in fn.nodes())]
        if not flagged:
            continue
        sources = set()
        for fn in flagged:
            dom = fn.dominators()
            for bid, st, x in fn.nodes():
                if is_assign(x) and isinstance(strip(x['lhs']), dict) and strip(x['lhs']).get('f') == CACHE_FLAG and const_of(strip_all_casts(fn.resolve(x['rhs']))) == 1:
                    conds = [d for d in dom.get(bid, ()) if fn.cond(d) and d != bid and any(
                        isinstance(y, dict) and y.get('k') == 'mem' and y.get('f') == CACHE_FLAG for y in walk(fn.resolve(fn.cond(d)[0])))]
                    if not conds:
                        raise facts.AnalysisBroken('%s: the test of %s that guards the rebuild was not found' % (fn.name, CACHE_FLAG))
                    # blocks between that test and the store of the flag (they can still reach it)
                    reach_store, todo = {bid}, [bid]
                    preds = {}
                    for b_, ss_ in fn.succ.items():
                        for x_ in ss_:
                            if x_ is not None:
                                preds.setdefault(x_, []).append(b_)
                    while todo:
                        for p_ in preds.get(todo.pop(), []):
                            if p_ not in reach_store:
                                reach_store.add(p_)
                                todo.append(p_)
                    region = [b for b in fn.blocks if b in reach_store and any(c in dom.get(b, ()) for c in conds)]
                    for b in region:
                        for s_ in fn.stmts(b):
                            for y in walk(s_):
                                if y.get('k') == 'mem' and y.get('rec') and y['rec'] != 'upipe' and y.get('f') != CACHE_FLAG:
                                    sources.add((y['rec'], y['f']))
        if not sources:
            raise facts.AnalysisBroken('%s: no source field found for the cached flow definition' % uname)
        for fn in sorted(u.funcs.values(), key=lambda f: f.name):
            if not fn.blocks or not fn.inmain or fn.macro or fn in flagged:
                continue
            if any(x.get('k') == 'call' and (x.get('fn') or '') in ('upipe_throw_ready', 'upipe_throw_dead') or
                   (x.get('k') == 'call' and re.search(r'_(init|clean)_urefcount$|_alloc_(void|flow)$', x.get('fn') or '')) for _, _, x in fn.nodes()):
                continue          # allocation / teardown
            ev = pr.Events(fn)

            def src_store(n_):
                if is_assign(n_):
                    l = strip(n_['lhs'])
                    return isinstance(l, dict) and l.get('k') == 'mem' and (l.get('rec'), l.get('f')) in sources
                return False

            def inval(n_):
                if is_assign(n_):
                    l = strip(n_['lhs'])
                    return isinstance(l, dict) and l.get('k') == 'mem' and l.get('f') == CACHE_FLAG
                return False
            stores = ev.find(src_store)
            if not stores:
                continue
            guards = {b for b in fn.blocks if fn.cond(b) and any(
                isinstance(y, dict) and y.get('k') == 'mem' and (y.get('rec'), y.get('f')) in sources for y in walk(fn.resolve(fn.cond(b)[0])))}
            succ = dict(fn.succ)
            for g in guards:
                succ[g] = []

            class _V:
                def __init__(self, f, sc):
                    self._f, self.succ = f, sc

                def __getattr__(self, a):
                    return getattr(self._f, a)
            for sp in stores:
                n += 1
                ev.fn = _V(fn, succ)
                _, ex = ev.reach((sp[0], sp[1]), lambda n_: False, inval)
                ev.fn = fn
                l = strip(sp[2]['lhs'])
                rep.add('R-cache', '%s:%s.%s@%s' % (fn.name, l.get('rec'), l.get('f'), sp[2].get('l')), VIOLATED if ex else HOLDS, '%s:%s' % (fn.file, sp[2].get('l')),
                        **({'what': '%s stores %s.%s, which the cached output flow definition is built from, and can return without invalidating the cache (%s) or testing '
                                    'whether this input is the one in use: the next picture goes out under the definition built from the old value' % (
                                        fn.name, l.get('rec'), l.get('f'), CACHE_FLAG)} if ex else {}))
    if n < 3:
        raise facts.AnalysisBroken('R-cache found only %d stores to cache sources' % n)


def check_store_before_replay(rep, prog):
    """the buffers held while a flow definition was being negotiated go out under that definition"""
    rep.rule('R-store-before-replay', 'every function that both stores the output flow definition (X_store_flow_def) and replays the held input (X_output_input) - the '
             'X_check call-backs run when a ubuf manager or flow format request is answered: no store is reachable after a replay. The buffers held since '
             'set_flow_def belong to the new flow; replayed first they would be delivered while the output helper still holds the previous definition '
             '(unanimous: 11 functions thorough)')
    n = 0
    for uname, u in sorted(prog.units.items()):
        for fn in sorted(u.funcs.values(), key=lambda f: f.name):
            if not fn.blocks or fn.macro:
                continue
            ev = pr.Events(fn)
            st = pr.m_call(r'\w+_store_flow_def$')
            oi = pr.m_call(r'\w+_output_input$')
            if not ev.find(st) or not ev.find(oi):
                continue
            n += 1
            late = []
            for pos in ev.find(oi):
                hits, _ = ev.reach((pos[0], pos[1]), st, lambda n_: False)
                late += [(pos, h) for h in hits]
            rep.add('R-store-before-replay', fn.name, VIOLATED if late else HOLDS, fn.loc,
                    **({'what': '%s replays the held buffers (%s, line %s) and only then stores the flow definition (%s, line %s): they are output under the '
                                'previous definition, the new one goes out with the next buffer' % (
                                    fn.name, late[0][0][2]['fn'], late[0][0][2].get('l'), late[0][1][2]['fn'], late[0][1][2].get('l'))} if late else {}))
    return n


def run(tier='quick', repo=None):
    repo = repo or facts.REPO
    rep = Report(PROP, tier)
    rep.explanation = (
        'Decides on every pipe type parsed: R-ready (the allocation function throws ready exactly once on every path that returns the pipe, and '
        'nothing but log messages is thrown on the new pipe before it), R-dead (after upipe_throw_dead, no call that throws on the same pipe '
        '- logs included -, feeds its output or sets a flow definition on it is reachable; dead not thrown twice), R-gate (the output, flow '
        'definition and output-state fields managed by UPIPE_HELPER_OUTPUT are stored only by the helper, only X_output feeds the output, and '
        'inside the generated functions input is under case VALID, VALID is stored only under a successful set_flow_def, store_flow_def and '
        'set_output reset the state to NONE). Does not decide run-time event order across pipes, nor hand-written flow-definition caches other than the flag-guarded form of R-cache.')
    rep.rule('R-ready', 'alloc slot function: every return of the pipe variable is preceded on all paths by upipe_throw_ready(pipe), reachable once; no non-log event on the pipe before it (callees summarised)')
    rep.rule('R-dead', 'function calling upipe_throw_dead(p): no call reachable afterwards causes a probe event on p (log, throw) or feeds/sets flow def on p\'s OUTPUT; transitive through TU-local and helper-generated callees')
    rep.rule('R-gate-writer', 'fields bound to OUTPUT/FLOW_DEF/OUTPUT_STATE of a UPIPE_HELPER_OUTPUT instantiation are assigned only in functions generated by that helper (storing NULL into FLOW_DEF is allowed: it only makes X_output drop)')
    rep.rule('R-gate-amend', 'a function outside the helper that modifies the stored flow definition in place (attribute setter / deleter applied to X->FLOW_DEF or to a local loaded from it) passes X_store_flow_def on every path afterwards: otherwise OUTPUT_STATE stays VALID and the output is never given the amended definition (two listed exceptions in upipe_http_source.c)')
    rep.rule('R-gate-feed', 'upipe_input(s->OUTPUT, ...) occurs only inside the generated X_output')
    rep.rule('R-gate-output', 'in X_output: upipe_input is dominated by case UPIPE_HELPER_OUTPUT_VALID of the switch on OUTPUT_STATE; OUTPUT_STATE = VALID is control dependent on ubase_check(upipe_set_flow_def(OUTPUT, FLOW_DEF))')
    rep.rule('R-gate-reset', 'X_store_flow_def: every path stores OUTPUT_STATE = NONE unless it passed the udict_cmp equality test; X_set_output: OUTPUT_STATE = NONE on every path (every call connects an output anew, the same pipe included)')
    rep.rule('R-gate-inner', 'a function that negotiates with a pipe held in a local variable (upipe_set_flow_def(X, ...)) and installs X in the pipe structure (s->F = X, P_store_bin_input) before the negotiation removes it again on every path the refusal takes - unless the refusal is the result of this pipe\'s own SET_FLOW_DEF, in which case the upstream gate stops the flow')
    prog = load(tier, repo, rep)
    ninner = 0
    T = throws.Throws(prog)
    for uname, u in sorted(prog.units.items()):
        allocs = []
        for slots in control.mgr_slots(u):
            a = slots.get('upipe_alloc')
            if a and a in u.funcs and a not in allocs:
                allocs.append(a)
        for a in allocs:
            check_ready(rep, prog, T, u, u.funcs[a])
        for fn in sorted(u.funcs.values(), key=lambda f: f.name):
            if fn.inmain and fn.blocks:
                check_dead(rep, prog, T, u, fn)
        check_gate(rep, prog, u)
        handlers = set()
        for slots in control.mgr_slots(u):
            c = slots.get('upipe_control')
            if c and c in u.funcs:
                res, _ = control.command_slices(prog, u, u.funcs[c])
                for sl in res.get('UPIPE_SET_FLOW_DEF', []):
                    if True:
                        for b in sl.blocks:
                            for st in sl.fn.stmts(b):
                                for x in walk(st):
                                    if x.get('k') == 'call' and x.get('fn') in u.funcs:
                                        handlers.add(x['fn'])
        ninner += check_gate_inner(rep, prog, u, handlers)
    # in-band flow definitions keep their place among held buffers (path rule shared with C05 R-fifo: a pipe that queues its input
    # passes flow definitions through the same queue; a handler called behind the back of the held list lets definition B overtake
    # the buffers of flow A, which then reach the output after B was announced)
    from rules import c05
    sub = Report(PROP, tier)
    c05.check_fifo(sub, prog)
    rep.rule('R-gate-inband', 'every function of a pipe with a hold list (UPIPE_HELPER_INPUT) that calls the input handler directly - the SET_FLOW_DEF handler that '
             'sends the definition in-band included - does so under X_check_input() or after X_output_input(): the definition and the buffers reach the '
             'output in the order they were given (rule shared with C05 R-fifo)')
    nband = 0
    for o in sub.obs:
        if o.rule == 'R-fifo' and o.instance.endswith(':handler-under-check_input'):
            nband += 1
            rep.add('R-gate-inband', o.instance, o.status, o.loc, **o.detail)
    if nband < 10:
        raise facts.AnalysisBroken('R-gate-inband found only %d callers of input handlers' % nband)
    check_dead_guard(rep, prog)
    check_cache(rep, prog)
    nsr = check_store_before_replay(rep, prog)
    if nsr < 5:
        raise facts.AnalysisBroken('R-store-before-replay found only %d functions' % nsr)
    if ninner < 3:
        raise facts.AnalysisBroken('R-gate-inner found only %d negotiations with inner pipes' % ninner)
    rep.assumptions = [
        'a pipe is designated by the variable/parameter and its conversions (X_to_upipe, X_from_upipe, container_of); events on other pipes (super, sub, output) are not attributed',
        'public header API functions other than the upipe_throw*/log family do not throw on the caller\'s pipe',
    ]
    return rep
