"""C08 - event-driven waiting never loses a wake-up; the dealer grants
exclusively.  Presence and order of the protocol steps only (DESIGN §4 C08):
each rule is a necessary condition - removing the step is a textbook lost
wake-up - sufficiency over all interleavings is NOT decided."""
from upv import facts
from upv import pathrules as pr
from upv.facts import strip, strip_all_casts, strip_expect, walk, const_of, path_of
from upv.report import Report, HOLDS, VIOLATED, UNDECIDED, OOS

PROP = 'C08'


def addr_field(arg, field):
    a = strip_all_casts(arg)
    if isinstance(a, dict) and a.get('k') == 'un' and a.get('op') == '&':
        m = strip_all_casts(a.get('e'))
        return isinstance(m, dict) and m.get('k') == 'mem' and m.get('f') == field
    return False


def call_on(name, field, argi=0):
    def f(n):
        return n.get('k') == 'call' and n.get('fn') == name and len(n.get('args', [])) > argi and addr_field(n['args'][argi], field)
    return f


def ret_const(v):
    def f(n):
        if n.get('k') != 'return' or not isinstance(n.get('e'), dict):
            return False
        c = const_of(n['e'])
        return c == v
    return f


def ret_nonnull_var(n):
    if n.get('k') != 'return' or not isinstance(n.get('e'), dict):
        return False
    return const_of(n['e']) is None


def cmp_call(fn, ctree, callname, field, op, rhs_pred):
    """cond is `callname(&x->field, ...) OP rhs` (through expect); returns
    polarity-normalised truth: (matches, negated)"""
    n, neg = strip_expect(fn.resolve(ctree))
    if isinstance(n, dict) and n.get('k') == 'bin' and n.get('op') == op and 'lhs' in n:
        l = strip_all_casts(fn.resolve(n['lhs']))
        if isinstance(l, dict) and l.get('k') == 'ref' and l.get('d') == 'local':
            d = fn.local_defs().get(l['n'])
            l = strip_all_casts(d) if isinstance(d, dict) else l
        if isinstance(l, dict) and l.get('k') == 'call' and l.get('fn') == callname and l.get('args') and addr_field(l['args'][0], field):
            if rhs_pred(n['rhs']):
                return True, neg
    return False, neg


def run(tier='quick', repo=None):
    repo = repo or facts.REPO
    rep = Report(PROP, tier)
    rep.explanation = (
        'Decides only the presence and order of the steps of the wake-up protocol in uqueue_push, uqueue_pop_internal, udeal_start, udeal_grab '
        'and udeal_yield (path rules on their CFGs): give-up paths pass a descriptor reset and a second attempt; a second attempt that succeeds '
        're-arms the descriptor; the other side is signalled under the counter transition test; the dealer undoes its access increment on the '
        'losing path and releases access before leaving the waiter count. Each is a necessary condition (dropping it is a textbook lost wake-up '
        'or double grant). That the protocol is sufficient under every interleaving is a model-checking question and is NOT decided.')
    prog = facts.load_program([], repo=repo)
    H = prog.hdr
    rep.units = ['include/upipe/*.h (header unit)']
    rep.nfuncs = len(H.funcs)
    for n in ('uqueue_push', 'uqueue_pop_internal', 'udeal_grab', 'udeal_yield', 'udeal_start'):
        if n not in H.funcs:
            raise facts.AnalysisBroken('anchor vanished: %s' % n)
    rep.rule('R-wake', 'see instance names; each instance is one step of the double-check / re-arm / signal protocol')

    def ob(name, ok, fn, what):
        rep.add('R-wake', name, HOLDS if ok else VIOLATED, fn.loc, **({} if ok else {'what': what}))

    # ---- uqueue_push / uqueue_pop_internal ---------------------------------
    for fname, attempt, mine, other, giveup, counter_call, trans in (
            ('uqueue_push', 'ufifo_push', 'event_push', 'event_pop', ret_const(0), 'uatomic_fetch_add', 'zero'),
            ('uqueue_pop_internal', r'ufifo_pop\w*', 'event_pop', 'event_push', ret_const(0), 'uatomic_fetch_sub', 'length')):
        fn = H.funcs[fname]
        ev = pr.Events(fn)
        att = pr.m_call(attempt)
        rd = call_on('ueventfd_read', mine)
        wr_mine = call_on('ueventfd_write', mine)
        wr_other = call_on('ueventfd_write', other)
        success = (lambda n: n.get('k') == 'return' and isinstance(n.get('e'), dict) and const_of(n['e']) != 0)
        atts = ev.find(att)
        ob('%s:two-attempts' % fname, len(atts) >= 2, fn, 'the operation must be attempted, and attempted again after the descriptor reset')
        bad = pr.must_precede(ev, rd, giveup)
        ob('%s:reset-before-giving-up' % fname, bool(ev.find(giveup)) and not bad, fn,
           'a path gives up (returns %s) without having reset its descriptor (ueventfd_read(&%s)) first' % ('false' if fname == 'uqueue_push' else 'NULL', mine))
        # after the reset, giving up requires a second attempt
        bad2 = []
        for pos in ev.find(rd):
            hits, _ = ev.reach((pos[0], pos[1]), giveup, att)
            bad2 += hits
        ob('%s:second-attempt-after-reset' % fname, bool(ev.find(rd)) and not bad2, fn,
           'after the descriptor reset the function gives up without trying again: an element / slot that arrived in between is never noticed')
        # after the reset, continuing (success) requires re-arming the own descriptor
        bad3 = []
        for pos in ev.find(rd):
            hits, _ = ev.reach((pos[0], pos[1]), success, wr_mine)
            bad3 += hits
        ob('%s:rearm-after-successful-second-attempt' % fname, bool(ev.find(rd)) and not bad3, fn,
           'the second attempt succeeds but the descriptor that was just reset (%s) is not written again: the next waiter on it sleeps although the queue is usable' % mine)
        # signalling the other side under the counter transition
        cnt = call_on(counter_call, 'counter')
        ok_cnt = bool(ev.find(cnt)) and not pr.must_precede(ev, cnt, success)
        ob('%s:counter-updated-on-success' % fname, ok_cnt, fn, 'a successful operation must update uqueue.counter with %s' % counter_call)
        ws = ev.find(wr_other)

        def trans_cond(ctree, pol, fn=fn):
            if trans == 'zero':
                m, neg = cmp_call(fn, ctree, counter_call, 'counter', '==', lambda r: const_of(r) == 0)
            else:
                m, neg = cmp_call(fn, ctree, counter_call, 'counter', '==',
                                  lambda r: isinstance(strip_all_casts(r), dict) and strip_all_casts(r).get('k') == 'mem' and strip_all_casts(r).get('f') == 'length')
            return m and pol != neg
        ok_sig = bool(ws) and all(pr.control_dependent(fn, ev, w, trans_cond) for w in ws)
        ob('%s:other-side-signalled-on-transition' % fname, ok_sig, fn,
           'ueventfd_write(&%s) must exist and be guarded by the test of the value returned by %s(&counter, 1) (%s)' % (
               other, counter_call, '== 0' if trans == 'zero' else '== length'))
    # ---- udeal ---------------------------------------------------------------
    fn = H.funcs['udeal_grab']
    ev = pr.Events(fn)
    add_acc = call_on('uatomic_fetch_add', 'access')
    sub_acc = call_on('uatomic_fetch_sub', 'access')
    rd = call_on('ueventfd_read', 'event')
    wr = call_on('ueventfd_write', 'event')
    lose = ret_const(0)
    win = (lambda n: n.get('k') == 'return' and isinstance(n.get('e'), dict) and const_of(n['e']) not in (None, 0))
    ob('udeal_grab:reset-before-losing', bool(ev.find(lose)) and not pr.must_precede(ev, rd, lose), fn,
       'udeal_grab returns false without resetting the event first')
    ob('udeal_grab:undo-access-before-losing', bool(ev.find(lose)) and not pr.must_precede(ev, sub_acc, lose), fn,
       'udeal_grab returns false without undoing its uatomic_fetch_add(&access): the resource stays marked busy for ever')
    bad = []
    for pos in ev.find(rd):
        hits, _ = ev.reach((pos[0], pos[1]), pr.m_any(win, add_acc), wr)
        bad += hits
    ob('udeal_grab:rearm-before-retry', bool(ev.find(rd)) and not bad, fn,
       'after resetting the event, udeal_grab retries / wins without writing the event again')
    ob('udeal_grab:enters-through-fetch_add', bool(ev.find(add_acc)) and not pr.must_precede(ev, add_acc, win), fn,
       'udeal_grab can return true without having incremented access')

    def gt0(ctree, pol, fn=fn):
        m, neg = cmp_call(fn, ctree, 'uatomic_fetch_add', 'access', '>', lambda r: const_of(r) == 0)
        return m and pol != neg
    ob('udeal_grab:contention-test', all(pr.control_dependent(fn, ev, r, gt0) for r in ev.find(rd)) and bool(ev.find(rd)), fn,
       'the back-off must be taken exactly when uatomic_fetch_add(&access, 1) > 0 (somebody already holds or enters the section)')
    fn = H.funcs['udeal_yield']
    ev = pr.Events(fn)
    sub_w = call_on('uatomic_fetch_sub', 'waiters')
    ob('udeal_yield:access-released-before-leaving-waiters', bool(ev.find(sub_acc)) and bool(ev.find(sub_w)) and not pr.must_precede(ev, sub_acc, sub_w), fn,
       'udeal_yield must release access before it decrements waiters: otherwise a newcomer that sees waiters == 0 finds access still taken, backs off, and nobody notifies it')

    def gt1(ctree, pol, fn=fn):
        m, neg = cmp_call(fn, ctree, 'uatomic_fetch_sub', 'waiters', '>', lambda r: const_of(r) == 1)
        return m and pol != neg
    ws = ev.find(wr)
    ob('udeal_yield:notify-remaining-waiters', bool(ws) and all(pr.control_dependent(fn, ev, w, gt1) for w in ws), fn,
       'the event must be written when uatomic_fetch_sub(&waiters, 1) > 1 (other waiters remain)')
    fn = H.funcs['udeal_start']
    ev = pr.Events(fn)
    add_w = call_on('uatomic_fetch_add', 'waiters')
    ind = lambda n: n.get('k') == 'call' and not n.get('fn')
    ob('udeal_start:registers-as-waiter-first', bool(ev.find(add_w)) and not pr.must_precede(ev, add_w, ind), fn,
       'udeal_start must register in waiters before trying the callback')
    rep.assumptions = ['ueventfd_read / ueventfd_write reset / set the readiness of the descriptor',
                       'the interleaving argument (sufficiency of the protocol) is outside this family of technique']
    return rep
