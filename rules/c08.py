"""C08 - event-driven waiting never loses a wake-up; the dealer grants
exclusively.  Presence and order of the protocol steps only (DESIGN §4 C08):
each rule is a necessary condition - removing the step is a textbook lost
wake-up - sufficiency over all interleavings is NOT decided."""
import re
from upv import facts
from upv import pathrules as pr
from upv.facts import strip, strip_all_casts, strip_expect, walk, const_of, path_of
from upv.report import Report, HOLDS, VIOLATED, UNDECIDED, OOS

PROP = 'C08'


def addr_field(arg, field):
    a = strip_all_casts(arg)
    if isinstance(a, dict) and a.get('k') == 'un' and a.get('op') == '&':
        m = strip_all_casts(a.get('e'))
        return isinstance(m, dict) and m.get('k') == 'mem' and m.get('f') == field
    return False


def call_on(name, field, argi=0):
    def f(n):
        return n.get('k') == 'call' and n.get('fn') == name and len(n.get('args', [])) > argi and addr_field(n['args'][argi], field)
    return f


def ret_const(v):
    def f(n):
        if n.get('k') != 'return' or not isinstance(n.get('e'), dict):
            return False
        c = const_of(n['e'])
        return c == v
    return f


def ret_nonnull_var(n):
    if n.get('k') != 'return' or not isinstance(n.get('e'), dict):
        return False
    return const_of(n['e']) is None


def cmp_call(fn, ctree, callname, field, op, rhs_pred):
    """cond is `callname(&x->field, ...) OP rhs` (through expect); returns
    polarity-normalised truth: (matches, negated)"""
    n, neg = strip_expect(fn.resolve(ctree))
    if isinstance(n, dict) and n.get('k') == 'bin' and n.get('op') == op and 'lhs' in n:
        l = strip_all_casts(fn.resolve(n['lhs']))
        if isinstance(l, dict) and l.get('k') == 'ref' and l.get('d') == 'local':
            d = fn.local_defs().get(l['n'])
            l = strip_all_casts(d) if isinstance(d, dict) else l
        if isinstance(l, dict) and l.get('k') == 'call' and l.get('fn') == callname and l.get('args') and addr_field(l['args'][0], field):
            if rhs_pred(n['rhs']):
                return True, neg
    return False, neg



# ---- R-progress: interleaved product of the wake-up protocol (upv.conc) ---------------------------

def _progress_job(job):
    import time
    from upv import conc
    from upv.absint import Finding, Undecided, SYM
    from rules import c07
    repo, kind, L, progs, fused = job
    prog = c07._prog(repo)
    H = prog.hdr
    Qq = ('obj', 'uq')
    D = ('obj', 'deal')
    t0 = time.time()
    name = '%s[L=%d]:%s' % (kind, L, '|'.join(progs))
    res = {'name': name, 'status': HOLDS, 'fused': fused}

    def flag(obj, rec, f):
        return ('addr', 'field', obj, rec, f)

    class M(conc.RingMachine):
        INTERP_PREFIX = ('uqueue_', 'udeal_')

        in_tail = False

        def note_access(self, kind, loc, ans):
            if kind in ('qpush', 'qpop') and ans not in (0, ('null',)):
                self.in_tail = True
            elif kind == 'faa' and isinstance(loc, tuple) and loc[-1] == 'counter':
                self.in_tail = False

        def glued(self, kind, loc):
            # fused mode: from the successful FIFO operation to the counter update that accounts for it is one step
            return bool(fused and self.in_tail)

        def field_load(self, obj, rec, field):
            if rec == 'uqueue' and field == 'length':
                return self.sh.length
            if rec == 'upump' and field == 'cb':
                return ('cb', 'deal')
            return conc.RingMachine.field_load(self, obj, rec, field)

        def call(self, fn, node, args, env, depth):
            nm = node.get('fn')
            if nm in ('ueventfd_read', 'ueventfd_write'):
                loc = self.eval(fn, args[0], env, depth)
                self.access('store', loc, 1 if nm == 'ueventfd_write' else 0, node)
                return 1
            if nm == 'ufifo_push':
                v = [self.eval(fn, a, env, depth) for a in args]
                return self.access('qpush', v[0], v[1], node)
            if nm == 'ufifo_pop_internal':
                v = [self.eval(fn, a, env, depth) for a in args]
                return self.access('qpop', v[0], None, node)
            if nm == 'upump_start':
                self.started = True
                return None
            if nm == 'upump_stop':
                self.started = False
                return None
            if nm is None:
                cv = self.eval(fn, node.get('callee'), env, depth) if isinstance(node.get('callee'), dict) else SYM
                if cv == ('cb', 'deal'):
                    self.deal_cb()
                    return None
            return conc.RingMachine.call(self, fn, node, args, env, depth)

        def deal_cb(self):
            g = self.run(H.funcs['udeal_grab'], [D])
            if g:
                before = self.access('faa', ('ghost', 'holders'), 1)
                if before != 0:
                    raise Finding('two holders', None, 'udeal_grab grants the resource while it is held')
                self.access('faa', ('ghost', 'holders'), -1)
                self.run(H.funcs['udeal_yield'], [D, ('obj', 'pump%d' % self.tid)])
                self.granted = True

        def run_ops(self, ops):
            self.started = False
            for i, (op, arg) in enumerate(ops):
                self.cur_op = i
                if op == 'push':
                    while True:
                        r = self.run(H.funcs['uqueue_push'], [Qq, ('obj', arg)])
                        if r:
                            break
                        # back to the event loop: the watcher on event_push calls us again
                        self.access('wait', (flag(Qq, 'uqueue', 'event_push'), True))
                    self.results.append((i, 1, self.op_first.get(i), self.op_last.get(i)))
                elif op == 'pop':
                    while True:
                        r = self.run(H.funcs['uqueue_pop_internal'], [Qq])
                        if r != ('null',):
                            break
                        self.access('wait', (flag(Qq, 'uqueue', 'event_pop'), True))
                    self.results.append((i, r, self.op_first.get(i), self.op_last.get(i)))
                elif op == 'acquire':
                    self.granted = False
                    self.run(H.funcs['udeal_start'], [D, ('obj', 'pump%d' % self.tid)])
                    while not self.granted:
                        self.access('wait', (flag(D, 'udeal', 'event'), bool(self.started)))
                        self.deal_cb()
                    self.results.append((i, 1, self.op_first.get(i), self.op_last.get(i)))
            self.cur_op = None
            return self.results
    try:
        sh = conc.Shared(L)
        if kind == 'uqueue':
            sh.cells[flag(Qq, 'uqueue', 'event_push')] = 1
            sh.cells[flag(Qq, 'uqueue', 'event_pop')] = 0
            sh.cells[flag(Qq, 'uqueue', 'counter')] = 0
            threads = []
            for t, p in enumerate(progs):
                threads.append([('push', 'x%d%d' % (t, i)) if c == 'U' else ('pop', None) for i, c in enumerate(p)])
        else:
            sh.cells[flag(D, 'udeal', 'event')] = 1
            sh.cells[flag(D, 'udeal', 'waiters')] = 0
            sh.cells[flag(D, 'udeal', 'access')] = 0
            threads = [[('acquire', None) for c in p] for p in progs]
        ex = conc.Explorer(prog, H, sh, threads, machine_cls=M, max_states=400000)
        ex.spin_bound = 400
        bad = []

        def enabled(pc, shared):
            if pc is None or pc[0] != 'wait':
                return True
            floc, started = pc[1]
            return bool(started) and shared.cells.get(floc, 0) == 1

        def deadlock(infos, shared):
            if bad:
                return
            asleep = [(t, inf.pc[1][0][-1], inf.pc[1][1]) for t, inf in enumerate(infos) if not inf.finished]
            if kind == 'uqueue':
                q = shared.cells.get(flag(Qq, 'uqueue', 'fifo'), ())
                bad.append('every remaining thread is back in its event loop and none of their descriptors is readable (%s) while the queue holds %d of %d '
                           'elements (counter %s): nobody will ever be woken' % (
                               ', '.join('thread %d waits on %s' % (t, f) for t, f, _ in asleep), len(q), shared.length,
                               shared.cells.get(flag(Qq, 'uqueue', 'counter'))))
            else:
                bad.append('the resource is free but every remaining thread is back in its event loop with nothing to wake it (%s; waiters=%s access=%s event=%s)' % (
                    ', '.join('thread %d %s' % (t, 'watcher started' if st else 'watcher NOT started') for t, f, st in asleep),
                    shared.cells.get(flag(D, 'udeal', 'waiters')), shared.cells.get(flag(D, 'udeal', 'access')),
                    shared.cells.get(flag(D, 'udeal', 'event'))))
        ex.enabled = enabled
        ex.on_deadlock = deadlock

        def done(infos, fm, shf):
            if bad:
                return
            if kind == 'uqueue':
                # FIFO order per producer and nothing lost: every consumer got as many elements as it asked
                c = shf.cells.get(flag(Qq, 'uqueue', 'counter'))
                q = shf.cells.get(flag(Qq, 'uqueue', 'fifo'), ())
                if c != len(q):
                    bad.append('at rest the element counter is %r while the queue holds %d elements' % (c, len(q)))
        import time as _t
        ex.deadline = _t.time() + 120

        def dl2(infos, shared, _d=deadlock):
            _d(infos, shared)
            raise conc.Stop()
        ex.on_deadlock = dl2
        try:
            ex.explore(done)
        except conc.Stop:
            pass
        res.update(states=ex.states, transitions=ex.transitions, executions=ex.executions, deadlocks=ex.deadlocks)
        if bad:
            res['status'] = VIOLATED
            res['what'] = 'under some interleaving of %s: %s' % (' | '.join(progs), bad[0])
    except Finding as f:
        res['status'] = VIOLATED
        res['what'] = 'under some interleaving: %s' % f
    except Undecided as u:
        res['status'] = UNDECIDED
        res['why'] = str(u)
    res['wall'] = round(time.time() - t0, 2)
    return res


def check_progress(rep, repo, tier):
    import multiprocessing
    import os
    from rules import c07
    rep.rule('R-progress', 'interleaved product of the CFGs of uqueue_push / uqueue_pop_internal (resp. udeal_start / udeal_grab / udeal_yield) run by threads '
             'that go back to their event loop when the operation fails and are called again when their descriptor is readable (level-triggered, watcher '
             'started); ufifo_push / ufifo_pop are atomic steps on a FIFO of L slots (their linearizability is C07), ueventfd_read / _write clear / set a flag, '
             'every access to the counters and flags is a scheduling point. With as many elements produced as consumed: no reachable state has every remaining '
             'thread asleep (lost wake-up); the counter equals the queue content at rest; the dealer never grants the resource to two threads')
    cfg = [('uqueue', 1, ('U', 'O')), ('uqueue', 1, ('UU', 'OO')), ('uqueue', 1, ('U', 'U', 'OO')), ('uqueue', 2, ('UU', 'OO')),
           ('uqueue', 2, ('UUU', 'OOO')), ('uqueue', 2, ('UU', 'U', 'OOO')), ('uqueue', 1, ('UU', 'O', 'O')),
           ('udeal', 0, ('A', 'A')), ('udeal', 0, ('AA', 'A')), ('udeal', 0, ('AA', 'AA'))]
    if tier == 'thorough':
        cfg += [('udeal', 0, ('A', 'A', 'A')), ('uqueue', 2, ('UU', 'UU', 'OOOO')), ('uqueue', 2, ('UUU', 'O', 'OO')), ('uqueue', 3, ('UUUU', 'OOOO')), ('uqueue', 1, ('U', 'U', 'O', 'O')),
                ('udeal', 0, ('AAA', 'AA'))]
    c07._prog(repo)
    # uqueue configurations are explored twice: as written, and with the counter update fused to the FIFO operation it accounts
    # for.  A dead state that exists only in the first exploration is the known defect of uqueue (the counter is updated in a
    # separate step: known_findings.txt); one that survives the fusion is something else.
    jobs = []
    for c in cfg:
        jobs.append((repo,) + c + (False,))
        if c[0] == 'uqueue':
            jobs.append((repo,) + c + (True,))
    with multiprocessing.Pool(min(16, os.cpu_count() or 4)) as pool:
        out = pool.map(_progress_job, jobs, chunksize=1)
    tot = {'states': 0, 'transitions': 0, 'executions': 0}
    fused_res = {r['name']: r for r in out if r['fused']}
    for r in out:
        for k in tot:
            tot[k] += r.get(k, 0)
        loc = 'include/upipe/uqueue.h' if r['name'].startswith('uqueue') else 'include/upipe/udeal.h'
        det = {k: r[k] for k in ('what', 'why', 'states', 'executions', 'deadlocks', 'wall') if k in r}
        if r['fused']:
            rep.add('R-progress', r['name'] + ':counter-fused', r['status'], loc, **det)
        elif r['status'] == VIOLATED and fused_res.get(r['name'], {}).get('status') == HOLDS:
            rep.add('R-progress', r['name'], VIOLATED, loc,
                    cause='counter updated in a separate step from the FIFO operation (the same configuration holds when the two are fused)', **det)
        elif r['status'] == VIOLATED and r['name'] in fused_res:
            rep.add('R-progress', r['name'] + ':as-written', VIOLATED, loc, **det)
        else:
            rep.add('R-progress', r['name'], r['status'], loc, **det)
    rep.tables['R-progress'] = dict(tot, configurations=len(out))
    rep.extra_cov = {'states': tot['states'], 'transitions': tot['transitions']}



# pipes whose hold list is working storage with a bound of its own, not a stall buffer (confirmed by reading)
HOLD_WITHOUT_BLOCK = {
    'upipe_disblo_input': 'upipe_discard_blocking: holds at most max_urefs buffers and drops the rest - never blocking is its purpose',
    'upipe_even_sub_input': 'upipe_even: every buffer is held until the other inputs have caught up; upipe_even_process releases them as dates allow',
    'upipe_trickp_sub_input': 'upipe_trickplay: the branch waiting for the first timestamps holds one buffer per subpipe until check_start; the pause branch blocks',
    'upipe_ts_encaps_input': 'upipe_ts_encaps: the hold list is the multiplexing buffer, bounded by max_urefs * 2 a few lines below (excess is dropped)',
}


def check_backpressure(rep, repo, tier):
    """the queue never holds more than its configured length: what does not fit is parked in the sink AND the pump that
    brought it is blocked, so the producer stops"""
    from rules import c04
    from upv import pathrules as pr
    rep.rule('R-backpressure', 'every function that parks an input buffer (X_hold_input) blocks the pump that delivered it (X_block_input) on every path before '
             'it returns - upipe_qsink_input first of all: without it the sink keeps accepting buffers while the queue is full and queue + sink grow without '
             'bound (21 of 25 such functions in the tree; the four that do not are listed with the bound they enforce themselves)')
    prog = c04.load(tier, repo, Report(PROP, tier))
    n = 0
    seen_q = False
    for uname, u in sorted(prog.units.items()):
        for fn in sorted(u.funcs.values(), key=lambda f: f.name):
            if not fn.blocks or not fn.inmain:
                continue
            if not any(x.get('k') == 'call' and re.search(r'_hold_input$', x.get('fn') or '') for _, _, x in fn.nodes()):
                continue
            n += 1
            seen_q = seen_q or fn.name == 'upipe_qsink_input'
            ev = pr.Events(fn)
            bad = pr.must_follow(ev, pr.m_call(r'\w+_hold_input'), pr.m_call(r'\w+_block_input'))
            if bad and fn.name in HOLD_WITHOUT_BLOCK:
                rep.add('R-backpressure', fn.name, OOS, fn.loc, why='listed: ' + HOLD_WITHOUT_BLOCK[fn.name])
            elif bad:
                rep.add('R-backpressure', fn.name, VIOLATED, '%s:%s' % (fn.file, bad[0][2].get('l')),
                        what='%s parks the buffer (line %s) and can return without blocking the pump that delivered it: the source keeps sending, the list of '
                             'held buffers grows without bound' % (fn.name, bad[0][2].get('l')))
            else:
                rep.add('R-backpressure', fn.name, HOLDS, fn.loc)
    if n < 10 or not seen_q:
        raise facts.AnalysisBroken('R-backpressure: %d holding functions, upipe_qsink_input %sfound' % (n, '' if seen_q else 'not '))


def run(tier='quick', repo=None):
    repo = repo or facts.REPO
    rep = Report(PROP, tier)
    rep.explanation = (
        'Decides only the presence and order of the steps of the wake-up protocol in uqueue_push, uqueue_pop_internal, udeal_start, udeal_grab '
        'and udeal_yield (path rules on their CFGs): give-up paths pass a descriptor reset and a second attempt; a second attempt that succeeds '
        're-arms the descriptor; the other side is signalled under the counter transition test; the dealer undoes its access increment on the '
        'losing path and releases access before leaving the waiter count. Each is a necessary condition (dropping it is a textbook lost wake-up '
        'or double grant). That the protocol is sufficient under every interleaving is a model-checking question and is NOT decided.')
    prog = facts.load_program([], repo=repo)
    H = prog.hdr
    rep.units = ['include/upipe/*.h (header unit)']
    rep.nfuncs = len(H.funcs)
    for n in ('uqueue_push', 'uqueue_pop_internal', 'udeal_grab', 'udeal_yield', 'udeal_start'):
        if n not in H.funcs:
            raise facts.AnalysisBroken('anchor vanished: %s' % n)
    rep.rule('R-wake', 'see instance names; each instance is one step of the double-check / re-arm / signal protocol')

    def ob(name, ok, fn, what):
        rep.add('R-wake', name, HOLDS if ok else VIOLATED, fn.loc, **({} if ok else {'what': what}))

    # ---- uqueue_push / uqueue_pop_internal ---------------------------------
    for fname, attempt, mine, other, giveup, counter_call, trans in (
            ('uqueue_push', 'ufifo_push', 'event_push', 'event_pop', ret_const(0), 'uatomic_fetch_add', 'zero'),
            ('uqueue_pop_internal', r'ufifo_pop\w*', 'event_pop', 'event_push', ret_const(0), 'uatomic_fetch_sub', 'length')):
        fn = H.funcs[fname]
        ev = pr.Events(fn)
        att = pr.m_call(attempt)
        rd = call_on('ueventfd_read', mine)
        wr_mine = call_on('ueventfd_write', mine)
        wr_other = call_on('ueventfd_write', other)
        success = (lambda n: n.get('k') == 'return' and isinstance(n.get('e'), dict) and const_of(n['e']) != 0)
        atts = ev.find(att)
        ob('%s:two-attempts' % fname, len(atts) >= 2, fn, 'the operation must be attempted, and attempted again after the descriptor reset')
        bad = pr.must_precede(ev, rd, giveup)
        ob('%s:reset-before-giving-up' % fname, bool(ev.find(giveup)) and not bad, fn,
           'a path gives up (returns %s) without having reset its descriptor (ueventfd_read(&%s)) first' % ('false' if fname == 'uqueue_push' else 'NULL', mine))
        # after the reset, giving up requires a second attempt
        bad2 = []
        for pos in ev.find(rd):
            hits, _ = ev.reach((pos[0], pos[1]), giveup, att)
            bad2 += hits
        ob('%s:second-attempt-after-reset' % fname, bool(ev.find(rd)) and not bad2, fn,
           'after the descriptor reset the function gives up without trying again: an element / slot that arrived in between is never noticed')
        # after the reset, continuing (success) requires re-arming the own descriptor
        bad3 = []
        for pos in ev.find(rd):
            hits, _ = ev.reach((pos[0], pos[1]), success, wr_mine)
            bad3 += hits
        ob('%s:rearm-after-successful-second-attempt' % fname, bool(ev.find(rd)) and not bad3, fn,
           'the second attempt succeeds but the descriptor that was just reset (%s) is not written again: the next waiter on it sleeps although the queue is usable' % mine)
        # signalling the other side under the counter transition
        cnt = call_on(counter_call, 'counter')
        ok_cnt = bool(ev.find(cnt)) and not pr.must_precede(ev, cnt, success)
        ob('%s:counter-updated-on-success' % fname, ok_cnt, fn, 'a successful operation must update uqueue.counter with %s' % counter_call)
        ws = ev.find(wr_other)

        def trans_cond(ctree, pol, fn=fn):
            if trans == 'zero':
                m, neg = cmp_call(fn, ctree, counter_call, 'counter', '==', lambda r: const_of(r) == 0)
            else:
                m, neg = cmp_call(fn, ctree, counter_call, 'counter', '==',
                                  lambda r: isinstance(strip_all_casts(r), dict) and strip_all_casts(r).get('k') == 'mem' and strip_all_casts(r).get('f') == 'length')
            return m and pol != neg
        ok_sig = bool(ws) and all(pr.control_dependent(fn, ev, w, trans_cond) for w in ws)
        ob('%s:other-side-signalled-on-transition' % fname, ok_sig, fn,
           'ueventfd_write(&%s) must exist and be guarded by the test of the value returned by %s(&counter, 1) (%s)' % (
               other, counter_call, '== 0' if trans == 'zero' else '== length'))
    # ---- udeal ---------------------------------------------------------------
    fn = H.funcs['udeal_grab']
    ev = pr.Events(fn)
    add_acc = call_on('uatomic_fetch_add', 'access')
    sub_acc = call_on('uatomic_fetch_sub', 'access')
    rd = call_on('ueventfd_read', 'event')
    wr = call_on('ueventfd_write', 'event')
    lose = ret_const(0)
    win = (lambda n: n.get('k') == 'return' and isinstance(n.get('e'), dict) and const_of(n['e']) not in (None, 0))
    ob('udeal_grab:reset-before-losing', bool(ev.find(lose)) and not pr.must_precede(ev, rd, lose), fn,
       'udeal_grab returns false without resetting the event first')
    ob('udeal_grab:undo-access-before-losing', bool(ev.find(lose)) and not pr.must_precede(ev, sub_acc, lose), fn,
       'udeal_grab returns false without undoing its uatomic_fetch_add(&access): the resource stays marked busy for ever')
    bad = []
    for pos in ev.find(rd):
        hits, _ = ev.reach((pos[0], pos[1]), pr.m_any(win, add_acc), wr)
        bad += hits
    ob('udeal_grab:rearm-before-retry', bool(ev.find(rd)) and not bad, fn,
       'after resetting the event, udeal_grab retries / wins without writing the event again')
    ob('udeal_grab:enters-through-fetch_add', bool(ev.find(add_acc)) and not pr.must_precede(ev, add_acc, win), fn,
       'udeal_grab can return true without having incremented access')

    def gt0(ctree, pol, fn=fn):
        m, neg = cmp_call(fn, ctree, 'uatomic_fetch_add', 'access', '>', lambda r: const_of(r) == 0)
        return m and pol != neg
    ob('udeal_grab:contention-test', all(pr.control_dependent(fn, ev, r, gt0) for r in ev.find(rd)) and bool(ev.find(rd)), fn,
       'the back-off must be taken exactly when uatomic_fetch_add(&access, 1) > 0 (somebody already holds or enters the section)')
    fn = H.funcs['udeal_yield']
    ev = pr.Events(fn)
    sub_w = call_on('uatomic_fetch_sub', 'waiters')
    ob('udeal_yield:access-released-before-leaving-waiters', bool(ev.find(sub_acc)) and bool(ev.find(sub_w)) and not pr.must_precede(ev, sub_acc, sub_w), fn,
       'udeal_yield must release access before it decrements waiters: otherwise a newcomer that sees waiters == 0 finds access still taken, backs off, and nobody notifies it')

    def gt1(ctree, pol, fn=fn):
        m, neg = cmp_call(fn, ctree, 'uatomic_fetch_sub', 'waiters', '>', lambda r: const_of(r) == 1)
        return m and pol != neg
    ws = ev.find(wr)
    ob('udeal_yield:notify-remaining-waiters', bool(ws) and all(pr.control_dependent(fn, ev, w, gt1) for w in ws), fn,
       'the event must be written when uatomic_fetch_sub(&waiters, 1) > 1 (other waiters remain)')
    fn = H.funcs['udeal_start']
    ev = pr.Events(fn)
    add_w = call_on('uatomic_fetch_add', 'waiters')
    ind = lambda n: n.get('k') == 'call' and not n.get('fn')
    ob('udeal_start:registers-as-waiter-first', bool(ev.find(add_w)) and not pr.must_precede(ev, add_w, ind), fn,
       'udeal_start must register in waiters before trying the callback')
    check_progress(rep, repo, tier)
    check_backpressure(rep, repo, tier)
    rep.assumptions = ['ueventfd_read / ueventfd_write reset / set the readiness of the descriptor',
                       'the interleaving argument (sufficiency of the protocol) is outside this family of technique']
    return rep
