"""C15 - TS and PES packetisation: header builders and parsers.

lib/upipe-ts is not built by this tree (the biTStream headers are absent);
its units are parsed against /verif/stubs/bitstream (DESIGN 2.3).  Decided by
exhaustive finite-domain abstract interpretation (upv.absint + upv.ghost) of
the CFGs of the header builders and parsers against reference layouts written
from ISO/IEC 13818-1 (upv.tsref):

 R-decaps   upipe_ts_decaps_input on every (header field) x (decoder state)
 R-build-ts upipe_ts_encaps_build_ts on every (payload size 0..188) x flags
 R-build-pes upipe_ts_encaps_build_pes / upipe_ts_pese_work header on every
            timestamp combination x minimal header size
 R-pesd     upipe_ts_pesd_decaps on every PES header variant and truncation

Not decided: round trip over sequences of access units, PCR / PTS values
(timing arithmetic), the scheduling of encaps (splice, overlap, T-STD)."""
import itertools
import os

from upv import facts, absint, ghost, tsref
from upv.absint import SYM, Finding, Undecided, explore
from upv.report import Report, HOLDS, VIOLATED, UNDECIDED, OOS

PROP = 'C15'
U_DECAPS = 'lib/upipe-ts/upipe_ts_decaps.c'
U_ENCAPS = 'lib/upipe-ts/upipe_ts_encaps.c'
U_PESD = 'lib/upipe-ts/upipe_ts_pes_decaps.c'
U_PESE = 'lib/upipe-ts/upipe_ts_pes_encaps.c'
UNITS = [U_DECAPS, U_ENCAPS, U_PESD, U_PESE, 'lib/upipe-ts/upipe_ts_split.c', 'lib/upipe-ts/upipe_ts_pid_filter.c']

PIPE = ('obj', 'pipe')


class Runner:
    """runs one abstract input through explore() and turns the outcome into
    obligations; one obligation per abstract input, stable names for
    violations"""

    def __init__(self, rep, rule):
        self.rep = rep
        self.rule = rule
        self.runs = 0
        self.paths = 0
        self.derefs = 0
        self.reported = set()

    def run(self, fn, inst, mk, args_of, post, loc=None, max_scripts=400):
        verdict, detail = HOLDS, {}
        self.runs += 1
        for m, out in explore(mk, fn, args_of, max_scripts=max_scripts):
            self.paths += 1
            self.derefs += m.derefs_checked
            if out[0] == 'finding':
                verdict, detail = VIOLATED, {'what': str(out[1]), 'script': list(m.choices)}
                break
            if out[0] == 'undecided':
                verdict, detail = UNDECIDED, {'why': out[1]}
                break
            if out[0] == 'end':
                verdict, detail = VIOLATED, {'what': 'an assertion of the function fails on this input', 'script': list(m.choices)}
                break
            bad = post(m, out[1])
            if bad:
                verdict, detail = VIOLATED, {'what': bad, 'script': list(m.choices)}
                break
        if verdict == VIOLATED:
            key = '%s:%s' % (fn.name, detail['what'].split(' at line')[0][:90].replace(' ', '-'))
            if key in self.reported:
                return
            self.reported.add(key)
            self.rep.add(self.rule, key, VIOLATED, loc or fn.loc, first_input=inst, **detail)
        else:
            self.rep.add(self.rule, '%s@%s' % (fn.name, inst), verdict, loc or fn.loc, **detail)


def need(u, names):
    for n in names:
        if n not in u.funcs or not u.funcs[n].blocks:
            raise facts.AnalysisBroken('anchor vanished: %s in %s' % (n, u.name))


# ------------------------------------------------------------------ decaps ---

def check_decaps(rep, prog):
    u = prog.units[U_DECAPS]
    need(u, ['upipe_ts_decaps_input'])
    fn = u.funcs['upipe_ts_decaps_input']
    rep.rule('R-decaps', 'for every abstract TS packet (transport_error, unit_start, continuity counter equal / next / other, payload flag, adaptation '
             'field absent or of length 0, 1, 7, 182, 183, 184, 255 with each of the discontinuity / random-access / PCR flags, truncations) and every '
             'decoder state (no packet yet, last counter, last payload identical or different): no octet is read outside the packet or from an unwritten '
             'local; the input is freed or output exactly once; a packet with payload and a legal adaptation field that is not an identical duplicate is '
             'output with exactly the octets after the adaptation field, in order; discontinuity is flagged iff the stream starts, the adaptation field '
             'says so or the counter is not the successor; unit-start, random-access and transport-error are forwarded; the PCR is thrown with its value; and for two-packet sequences (a packet without '
             'payload, then one with): what the first reveals - stream start, a counter that is not the last one, a discontinuity indicator - is flagged on the second')
    R = Runner(rep, 'R-decaps')
    LAST = 5
    pcrv = (0x1abcdef01, 299)
    for tei, pusi, has_payload in itertools.product((0, 1), (0, 1), (0, 1)):
        for cc in (LAST, (LAST + 1) & 15, (LAST + 4) & 15):
            for has_af, af_len, disc, rai, pcr in af_variants():
                for last_cc, lastkind in ((-1, None), (LAST, None), (LAST, 'same'), (LAST, 'other')):
                    if tei and (disc or rai) and af_len not in (7, 183):
                        continue      # thin the product: the flags are independent
                    pkt = tsref.ts_packet(tei=tei, pusi=pusi, cc=cc, has_payload=has_payload, has_af=has_af, af_len=af_len,
                                          disc=disc, rai=rai, pcr=pcrv if pcr else None)
                    one_decaps(R, prog, u, fn, pkt, last_cc, lastkind, full=True)
    # continuity sweep: every (last counter, counter) pair, wrap-around included
    for last_cc in range(16):
        for cc in range(16):
            for has_af, af_len in ((0, 0), (1, 7)):
                pkt = tsref.ts_packet(cc=cc, has_payload=1, has_af=has_af, af_len=af_len)
                one_decaps(R, prog, u, fn, pkt, last_cc, 'other' if cc == last_cc else None, full=True)
    # truncated packets: only the safety clauses
    for size in (0, 1, 3, 4, 5, 6, 11, 12, 100):
        for has_af, af_len, disc, rai, pcr in af_variants():
            pkt = tsref.ts_packet(cc=6, has_payload=1, has_af=has_af, af_len=af_len, disc=disc, rai=rai, pcr=pcrv if pcr else None, size=size)
            one_decaps(R, prog, u, fn, pkt, LAST, None, full=False)
    # sequences: a packet without payload (adaptation field only: PCR, stuffing), then a packet with payload.  Its continuity
    # counter does not count (ISO/IEC 13818-1 2.4.3.3: not incremented without payload), but what it reveals - the stream start,
    # a counter that is not the last one, a discontinuity indicator - must reach the next payload that is delivered
    for last_cc in (-1, LAST):
        for cc1 in (LAST, (LAST + 3) & 15):
            for disc1, pcr1 in ((0, 0), (1, 0), (0, 1)):
                for cc2off in (1, 2):
                    p1 = tsref.ts_packet(cc=cc1, has_payload=0, has_af=1, af_len=183, disc=disc1, pcr=pcrv if pcr1 else None)
                    cc2 = (cc1 + cc2off) & 15
                    p2 = tsref.ts_packet(cc=cc2, has_payload=1, has_af=0, af_len=0)
                    inst = 'seq:last_cc=%d,af-only(cc=%d,disc=%d,pcr=%d),payload(cc=%d)' % (last_cc, cc1, disc1, pcr1, cc2)

                    def mk(p1=p1, p2=p2, last_cc=last_cc):
                        m = ghost.BlockMachine(prog, u, 'upipe_ts_decaps', {'last_cc': last_cc, 'lost': 0, 'discontinuity': 0}, inline=('upipe_ts_decaps_',))
                        m.output_fns = {'upipe_ts_decaps_output'}
                        m.f['last_uref'] = ('null',)
                        m.run(fn, [PIPE, m.new_uref(p1), ('null',)])
                        m.first_outputs = len([e for e in m.events if e[0] == 'output'])
                        m.in_uref = m.new_uref(p2)
                        return m

                    def post(m, ret, last_cc=last_cc, cc1=cc1, disc1=disc1, cc2=cc2):
                        outs = [e for e in m.events if e[0] == 'output']
                        if m.first_outputs:
                            return 'a packet without payload is output'
                        if len(outs) != 1:
                            return 'the packet with payload that follows a packet without payload is not output (outputs: %d)' % len(outs)
                        attrs = outs[0][3]
                        exp = last_cc == -1 or bool(disc1) or cc1 != last_cc or cc2 != ((cc1 + 1) & 15)
                        if bool(attrs.get('flow.discontinuity')) != exp:
                            return ('discontinuity flag is %s on the payload that follows a packet without payload (decoder state: last counter %d; that packet: '
                                    'counter %d, discontinuity indicator %d; this one: counter %d), expected %s' % (
                                        bool(attrs.get('flow.discontinuity')), last_cc, cc1, disc1, cc2, exp))
                        return None
                    R.run(fn, inst, mk, lambda m: [PIPE, m.in_uref, ('null',)], post)
    rep.tables['R-decaps'] = {'abstract_inputs': R.runs, 'paths': R.paths, 'octet_accesses_checked': R.derefs}
    if R.runs < 500:
        raise facts.AnalysisBroken('R-decaps domain shrank to %d inputs' % R.runs)


def af_variants():
    yield (0, 0, 0, 0, 0)
    for af_len in (0, 1, 7, 182, 183, 184, 255):
        if af_len == 0:
            yield (1, 0, 0, 0, 0)
            continue
        for disc, rai in itertools.product((0, 1), (0, 1)):
            yield (1, af_len, disc, rai, 0)
            if af_len >= 7:
                yield (1, af_len, disc, rai, 1)


def one_decaps(R, prog, u, fn, pkt, last_cc, lastkind, full):
    d = tsref.ts_parse(pkt) if full else None
    inst = 'len=%d,hdr=%s,last_cc=%d,last=%s' % (len(pkt), ''.join('%02x' % x for x in pkt[:6] if isinstance(x, int)), last_cc, lastkind)

    def mk():
        m = ghost.BlockMachine(prog, u, 'upipe_ts_decaps', {'last_cc': last_cc, 'lost': 0, 'discontinuity': 0}, inline=('upipe_ts_decaps_',))
        m.output_fns = {'upipe_ts_decaps_output'}
        last = None
        if lastkind == 'same' and d:
            last = pkt[d['payload_off']:]
        elif lastkind == 'other':
            last = tsref.payload_tokens('q', 184)
        m.f['last_uref'] = ('null',) if last is None else m.new_uref(last)
        m.in_uref = m.new_uref(pkt)
        return m

    def post(m, ret):
        inu = m.urefs[m.in_uref[1]]
        outs = [e for e in m.events if e[0] == 'output']
        if inu.state == 'owned':
            return 'the input packet is neither freed nor output'
        lu, lb = m.leaked(keep=[m.f.get('last_uref')])
        if lu or lb:
            return 'leak: urefs %s buffers %s are neither freed, output nor kept' % (lu, lb)
        if not full:
            return None
        legal_af = not d['has_af'] or (d['af_len'] <= 183 and (d['has_payload'] or d['af_len'] == 183))
        dup = d['cc'] == (last_cc & 0xff)
        identical = dup and lastkind == 'same'
        deliver = bool(d['has_payload'] and legal_af and not identical)
        if not deliver:
            if outs:
                return 'a packet that carries nothing to deliver (no payload, illegal adaptation field or identical duplicate) is output'
            return None
        if len(outs) != 1:
            return 'a packet with payload is not output (outputs: %d)' % len(outs)
        _, uid, data, attrs = outs[0][:4]
        want = pkt[d['payload_off']:]
        if data != want:
            return 'payload delivered is not the octets after the adaptation field: %d octets starting %s, expected %d starting %s' % (
                len(data or []), (data or [None])[:1], len(want), want[:1])
        af_on = d['has_af'] and d['af_len'] > 0
        exp_disc = (last_cc == -1) or bool(af_on and d.get('disc')) or dup or (((last_cc + 1) & 15) != d['cc'])
        for key, exp, what in (('flow.discontinuity', exp_disc, 'discontinuity'),
                               ('flow.random', bool(af_on and d.get('rai')), 'random access'),
                               ('block.start', bool(d['pusi']), 'unit start'),
                               ('flow.error', bool(d['tei']), 'transport error')):
            if bool(attrs.get(key)) != bool(exp):
                return '%s flag is %s on the output, expected %s' % (what, bool(attrs.get(key)), bool(exp))
        if m.f.get('last_cc') != d['cc']:
            return 'last continuity counter is %s after the packet, expected %d' % (m.f.get('last_cc'), d['cc'])
        if last_cc != -1 and not (af_on and d.get('disc')):
            exp_lost = 16 if dup else ((d['cc'] - last_cc - 1) & 15)
            if m.f.get('lost') != exp_lost:
                return 'lost-packet count is %s after counter %d -> %d, expected %d' % (m.f.get('lost'), last_cc, d['cc'], exp_lost)
        if af_on and d.get('has_pcr') and 'pcr' in d:
            thr = [e for e in m.events if e[0] == 'throw' and e[1] == 'upipe_throw_clock_ref']
            val = d['pcr'][0] * 300 + d['pcr'][1]
            if len(thr) != 1 or thr[0][2][1] != val:
                return 'clock reference thrown %s, expected one of value %d' % ([t[2][1:] for t in thr], val)
        return None
    R.run(fn, inst, mk, lambda m: [PIPE, m.in_uref, ('null',)], post)


# ---------------------------------------------------------------- build_ts ---

def check_build_ts(rep, prog):
    u = prog.units[U_ENCAPS]
    need(u, ['upipe_ts_encaps_build_ts'])
    fn = u.funcs['upipe_ts_encaps_build_ts']
    rep.rule('R-build-ts', 'for every payload size 0..188, unit start, PCR present or not, random access, discontinuity and stream kind (PES / PSI): '
             'the header is written inside its allocation, every header octet is written, it starts with the sync byte, carries the configured PID, '
             'the unit-start and payload flags, a continuity counter advanced by one iff the packet has payload, an adaptation field of the announced '
             'length holding exactly the requested flags and PCR, and (PES streams) header + payload fill 188 octets')
    R = Runner(rep, 'R-build-ts')
    PID, LAST = 0x1abc & 0x1fff, 0xf
    for payload_size in range(0, 189):
        for start, pcr, random, disc, psi in itertools.product((0, 1), (0, 1), (0, 1), (0, 1), (0, 1)):
            base = 12 if pcr else (6 if (random or disc) else 4)
            if payload_size > 188 - base:
                continue      # the caller never offers more than fits (assert in the caller)
            inst = 'payload=%d,start=%d,pcr=%d,random=%d,disc=%d,psi=%d' % (payload_size, start, pcr, random, disc, psi)
            pcr_prog = 27000000 * 5 + 123 if pcr else (1 << 64) - 1

            def mk():
                m = ghost.BlockMachine(prog, u, 'upipe_ts_encaps', {'pid': PID, 'last_cc': LAST, 'psi': psi, 'cr_prog_offset': 0,
                                                                      'ubuf_mgr': ('obj', 'mgr')}, inline=())
                return m

            def post(m, ret, payload_size=payload_size, start=start, pcr=pcr, random=random, disc=disc, psi=psi, pcr_prog=pcr_prog):
                if not (isinstance(ret, tuple) and ret[0] == 'ubuf'):
                    return 'no header returned (%s)' % (ret,)
                data = m.bufs[ret[1]].data
                if any(t == ghost.UNINIT for t in data):
                    return 'header octet %d of %d is never written' % (data.index(ghost.UNINIT), len(data))
                if any(not isinstance(t, int) for t in data):
                    return 'header octet %d does not have a definite value' % [isinstance(t, int) for t in data].index(False)
                hs = len(data)
                if not psi and hs + payload_size != 188:
                    return 'header of %d octets for %d payload octets: the packet is %d octets' % (hs, payload_size, hs + payload_size)
                if psi and hs + payload_size > 188:
                    return 'header of %d octets for %d payload octets exceeds the packet' % (hs, payload_size)
                pkt = data + tsref.payload_tokens('p', 188 - hs)
                d = tsref.ts_parse(pkt)
                if d['sync'] != 0x47:
                    return 'first octet is 0x%02x, not the sync byte' % d['sync']
                if d['pid'] != PID or d['tei']:
                    return 'PID %d (transport error %d) written, configured %d' % (d['pid'], d['tei'], PID)
                if d['pusi'] != start:
                    return 'unit start flag %d, requested %d' % (d['pusi'], start)
                if d['has_payload'] != (1 if payload_size else 0):
                    return 'payload flag %d for %d payload octets' % (d['has_payload'], payload_size)
                exp_cc = (LAST + 1) & 15 if payload_size else LAST
                if d['cc'] != exp_cc or m.f.get('last_cc') != exp_cc:
                    return 'continuity counter %d (stored %s), expected %d after %d' % (d['cc'], m.f.get('last_cc'), exp_cc, LAST)
                if d['has_af'] != (1 if hs > 4 else 0):
                    return 'adaptation field flag %d with a %d-octet header' % (d['has_af'], hs)
                if d['has_af']:
                    if d['af_len'] != hs - 5:
                        return 'adaptation_field_length %d in a %d-octet header' % (d['af_len'], hs)
                    if d['af_len'] > 0:
                        if (d['disc'], d['rai'], d['has_pcr']) != (disc, random, pcr):
                            return 'adaptation flags disc/random/pcr = %s, requested %s' % ((d['disc'], d['rai'], d['has_pcr']), (disc, random, pcr))
                        if pcr and d.get('pcr') != ((pcr_prog // 300) % (1 << 33), pcr_prog % 300):
                            return 'PCR written %s, expected %s' % (d.get('pcr'), ((pcr_prog // 300) % (1 << 33), pcr_prog % 300))
                        k = 6 + (6 if pcr else 0)
                        if any(x != 0xff for x in data[k:]):
                            return 'stuffing octets of the adaptation field are not 0xff'
                    elif disc or random or pcr:
                        return 'flags requested but the adaptation field is empty'
                elif disc or random or pcr:
                    return 'flags requested but no adaptation field'
                lu, lb = m.leaked(keep=[ret])
                if lu or lb:
                    return 'leak of buffers %s' % lb
                return None
            R.run(fn, inst, mk, lambda m, a=(payload_size, start, pcr_prog, random, disc): [PIPE, a[0], a[1], a[2], a[3], a[4]], post)
    rep.tables['R-build-ts'] = {'abstract_inputs': R.runs, 'paths': R.paths, 'octet_accesses_checked': R.derefs}
    if R.runs < 2000:
        raise facts.AnalysisBroken('R-build-ts domain shrank to %d inputs' % R.runs)


# --------------------------------------------------------------- build_pes ---

PTS_PROG = 300 * 0x123456789 + 77
# payload sizes: small ones and, for every header size, the two sides of PES_packet_length = 65535
PAYLOADS = tuple(sorted({0, 1, 1000, 70000} | {65535 + 6 - hs + d for hs in (6, 9, 14, 19, 25) for d in (0, 1)}))


def expected_pes_header(pes_id, min_hdr, payload, align, pts, dts, off):
    """reference PES header (ISO 13818-1 2.4.3.6/7) for what build_pes is asked"""
    private2 = pes_id == 0xbf
    if private2:
        natural = 6
    elif pts is None:
        natural = 9
    elif dts is None:
        natural = 14
    else:
        natural = 19
    hs = max(natural, min_hdr)
    ln = payload + hs - 6
    if ln > 65535:
        ln = 0
    if private2:
        return [0, 0, 1, pes_id, ln >> 8, ln & 0xff] + [None] * (hs - 6), hs
    v = lambda t: ((t + off) // 300) % (1 << 33)
    h = tsref.pes_header(pes_id, ln, v(pts) if pts is not None else None, v(dts) if dts is not None else None,
                         header_len=hs - 9, align=align)
    return h, hs


def check_build_pes(rep, prog):
    u = prog.units[U_ENCAPS]
    need(u, ['upipe_ts_encaps_build_pes', 'upipe_ts_encaps_pes_header_size'])
    fn = u.funcs['upipe_ts_encaps_build_pes']
    rep.rule('R-build-pes', 'for every stream id class (video, audio, private 1, private 2), PTS absent / alone / with a DTS that codes to the same or another '
             '90 kHz value, minimal header size 0, 9, 14, 19, 25, alignment flag, payload sizes around the 16-bit length limit and clock offset: the header '
             'is written inside its allocation, every octet of it is written, and it equals the reference PES header: start code, stream id, '
             'PES_packet_length (0 when it does not fit 16 bits), marker bits, alignment, PTS_DTS_flags, PES_header_data_length, the coded timestamps and '
             '0xff stuffing')
    R = Runner(rep, 'R-build-pes')
    for pes_id in (0xe0, 0xc0, 0xbd, 0xbf):
        for min_hdr in (0, 9, 14, 19, 25):
            if pes_id == 0xbf and min_hdr > 6:
                continue      # private_stream_2 has no optional header to pad: not a configuration the mux sets
            for ptsk, align, payload, off in itertools.product(('none', 'pts', 'same', 'diff'), (0, 1), PAYLOADS,
                                                               (0, 300 * 0x0f0f0f0f)):
                pts = None if ptsk == 'none' else PTS_PROG
                dts = None if ptsk in ('none', 'pts') else (PTS_PROG - 50 if ptsk == 'same' else PTS_PROG - 300 * 3003)
                exp_dts = dts if ptsk == 'diff' else None
                want, hs = expected_pes_header(pes_id, min_hdr, payload, align, pts, exp_dts, off)
                inst = 'id=%02x,min=%d,ts=%s,align=%d,payload=%d,off=%d' % (pes_id, min_hdr, ptsk, align, payload, off)
                M64 = (1 << 64) - 1

                def mk(pes_id=pes_id, min_hdr=min_hdr, off=off):
                    return ghost.BlockMachine(prog, u, 'upipe_ts_encaps', {'pes_id': pes_id, 'pes_header_size': min_hdr, 'cr_prog_offset': off,
                                                                             'ubuf_mgr': ('obj', 'mgr')}, inline=('upipe_ts_encaps_pes_header_size',))

                def post(m, ret, want=want, hs=hs):
                    if not (isinstance(ret, tuple) and ret[0] == 'ubuf'):
                        return 'no header returned (%s)' % (ret,)
                    data = m.bufs[ret[1]].data
                    if len(data) != hs:
                        return 'header of %d octets, reference %d' % (len(data), hs)
                    for i, (a, b) in enumerate(zip(data, want)):
                        if b is None:
                            continue
                        if a == ghost.UNINIT:
                            return 'header octet %d of %d is never written' % (i, hs)
                        if i in (9, 14) and i + 5 <= len(data) and want[7] >> 6 and i < 9 + 5 * bin(want[7] >> 6).count('1'):
                            # first octet of a timestamp: the 4-bit prefix is the accessor's business, the value bits are the caller's
                            if isinstance(a, int) and (a & 0x0f) == (b & 0x0f):
                                continue
                        if a != b:
                            return 'header octet %d is %s, reference 0x%02x' % (i, ('0x%02x' % a) if isinstance(a, int) else a, b)
                    return None
                args = [PIPE, payload, align, pts if pts is not None else M64, dts if dts is not None else M64]
                R.run(fn, inst, mk, lambda m, a=args: a, post)
    rep.tables['R-build-pes'] = {'abstract_inputs': R.runs, 'paths': R.paths, 'octet_accesses_checked': R.derefs}
    if R.runs < 1000:
        raise facts.AnalysisBroken('R-build-pes domain shrank to %d inputs' % R.runs)


# -------------------------------------------------------------------- pesd ---

def check_pesd(rep, prog):
    u = prog.units[U_PESD]
    need(u, ['upipe_ts_pesd_decaps', 'upipe_ts_pesd_check_output', 'upipe_ts_pesd_flush'])
    fn = u.funcs['upipe_ts_pesd_decaps']
    rep.rule('R-pesd', 'for every PES header variant (stream ids with and without optional header, padding, PTS / PTS+DTS / none, header stuffing, '
             'header_data_length too small for the announced timestamps, bad start code, bad marker bits, PES_packet_length 0 / exact / too small) cut at '
             'every length: no octet is read outside the data received or from an unwritten local; the buffer being assembled is output, kept for more data '
             'or freed - never lost; a complete legal header is removed exactly (9 + PES_header_data_length octets, 6 for streams without optional header) '
             'and the payload output unchanged; the timestamps attached are the coded ones, the PTS-DTS delay being their difference modulo 2^33 (pairs that straddle the wrap included)')
    R = Runner(rep, 'R-pesd')
    PTS, DTS = 0x123456789, 0x123456789 - 3003
    variants = []
    for sid in (0xe0, 0xbd):
        for pts, dts in ((None, None), (PTS, None), (PTS, DTS)):
            nat = 0 if pts is None else (5 if dts is None else 10)
            for hl in sorted({nat, nat + 3, max(0, nat - 2)}):
                for lenk in ('zero', 'exact', 'small'):
                    variants.append(('opt', sid, pts, dts, hl, lenk, 'ok'))
    # the 33-bit counter wraps between the DTS and the PTS of one unit (the delay is the difference modulo 2^33), and at its top
    for pts, dts in ((1800, (1 << 33) - 1800), ((1 << 33) - 1, (1 << 33) - 3004), (0, (1 << 33) - 1)):
        for lenk in ('zero', 'exact'):
            variants.append(('opt', 0xe0, pts, dts, 10, lenk, 'ok'))
    variants.append(('opt', 0xe0, PTS, None, 5, 'zero', 'badstart'))
    variants.append(('opt', 0xe0, PTS, None, 5, 'zero', 'badmarker'))
    for sid in (0xbf, 0xf0, 0xbe):
        variants.append(('plain', sid, None, None, 0, 'exact', 'ok'))
    # streams without optional header carrying very short packets (PES_packet_length 1, 2, 3) or an unbounded one
    for sid in (0xbc, 0xbf, 0xf0, 0xf1, 0xf2, 0xf8, 0xff):
        for np_ in (1, 2, 3):
            variants.append(('plain', sid, None, None, 0, 'exact', 'ok', np_))
        variants.append(('plain', sid, None, None, 0, 'zero', 'ok', 2))
    for var in variants:
        kind, sid, pts, dts, hl, lenk, dmg = var[:7]
        npay = var[7] if len(var) > 7 else 7
        if kind == 'opt':
            nat = 0 if pts is None else (5 if dts is None else 10)
            hdr = tsref.pes_header(sid, 0, pts, dts, header_len=max(hl, nat))
            hdr[8] = hl
            hdr = hdr[:9 + max(hl, 0)] if hl >= nat else hdr[:9 + nat]
            total = len(hdr) + npay
        else:
            hdr = [0, 0, 1, sid, 0, 0]
            total = 6 + npay
        ln = {'zero': 0, 'exact': total - 6, 'small': 2}[lenk]
        hdr[4], hdr[5] = ln >> 8, ln & 0xff
        if dmg == 'badstart':
            hdr[2] = 2
        if dmg == 'badmarker':
            hdr[6] = 0x40
        full = hdr + tsref.payload_tokens('e', npay)
        for cut in range(0, len(full) + 1):
            if cut not in (0, 1, 5, 6, 7, 8, 9) and not (len(hdr) - 6 <= cut <= len(hdr) + 1) and cut != len(full):
                continue
            data = full[:cut]
            inst = 'sid=%02x,pts=%s,dts=%s,hl=%d,len=%s,%s,pay=%d,cut=%d/%d' % (sid, pts is not None, dts is not None, hl, lenk, dmg, npay, cut, len(full))

            def mk(data=data):
                m = ghost.BlockMachine(prog, u, 'upipe_ts_pesd', {'next_uref_size': len(data), 'next_pes_size': 0, 'drop': 1, 'acquired': 0},
                                       inline=('upipe_ts_pesd_check_output', 'upipe_ts_pesd_flush', 'upipe_ts_pesd_sync_'))
                m.output_fns = {'upipe_ts_pesd_output'}
                m.in_uref = m.new_uref(data, {'block.start': True})
                m.f['next_uref'] = m.in_uref
                return m

            def post(m, ret, data=data, hdr=hdr, kind=kind, sid=sid, pts=pts, dts=dts, hl=hl, lenk=lenk, dmg=dmg, full=full):
                inu = m.urefs[m.in_uref[1]]
                outs = [e for e in m.events if e[0] == 'output']
                kept = m.f.get('next_uref') == m.in_uref
                n = (inu.state == 'freed') + (inu.state == 'output') + (1 if (kept and inu.state == 'owned') else 0)
                if n != 1:
                    return 'the buffer being assembled is in state %s and %s in next_uref: it must be exactly one of freed / output / kept' % (
                        inu.state, 'still' if kept else 'not')
                if kept and inu.state != 'owned':
                    return 'next_uref still designates a buffer that was %s' % inu.state
                lu, lb = m.leaked(keep=[m.f.get('next_uref')])
                if lu or lb:
                    return 'leak: urefs %s buffers %s' % (lu, lb)
                # reference decision
                if len(data) < 6:
                    exp = 'keep'
                elif dmg == 'badstart':
                    exp = 'drop'
                elif sid == 0xbe:
                    exp = 'drop'
                elif kind == 'plain':
                    exp = ('out', 6)
                elif lenk == 'small':
                    exp = 'drop'
                elif len(data) < 9:
                    exp = 'keep'
                elif dmg == 'badmarker':
                    exp = 'drop'
                else:
                    nat = 0 if pts is None else (5 if dts is None else 10)
                    if hl < nat:
                        exp = 'drop'
                    elif len(data) < 9 + hl:
                        exp = 'keep'
                    else:
                        exp = ('out', 9 + hl)
                got = 'out' if outs else ('keep' if kept else 'drop')
                if (exp[0] if isinstance(exp, tuple) else exp) != got:
                    return 'reference says %s, the function %s' % (exp, {'out': 'outputs', 'keep': 'waits for more data', 'drop': 'drops the data'}[got])
                if got == 'out':
                    _, uid, odata, attrs = outs[0][:4]
                    if odata != data[exp[1]:]:
                        return 'payload output is %d octets starting %s, reference %d octets starting %s' % (
                            len(odata or []), (odata or [None])[:1], len(data) - exp[1], data[exp[1]:exp[1] + 1])
                    if kind == 'opt' and pts is not None:
                        d = dts if dts is not None else pts
                        delay = ((pts - d) % (1 << 33)) * 300
                        if attrs.get('clock.dts_orig') != d * 300 or attrs.get('clock.dts_pts_delay') != delay:
                            return 'timestamps attached dts_orig=%s delay=%s, coded dts=%d delay=%d (27 MHz, difference modulo 2^33)' % (
                                attrs.get('clock.dts_orig'), attrs.get('clock.dts_pts_delay'), d * 300, delay)
                    elif 'clock.dts_orig' in attrs:
                        return 'a timestamp is attached although none is coded'
                return None
            R.run(fn, inst, mk, lambda m: [PIPE, ('null',)], post)
    rep.tables['R-pesd'] = {'abstract_inputs': R.runs, 'paths': R.paths, 'octet_accesses_checked': R.derefs}
    if R.runs < 300:
        raise facts.AnalysisBroken('R-pesd domain shrank to %d inputs' % R.runs)


# -------------------------------------------------------------------- pese ---

def check_pese(rep, prog):
    u = prog.units[U_PESE]
    need(u, ['upipe_ts_pese_work'])
    fn = u.funcs['upipe_ts_pese_work']
    rep.rule('R-pese', 'upipe_ts_pese_work on every stream id class x timestamp combination x minimal header size x 1..3 pending access units, with PES sizes small, 70000, and at the 16-bit boundary of PES_packet_length (largest that fits, one more, payload of 65535): the first '
             'unit is output with the reference PES header (as R-build-pes) prepended to its unchanged payload and the unit-start flag, the other units '
             'follow unchanged and in order, nothing is left pending, nothing is leaked or freed')
    R = Runner(rep, 'R-pese')
    for pes_id in (0xe0, 0xc0, 0xbd, 0xbf):
        for min_hdr in (0, 9, 14, 19, 25):
            if pes_id == 0xbf and min_hdr > 6:
                continue
            for ptsk, nunits, big in itertools.product(('none', 'pts', 'same', 'diff'), (1, 2, 3), (0, 1, 'fits', 'over', 'payload-max')):
                if big not in (0, 1) and nunits != 1:
                    continue
                pts = None if ptsk == 'none' else PTS_PROG
                dts = None if ptsk in ('none', 'pts') else (PTS_PROG - 50 if ptsk == 'same' else PTS_PROG - 300 * 3003)
                exp_dts = dts if ptsk == 'diff' else None
                sizes = [5, 3, 4][:nunits]
                _, hs0 = expected_pes_header(pes_id, min_hdr, 0, 1, pts, exp_dts, 0)
                # the size field, not the ghost payload, carries the big cases: 70000; the largest payload whose PES_packet_length
                # (payload + header - 6) still fits 16 bits; one more; and a payload of 65535 octets itself
                total = {0: sum(sizes), 1: sum(sizes) + 70000, 'fits': 65535 - (hs0 - 6), 'over': 65535 - (hs0 - 6) + 1, 'payload-max': 65535}[big]
                want, hs = expected_pes_header(pes_id, min_hdr, total, 1, pts, exp_dts, 0)
                inst = 'id=%02x,min=%d,ts=%s,units=%d,big=%s' % (pes_id, min_hdr, ptsk, nunits, big)

                def mk(pes_id=pes_id, min_hdr=min_hdr, pts=pts, dts=dts, sizes=sizes, total=total):
                    m = ghost.BlockMachine(prog, u, 'upipe_ts_pese', {'pes_id': pes_id, 'pes_header_size': min_hdr, 'next_pes_size': total,
                                                                       'next_pes_duration': 0, 'ubuf_mgr': ('obj', 'mgr')}, inline=())
                    m.output_fns = {'upipe_ts_pese_output'}
                    m.units = []
                    for i, sz in enumerate(sizes):
                        attrs = {}
                        if i == 0 and pts is not None:
                            attrs['clock.pts_prog'] = pts
                        if i == 0 and dts is not None:
                            attrs['clock.dts_prog'] = dts
                        m.units.append(m.new_uref(tsref.payload_tokens('u%d_' % i, sz), attrs))
                    m.make_list(m.head('upipe_ts_pese', 'next_pes'), m.units)
                    m.payloads = [list(m.data_of(x)) for x in m.units]
                    return m

                def post(m, ret, want=want, hs=hs):
                    outs = [e for e in m.events if e[0] == 'output']
                    if [e[1] for e in outs] != [x[1] for x in m.units]:
                        return 'units output %s, pending were %s (order / loss / duplication)' % ([e[1] for e in outs], [x[1] for x in m.units])
                    if m.list_of(m.head('upipe_ts_pese', 'next_pes')):
                        return 'units are left pending after the PES was output'
                    if m.f.get('next_pes_size') != 0:
                        return 'next_pes_size is %s after the PES was output' % m.f.get('next_pes_size')
                    first = outs[0]
                    data = first[2]
                    if data is None or data[hs:] != m.payloads[0]:
                        return 'payload of the first unit is not preserved after a %d-octet header' % hs
                    if not first[3].get('block.start'):
                        return 'unit start flag missing on the PES'
                    for i, (a, b) in enumerate(zip(data[:hs], want)):
                        if b is None:
                            continue
                        if a == ghost.UNINIT:
                            return 'header octet %d of %d is never written' % (i, hs)
                        if i in (9, 14) and want[7] >> 6 and i < 9 + 5 * bin(want[7] >> 6).count('1') and isinstance(a, int) and (a & 0x0f) == (b & 0x0f):
                            continue
                        if a != b:
                            return 'header octet %d is %s, reference 0x%02x' % (i, ('0x%02x' % a) if isinstance(a, int) else a, b)
                    for k, e in enumerate(outs[1:], 1):
                        if e[2] != m.payloads[k]:
                            return 'unit %d is modified on its way through' % k
                    lu, lb = m.leaked()
                    if lu or lb:
                        return 'leak: urefs %s buffers %s' % (lu, lb)
                    return None
                R.run(fn, inst, mk, lambda m: [PIPE, ('null',)], post)
    rep.tables['R-pese'] = {'abstract_inputs': R.runs, 'paths': R.paths, 'octet_accesses_checked': R.derefs}
    if R.runs < 300:
        raise facts.AnalysisBroken('R-pese domain shrank to %d inputs' % R.runs)


# ------------------------------------------------------------ split / pidf ---

def check_routing(rep, prog):
    rep.rule('R-route', 'upipe_ts_split_input: for every PID of {0, 1, 68, 0x1ffe, 0x1fff} and 0..3 outputs registered on it (and outputs registered on '
             'neighbouring PIDs): each output registered on the PID of the packet receives the packet once and unchanged, no other output receives anything, '
             'the input is output or freed. upipe_ts_pidf: after add_pid(p) a packet passes iff its PID is p (neighbours p^1, p^8, p+-8 do not), after '
             'del_pid(p) it does not; the bitmap is indexed inside its bounds')
    R = Runner(rep, 'R-route')
    u = prog.units['lib/upipe-ts/upipe_ts_split.c']
    need(u, ['upipe_ts_split_input'])
    fn = u.funcs['upipe_ts_split_input']
    for pid in (0, 1, 68, 0x1ffe, 0x1fff):
        for nsub in (0, 1, 2, 3):
            for other in (None, pid ^ 1, (pid + 8) & 0x1fff):
                inst = 'pid=%d,subs=%d,other=%s' % (pid, nsub, other)
                pkt = tsref.ts_packet(pid=pid, cc=3)

                def mk(pid=pid, nsub=nsub, other=other, pkt=pkt):
                    m = ghost.BlockMachine(prog, u, 'upipe_ts_split', {'pids': ('p', 'pids', 0)}, inline=())
                    m.regions['pids'] = 8192
                    m.output_fns = {'upipe_ts_split_sub_output'}
                    m.subs = [('obj', 'sub%d' % i) for i in range(nsub)]
                    for q in range(0, 8192):
                        pass
                    # every PID has an (empty) list; only the ones used are materialised
                    for q in {pid, other} - {None}:
                        head = ('addr', 'field', ('lv', 'mem', ('p', 'pids', q)), 'upipe_ts_split_pid', 'subs')
                        m.make_list(head, m.subs if q == pid else [('obj', 'othersub')])
                    m.in_uref = m.new_uref(pkt)
                    return m

                def post(m, ret, pkt=pkt):
                    outs = [e for e in m.events if e[0] == 'output']
                    got = sorted(str(e[4]) for e in outs)
                    if got != sorted(str(x) for x in m.subs):
                        return 'outputs served %s, registered on the PID %s' % (got, [str(x) for x in m.subs])
                    for e in outs:
                        if e[2] != pkt:
                            return 'the packet delivered is modified'
                    if m.urefs[m.in_uref[1]].state == 'owned':
                        return 'the input packet is neither output nor freed'
                    lu, lb = m.leaked()
                    if lu or lb:
                        return 'leak: urefs %s buffers %s' % (lu, lb)
                    return None
                R.run(fn, inst, mk, lambda m: [PIPE, m.in_uref, ('null',)], post)
    u2 = prog.units['lib/upipe-ts/upipe_ts_pid_filter.c']
    need(u2, ['upipe_ts_pidf_input', '_upipe_ts_pidf_add_pid', '_upipe_ts_pidf_del_pid'])
    fin, fadd, fdel = (u2.funcs[n] for n in ('upipe_ts_pidf_input', '_upipe_ts_pidf_add_pid', '_upipe_ts_pidf_del_pid'))
    for p in (0, 1, 7, 8, 68, 0x1ff7, 0x1fff):
        for q in sorted({p, p ^ 1, p ^ 8, (p + 8) & 0x1fff, (p - 8) & 0x1fff, p ^ 0x100}):
            for deleted in (0, 1):
                inst = 'add=%d,del=%d,packet=%d' % (p, deleted, q)
                pkt = tsref.ts_packet(pid=q, cc=3)

                def mk(p=p, deleted=deleted, pkt=pkt):
                    m = ghost.BlockMachine(prog, u2, 'upipe_ts_pidf', {'enabled_pids': ('p', 'bitmap', 0)}, inline=())
                    m.regions['bitmap'] = 8192 // 8
                    for i in range(8192 // 8):
                        m.mem[('bitmap', i)] = 0
                    m.output_fns = {'upipe_ts_pidf_output'}
                    m.run(fadd, [PIPE, p])
                    if deleted:
                        m.run(fadd, [PIPE, p ^ 1])
                        m.run(fdel, [PIPE, p])
                    m.in_uref = m.new_uref(pkt)
                    return m

                def post(m, ret, p=p, q=q, deleted=deleted):
                    outs = [e for e in m.events if e[0] == 'output']
                    exp = (q == p and not deleted) or (deleted and q == p ^ 1)
                    if bool(outs) != exp:
                        return 'a packet of PID %d %s after add_pid(%d)%s' % (q, 'passes' if outs else 'is filtered out', p,
                                                                               ', add_pid(%d), del_pid(%d)' % (p ^ 1, p) if deleted else '')
                    if m.urefs[m.in_uref[1]].state == 'owned':
                        return 'the input packet is neither output nor freed'
                    return None
                R.run(fin, inst, mk, lambda m: [PIPE, m.in_uref, ('null',)], post)
    rep.tables['R-route'] = {'abstract_inputs': R.runs, 'paths': R.paths, 'octet_accesses_checked': R.derefs}


def run(tier='quick', repo=None):
    repo = repo or facts.REPO
    rep = Report(PROP, tier)
    rep.level = 'other'
    rep.explanation = (
        'lib/upipe-ts is parsed against stub biTStream headers (the library is absent from this image, so the tree neither builds nor tests these '
        'units). Exhaustive finite-domain abstract interpretation of the CFGs of the TS header parser and builders against reference layouts written '
        'from ISO/IEC 13818-1, with symbolic payload octets compared by identity: decides, for single packets, the clauses "188 octets, sync byte, '
        'configured PID, continuity counter advancing by one per payload-carrying packet", "decapsulation yields exactly the carried payload", "a gap '
        'is flagged as a discontinuity" and "no input makes the pipes read outside a packet" (also truncated and illegal packets). It does not decide '
        'the round trip of whole access units through splice/overlap, nor PCR/PTS arithmetic beyond one coded value.')
    if not facts.have_stubs():
        raise facts.AnalysisBroken('stub headers missing: /verif/stubs/bitstream')
    prog = facts.load_with_stubs([], UNITS, repo=repo, tolerate=False)
    rep.units = sorted(prog.units)
    rep.nfuncs = sum(len(x.funcs) for x in prog.units.values()) + len(prog.hdr.funcs)
    check_decaps(rep, prog)
    check_build_ts(rep, prog)
    check_build_pes(rep, prog)
    check_pesd(rep, prog)
    check_pese(rep, prog)
    check_routing(rep, prog)
    rep.assumptions = ['the stub accessors of /verif/stubs/bitstream index the same octets as biTStream (ISO 13818-1 layouts); the reference layouts '
                       'of upv/tsref.py are written independently and must agree with them for the checks to pass',
                       'the block / uref API behaves as its ghost model (upv/ghost.py): peek / extract / read refuse ranges outside the buffer '
                       '(the property of C03), allocation does not fail',
                       'callers of build_ts offer at most 188 - minimal header octets (asserted in the caller)']
    return rep
