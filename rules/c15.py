"""C15 - TS and PES packetisation: header builders and parsers.

lib/upipe-ts is not built by this tree (the biTStream headers are absent);
its units are parsed against /verif/stubs/bitstream (DESIGN 2.3).  Decided by
exhaustive finite-domain abstract interpretation (upv.absint + upv.ghost) of
the CFGs of the header builders and parsers against reference layouts written
from ISO/IEC 13818-1 (upv.tsref):

 R-decaps   upipe_ts_decaps_input on every (header field) x (decoder state)
 R-build-ts upipe_ts_encaps_build_ts on every (payload size 0..188) x flags
 R-build-pes upipe_ts_encaps_build_pes / upipe_ts_pese_work header on every
            timestamp combination x minimal header size
 R-pesd     upipe_ts_pesd_decaps on every PES header variant and truncation

Not decided: round trip over sequences of access units, PCR / PTS values
(timing arithmetic), the scheduling of encaps (splice, overlap, T-STD)."""
import itertools
import os

from upv import facts, absint, ghost, tsref
from upv.absint import SYM, Finding, Undecided, explore
from upv.report import Report, HOLDS, VIOLATED, UNDECIDED, OOS

PROP = 'C15'
U_DECAPS = 'lib/upipe-ts/upipe_ts_decaps.c'
U_ENCAPS = 'lib/upipe-ts/upipe_ts_encaps.c'
U_PESD = 'lib/upipe-ts/upipe_ts_pes_decaps.c'
U_PESE = 'lib/upipe-ts/upipe_ts_pes_encaps.c'
UNITS = [U_DECAPS, U_ENCAPS, U_PESD, U_PESE, 'lib/upipe-ts/upipe_ts_split.c', 'lib/upipe-ts/upipe_ts_pid_filter.c']

PIPE = ('obj', 'pipe')


class Runner:
    """runs one abstract input through explore() and turns the outcome into
    obligations; one obligation per abstract input, stable names for
    violations"""

    def __init__(self, rep, rule):
        self.rep = rep
        self.rule = rule
        self.runs = 0
        self.paths = 0
        self.derefs = 0
        self.reported = set()

    def run(self, fn, inst, mk, args_of, post, loc=None, max_scripts=400):
        verdict, detail = HOLDS, {}
        self.runs += 1
        for m, out in explore(mk, fn, args_of, max_scripts=max_scripts):
            self.paths += 1
            self.derefs += m.derefs_checked
            if out[0] == 'finding':
                verdict, detail = VIOLATED, {'what': str(out[1]), 'script': list(m.choices)}
                break
            if out[0] == 'undecided':
                verdict, detail = UNDECIDED, {'why': out[1]}
                break
            if out[0] == 'end':
                verdict, detail = VIOLATED, {'what': 'an assertion of the function fails on this input', 'script': list(m.choices)}
                break
            bad = post(m, out[1])
            if bad:
                verdict, detail = VIOLATED, {'what': bad, 'script': list(m.choices)}
                break
        if verdict == VIOLATED:
            key = '%s:%s' % (fn.name, detail['what'].split(' at line')[0][:90].replace(' ', '-'))
            if key in self.reported:
                return
            self.reported.add(key)
            self.rep.add(self.rule, key, VIOLATED, loc or fn.loc, first_input=inst, **detail)
        else:
            self.rep.add(self.rule, '%s@%s' % (fn.name, inst), verdict, loc or fn.loc, **detail)


def need(u, names):
    for n in names:
        if n not in u.funcs or not u.funcs[n].blocks:
            raise facts.AnalysisBroken('anchor vanished: %s in %s' % (n, u.name))


# ------------------------------------------------------------------ decaps ---

def check_decaps(rep, prog):
    u = prog.units[U_DECAPS]
    need(u, ['upipe_ts_decaps_input'])
    fn = u.funcs['upipe_ts_decaps_input']
    rep.rule('R-decaps', 'for every abstract TS packet (transport_error, unit_start, continuity counter equal / next / other, payload flag, adaptation '
             'field absent or of length 0, 1, 7, 182, 183, 184, 255 with each of the discontinuity / random-access / PCR flags, truncations) and every '
             'decoder state (no packet yet, last counter, last payload identical or different): no octet is read outside the packet or from an unwritten '
             'local; the input is freed or output exactly once; a packet with payload and a legal adaptation field that is not an identical duplicate is '
             'output with exactly the octets after the adaptation field, in order; discontinuity is flagged iff the stream starts, the adaptation field '
             'says so or the counter is not the successor; unit-start, random-access and transport-error are forwarded; the PCR is thrown with its value')
    R = Runner(rep, 'R-decaps')
    LAST = 5
    pcrv = (0x1abcdef01, 299)
    for tei, pusi, has_payload in itertools.product((0, 1), (0, 1), (0, 1)):
        for cc in (LAST, (LAST + 1) & 15, (LAST + 4) & 15):
            for has_af, af_len, disc, rai, pcr in af_variants():
                for last_cc, lastkind in ((-1, None), (LAST, None), (LAST, 'same'), (LAST, 'other')):
                    if tei and (disc or rai) and af_len not in (7, 183):
                        continue      # thin the product: the flags are independent
                    pkt = tsref.ts_packet(tei=tei, pusi=pusi, cc=cc, has_payload=has_payload, has_af=has_af, af_len=af_len,
                                          disc=disc, rai=rai, pcr=pcrv if pcr else None)
                    one_decaps(R, prog, u, fn, pkt, last_cc, lastkind, full=True)
    # truncated packets: only the safety clauses
    for size in (0, 1, 3, 4, 5, 6, 11, 12, 100):
        for has_af, af_len, disc, rai, pcr in af_variants():
            pkt = tsref.ts_packet(cc=6, has_payload=1, has_af=has_af, af_len=af_len, disc=disc, rai=rai, pcr=pcrv if pcr else None, size=size)
            one_decaps(R, prog, u, fn, pkt, LAST, None, full=False)
    rep.tables['R-decaps'] = {'abstract_inputs': R.runs, 'paths': R.paths, 'octet_accesses_checked': R.derefs}
    if R.runs < 500:
        raise facts.AnalysisBroken('R-decaps domain shrank to %d inputs' % R.runs)


def af_variants():
    yield (0, 0, 0, 0, 0)
    for af_len in (0, 1, 7, 182, 183, 184, 255):
        if af_len == 0:
            yield (1, 0, 0, 0, 0)
            continue
        for disc, rai in itertools.product((0, 1), (0, 1)):
            yield (1, af_len, disc, rai, 0)
            if af_len >= 7:
                yield (1, af_len, disc, rai, 1)


def one_decaps(R, prog, u, fn, pkt, last_cc, lastkind, full):
    d = tsref.ts_parse(pkt) if full else None
    inst = 'len=%d,hdr=%s,last_cc=%d,last=%s' % (len(pkt), ''.join('%02x' % x for x in pkt[:6] if isinstance(x, int)), last_cc, lastkind)

    def mk():
        m = ghost.BlockMachine(prog, u, 'upipe_ts_decaps', {'last_cc': last_cc, 'lost': 0}, inline=('upipe_ts_decaps_',))
        m.output_fns = {'upipe_ts_decaps_output'}
        last = None
        if lastkind == 'same' and d:
            last = pkt[d['payload_off']:]
        elif lastkind == 'other':
            last = tsref.payload_tokens('q', 184)
        m.f['last_uref'] = ('null',) if last is None else m.new_uref(last)
        m.in_uref = m.new_uref(pkt)
        return m

    def post(m, ret):
        inu = m.urefs[m.in_uref[1]]
        outs = [e for e in m.events if e[0] == 'output']
        if inu.state == 'owned':
            return 'the input packet is neither freed nor output'
        lu, lb = m.leaked(keep=[m.f.get('last_uref')])
        if lu or lb:
            return 'leak: urefs %s buffers %s are neither freed, output nor kept' % (lu, lb)
        if not full:
            return None
        legal_af = not d['has_af'] or (d['af_len'] <= 183 and (d['has_payload'] or d['af_len'] == 183))
        dup = d['cc'] == (last_cc & 0xff)
        identical = dup and lastkind == 'same'
        deliver = bool(d['has_payload'] and legal_af and not identical)
        if not deliver:
            if outs:
                return 'a packet that carries nothing to deliver (no payload, illegal adaptation field or identical duplicate) is output'
            return None
        if len(outs) != 1:
            return 'a packet with payload is not output (outputs: %d)' % len(outs)
        _, uid, data, attrs = outs[0]
        want = pkt[d['payload_off']:]
        if data != want:
            return 'payload delivered is not the octets after the adaptation field: %d octets starting %s, expected %d starting %s' % (
                len(data or []), (data or [None])[:1], len(want), want[:1])
        af_on = d['has_af'] and d['af_len'] > 0
        exp_disc = (last_cc == -1) or bool(af_on and d.get('disc')) or dup or (((last_cc + 1) & 15) != d['cc'])
        for key, exp, what in (('flow.discontinuity', exp_disc, 'discontinuity'),
                               ('flow.random', bool(af_on and d.get('rai')), 'random access'),
                               ('block.start', bool(d['pusi']), 'unit start'),
                               ('flow.error', bool(d['tei']), 'transport error')):
            if bool(attrs.get(key)) != bool(exp):
                return '%s flag is %s on the output, expected %s' % (what, bool(attrs.get(key)), bool(exp))
        if m.f.get('last_cc') != d['cc']:
            return 'last continuity counter is %s after the packet, expected %d' % (m.f.get('last_cc'), d['cc'])
        if af_on and d.get('has_pcr') and 'pcr' in d:
            thr = [e for e in m.events if e[0] == 'throw' and e[1] == 'upipe_throw_clock_ref']
            val = d['pcr'][0] * 300 + d['pcr'][1]
            if len(thr) != 1 or thr[0][2][1] != val:
                return 'clock reference thrown %s, expected one of value %d' % ([t[2][1:] for t in thr], val)
        return None
    R.run(fn, inst, mk, lambda m: [PIPE, m.in_uref, ('null',)], post)


# ---------------------------------------------------------------- build_ts ---

def check_build_ts(rep, prog):
    u = prog.units[U_ENCAPS]
    need(u, ['upipe_ts_encaps_build_ts'])
    fn = u.funcs['upipe_ts_encaps_build_ts']
    rep.rule('R-build-ts', 'for every payload size 0..188, unit start, PCR present or not, random access, discontinuity and stream kind (PES / PSI): '
             'the header is written inside its allocation, every header octet is written, it starts with the sync byte, carries the configured PID, '
             'the unit-start and payload flags, a continuity counter advanced by one iff the packet has payload, an adaptation field of the announced '
             'length holding exactly the requested flags and PCR, and (PES streams) header + payload fill 188 octets')
    R = Runner(rep, 'R-build-ts')
    PID, LAST = 0x1abc & 0x1fff, 0xf
    for payload_size in range(0, 189):
        for start, pcr, random, disc, psi in itertools.product((0, 1), (0, 1), (0, 1), (0, 1), (0, 1)):
            base = 12 if pcr else (6 if (random or disc) else 4)
            if payload_size > 188 - base:
                continue      # the caller never offers more than fits (assert in the caller)
            inst = 'payload=%d,start=%d,pcr=%d,random=%d,disc=%d,psi=%d' % (payload_size, start, pcr, random, disc, psi)
            pcr_prog = 27000000 * 5 + 123 if pcr else (1 << 64) - 1

            def mk():
                m = ghost.BlockMachine(prog, u, 'upipe_ts_encaps', {'pid': PID, 'last_cc': LAST, 'psi': psi, 'cr_prog_offset': 0,
                                                                      'ubuf_mgr': ('obj', 'mgr')}, inline=())
                return m

            def post(m, ret, payload_size=payload_size, start=start, pcr=pcr, random=random, disc=disc, psi=psi, pcr_prog=pcr_prog):
                if not (isinstance(ret, tuple) and ret[0] == 'ubuf'):
                    return 'no header returned (%s)' % (ret,)
                data = m.bufs[ret[1]].data
                if any(t == ghost.UNINIT for t in data):
                    return 'header octet %d of %d is never written' % (data.index(ghost.UNINIT), len(data))
                if any(not isinstance(t, int) for t in data):
                    return 'header octet %d does not have a definite value' % [isinstance(t, int) for t in data].index(False)
                hs = len(data)
                if not psi and hs + payload_size != 188:
                    return 'header of %d octets for %d payload octets: the packet is %d octets' % (hs, payload_size, hs + payload_size)
                if psi and hs + payload_size > 188:
                    return 'header of %d octets for %d payload octets exceeds the packet' % (hs, payload_size)
                pkt = data + tsref.payload_tokens('p', 188 - hs)
                d = tsref.ts_parse(pkt)
                if d['sync'] != 0x47:
                    return 'first octet is 0x%02x, not the sync byte' % d['sync']
                if d['pid'] != PID or d['tei']:
                    return 'PID %d (transport error %d) written, configured %d' % (d['pid'], d['tei'], PID)
                if d['pusi'] != start:
                    return 'unit start flag %d, requested %d' % (d['pusi'], start)
                if d['has_payload'] != (1 if payload_size else 0):
                    return 'payload flag %d for %d payload octets' % (d['has_payload'], payload_size)
                exp_cc = (LAST + 1) & 15 if payload_size else LAST
                if d['cc'] != exp_cc or m.f.get('last_cc') != exp_cc:
                    return 'continuity counter %d (stored %s), expected %d after %d' % (d['cc'], m.f.get('last_cc'), exp_cc, LAST)
                if d['has_af'] != (1 if hs > 4 else 0):
                    return 'adaptation field flag %d with a %d-octet header' % (d['has_af'], hs)
                if d['has_af']:
                    if d['af_len'] != hs - 5:
                        return 'adaptation_field_length %d in a %d-octet header' % (d['af_len'], hs)
                    if d['af_len'] > 0:
                        if (d['disc'], d['rai'], d['has_pcr']) != (disc, random, pcr):
                            return 'adaptation flags disc/random/pcr = %s, requested %s' % ((d['disc'], d['rai'], d['has_pcr']), (disc, random, pcr))
                        if pcr and d.get('pcr') != ((pcr_prog // 300) % (1 << 33), pcr_prog % 300):
                            return 'PCR written %s, expected %s' % (d.get('pcr'), ((pcr_prog // 300) % (1 << 33), pcr_prog % 300))
                        k = 6 + (6 if pcr else 0)
                        if any(x != 0xff for x in data[k:]):
                            return 'stuffing octets of the adaptation field are not 0xff'
                    elif disc or random or pcr:
                        return 'flags requested but the adaptation field is empty'
                elif disc or random or pcr:
                    return 'flags requested but no adaptation field'
                lu, lb = m.leaked(keep=[ret])
                if lu or lb:
                    return 'leak of buffers %s' % lb
                return None
            R.run(fn, inst, mk, lambda m, a=(payload_size, start, pcr_prog, random, disc): [PIPE, a[0], a[1], a[2], a[3], a[4]], post)
    rep.tables['R-build-ts'] = {'abstract_inputs': R.runs, 'paths': R.paths, 'octet_accesses_checked': R.derefs}
    if R.runs < 2000:
        raise facts.AnalysisBroken('R-build-ts domain shrank to %d inputs' % R.runs)


def run(tier='quick', repo=None):
    repo = repo or facts.REPO
    rep = Report(PROP, tier)
    rep.level = 'other'
    rep.explanation = (
        'lib/upipe-ts is parsed against stub biTStream headers (the library is absent from this image, so the tree neither builds nor tests these '
        'units). Exhaustive finite-domain abstract interpretation of the CFGs of the TS header parser and builders against reference layouts written '
        'from ISO/IEC 13818-1, with symbolic payload octets compared by identity: decides, for single packets, the clauses "188 octets, sync byte, '
        'configured PID, continuity counter advancing by one per payload-carrying packet", "decapsulation yields exactly the carried payload", "a gap '
        'is flagged as a discontinuity" and "no input makes the pipes read outside a packet" (also truncated and illegal packets). It does not decide '
        'the round trip of whole access units through splice/overlap, nor PCR/PTS arithmetic beyond one coded value.')
    if not facts.have_stubs():
        raise facts.AnalysisBroken('stub headers missing: /verif/stubs/bitstream')
    prog = facts.load_with_stubs([], UNITS, repo=repo, tolerate=False)
    rep.units = sorted(prog.units)
    rep.nfuncs = sum(len(x.funcs) for x in prog.units.values()) + len(prog.hdr.funcs)
    check_decaps(rep, prog)
    check_build_ts(rep, prog)
    rep.assumptions = ['the stub accessors of /verif/stubs/bitstream index the same octets as biTStream (ISO 13818-1 layouts); the reference layouts '
                       'of upv/tsref.py are written independently and must agree with them for the checks to pass',
                       'the block / uref API behaves as its ghost model (upv/ghost.py): peek / extract / read refuse ranges outside the buffer '
                       '(the property of C03), allocation does not fail',
                       'callers of build_ts offer at most 188 - minimal header octets (asserted in the caller)']
    return rep
