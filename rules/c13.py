"""C13 - a pump fires only while started and not blocked.

Finite typestate extraction (DESIGN §3.7): the CFGs of the upump_common_*
entry points are interpreted over the finite domain
(started in {0,1}) x (ordered list of at most 3 blockers) and compared,
state by state, with the reference automaton of the property."""
import itertools

from upv import facts
from upv import pathrules as pr
from upv.facts import strip, strip_all_casts, strip_expect, walk, is_assign, is_incdec, const_of, enum_name, path_of
from upv.report import Report, HOLDS, VIOLATED, UNDECIDED, OOS

PROP = 'C13'

ENTRY = ['upump_common_start', 'upump_common_stop', 'upump_common_restart', 'upump_common_set_status',
         'upump_common_blocker_alloc', 'upump_common_blocker_free', 'upump_common_init']
CONTROL_MAP = {
    'UPUMP_START': 'upump_common_start', 'UPUMP_STOP': 'upump_common_stop', 'UPUMP_RESTART': 'upump_common_restart',
    'UPUMP_GET_STATUS': 'upump_common_get_status', 'UPUMP_SET_STATUS': 'upump_common_set_status',
    'UPUMP_ALLOC_BLOCKER': 'upump_common_blocker_alloc', 'UPUMP_FREE_BLOCKER': 'upump_common_blocker_free',
    'UPUMP_FREE': r'upump_\w+_free',
}


class Undecided(Exception):
    pass


class State:
    def __init__(self, started, blockers, status=1):
        self.status = status
        self.started = started
        self.blockers = list(blockers)
        self.events = []       # real_start / real_stop / real_restart
        self.steps = 0


class Interp:
    """interprets one upump_common_* function on a concrete abstract state"""

    def __init__(self, unit, prog):
        self.unit = unit
        self.prog = prog

    def run(self, fn, st, args, depth=0):
        if depth > 3:
            raise Undecided('call depth')
        env = {}
        for p, a in zip(fn.params, args):
            env[p['n']] = a
        bid = fn.entry
        while True:
            st.steps += 1
            if st.steps > 2000:
                raise Undecided('step bound (loop?) in %s' % fn.name)
            blk = fn.blocks[bid]
            for s in fn.stmts(bid):
                r = self.exec(fn, s, env, st, depth)
                if r is not None and r[0] == 'return':
                    return r[1]
            if bid == fn.exit:
                return None
            succs = fn.succ[bid]
            c = fn.cond(bid)
            if c:
                v = self.truth(self.eval(fn, c[0], env, st, depth))
                if v is None:
                    raise Undecided('%s: branch at line %s depends on something outside {started, blockers}' % (fn.name, blk['term'].get('l')))
                bid = c[1] if v else c[2]
                if bid is None:
                    raise Undecided('pruned edge taken')
            elif blk.get('term') and blk['term'].get('cls') == 'SwitchStmt':
                raise Undecided('switch in %s' % fn.name)
            else:
                nxt = [s for s in succs if s is not None]
                if not nxt:
                    return None
                bid = nxt[0]

    @staticmethod
    def truth(v):
        if v is None or v == 'sym':
            return None
        if isinstance(v, tuple):
            return True        # pointers to known objects are non-NULL
        return bool(v)

    def exec(self, fn, s, env, st, depth):
        k = s.get('k')
        if k == 'decl':
            for v in s['vars']:
                env[v['n']] = self.eval(fn, v['init'], env, st, depth) if isinstance(v.get('init'), dict) else None
            return None
        if k == 'return':
            return ('return', self.eval(fn, s['e'], env, st, depth) if isinstance(s.get('e'), dict) else None)
        self.eval(fn, s, env, st, depth)
        return None

    def is_blockers(self, n):
        n = strip_all_casts(n)
        if isinstance(n, dict) and n.get('k') == 'un' and n.get('op') == '&':
            m = strip_all_casts(n['e'])
            return isinstance(m, dict) and m.get('k') == 'mem' and m.get('f') == 'blockers' and m.get('rec') == 'upump_common'
        return False

    def eval(self, fn, n, env, st, depth):
        n = fn.resolve(n) if isinstance(n, dict) else n
        if not isinstance(n, dict):
            return None
        k = n.get('k')
        if 'cv' in n and k != 'call':
            return n['cv']
        if k == 'int':
            return n.get('v')
        if k == 'cast':
            return self.eval(fn, n['e'], env, st, depth)
        if k == 'ref':
            if n.get('d') == 'enum':
                return n.get('v')
            return env.get(n['n'], 'sym')
        if k == 'mem':
            if n.get('rec') == 'upump_common':
                if n['f'] == 'started':
                    return 1 if st.started else 0
                if n['f'] == 'status':
                    return st.status
            base = self.eval(fn, n['b'], env, st, depth)
            if isinstance(base, tuple) and base[0] == 'blocker' and n['f'] == 'upump':
                return ('pump',)
            return 'sym'
        if k == 'un':
            op = n.get('op')
            if op == '!':
                t = self.truth(self.eval(fn, n['e'], env, st, depth))
                return None if t is None else (0 if t else 1)
            if op == '&':
                return ('addr',)
            v = self.eval(fn, n['e'], env, st, depth)
            return v
        if k == 'bin':
            op = n.get('op')
            if is_assign(n):
                v = self.eval(fn, n['rhs'], env, st, depth)
                l = strip(n['lhs'])
                if isinstance(l, dict) and l.get('k') == 'ref':
                    env[l['n']] = v
                elif isinstance(l, dict) and l.get('k') == 'mem' and l.get('rec') == 'upump_common':
                    if l['f'] == 'started':
                        t = self.truth(v)
                        if t is None:
                            raise Undecided('%s stores a non-constant into started' % fn.name)
                        st.started = 1 if t else 0
                    elif l['f'] == 'status':
                        t = self.truth(v)
                        if t is None:
                            raise Undecided('%s stores a non-constant into status' % fn.name)
                        st.status = 1 if t else 0
                    else:
                        raise Undecided('%s stores to upump_common.%s' % (fn.name, l['f']))
                return v
            a = self.eval(fn, n.get('lhs'), env, st, depth)
            b = self.eval(fn, n.get('rhs'), env, st, depth)
            if op in ('==', '!='):
                if a in (None, 'sym') or b in (None, 'sym'):
                    # pointer against NULL
                    for x, y in ((a, b), (b, a)):
                        if isinstance(x, tuple) and y == 0:
                            return 0 if op == '==' else 1
                    return None
                if isinstance(a, tuple) or isinstance(b, tuple):
                    ta, tb = (1 if isinstance(a, tuple) else a), (1 if isinstance(b, tuple) else b)
                    r = (ta != 0) == (tb != 0) if (isinstance(a, tuple) != isinstance(b, tuple)) else (a == b)
                    return int(r) if op == '==' else int(not r)
                return int(a == b) if op == '==' else int(a != b)
            return 'sym'
        if k == 'cond':
            t = self.truth(self.eval(fn, n.get('c'), env, st, depth))
            if t is None:
                return 'sym'
            return self.eval(fn, n['a'] if t else n['bb'], env, st, depth)
        if k == 'call':
            return self.call(fn, n, env, st, depth)
        if k == 'stmtexpr':
            v = None
            for b in n.get('body', []):
                if b.get('k') == 'decl':
                    self.exec(fn, b, env, st, depth)
                else:
                    v = self.eval(fn, b, env, st, depth)
            return v
        if k == 'container_of':
            return self.eval(fn, n['e'], env, st, depth)
        return 'sym'

    def call(self, fn, n, env, st, depth):
        name = n.get('fn')
        args = n.get('args', [])
        if name is None:
            p = path_of(n.get('callee')) or ''
            for ev in ('upump_real_start', 'upump_real_stop', 'upump_real_restart'):
                if p.endswith('->' + ev):
                    st.events.append(ev)
                    return None
            raise Undecided('%s: indirect call through %s' % (fn.name, p))
        if name == '__builtin_expect':
            return self.eval(fn, args[0], env, st, depth)
        if name == 'ulist_empty' and self.is_blockers(args[0]):
            return int(len(st.blockers) == 0)
        if name in ('ulist_is_last', 'ulist_is_first') and self.is_blockers(args[0]):
            b = self.eval(fn, args[1], env, st, depth)
            if not (isinstance(b, tuple) and b[0] == 'blocker') or b[1] not in st.blockers:
                raise Undecided('%s on an element that is not in the list' % name)
            return int(st.blockers[-1 if name == 'ulist_is_last' else 0] == b[1])
        if name == 'ulist_add' and self.is_blockers(args[0]):
            b = self.eval(fn, args[1], env, st, depth)
            if not (isinstance(b, tuple) and b[0] == 'blocker'):
                raise Undecided('ulist_add of an unknown element')
            st.blockers.append(b[1])
            return None
        if name == 'ulist_unshift' and self.is_blockers(args[0]):
            b = self.eval(fn, args[1], env, st, depth)
            st.blockers.insert(0, b[1])
            return None
        if name == 'ulist_delete':
            b = self.eval(fn, args[0], env, st, depth)
            if not (isinstance(b, tuple) and b[0] == 'blocker'):
                raise Undecided('ulist_delete of an unknown element')
            if b[1] in st.blockers:
                st.blockers.remove(b[1])
            return None
        if name == 'ulist_init' and self.is_blockers(args[0]):
            st.blockers = []
            return None
        if name in ('upool_alloc', 'upool_alloc_internal', 'upool_alloc_inner') or name.endswith('_alloc_inner'):
            return ('blocker', 'new')
        if name.startswith('upump_common_') and name in self.unit.funcs and name not in ('upump_common_from_upump', 'upump_common_mgr_from_upump_mgr'):
            callee = self.unit.funcs[name]
            avals = [self.eval(fn, a, env, st, depth) for a in args]
            return self.run(callee, st, avals, depth + 1)
        # conversions keep the identity of a blocker
        if len(args) == 1 and ('_to_' in name or '_from_' in name):
            v = self.eval(fn, args[0], env, st, depth)
            return v if isinstance(v, tuple) else ('obj',)
        if name in ('uchain_init', 'upool_free', 'upool_free_internal', 'upool_free_inner', 'upump_blocker_alloc_inner'):
            return None
        if name.startswith('ulist_'):
            raise Undecided('%s: list primitive %s not modelled' % (fn.name, name))
        return 'sym'


def reference(op, started, blockers, arg):
    """expected (started', blockers') after op"""
    b = list(blockers)
    if op == 'upump_common_start':
        return 1, b
    if op == 'upump_common_stop':
        return 0, b
    if op == 'upump_common_restart':
        return 1, b
    if op == 'upump_common_set_status':
        return started, b
    if op == 'upump_common_blocker_alloc':
        return started, b + ['new']
    if op == 'upump_common_blocker_free':
        b.remove(arg)
        return started, b
    if op == 'upump_common_init':
        return 0, []
    raise KeyError(op)


def judge(op, started, blockers, st):
    """compare the events observed with what the automaton allows"""
    active_before = bool(started and not blockers)
    # 'new' blocker gets the next id
    active_after = bool(st.started and not st.blockers)
    R = active_before
    for e in st.events:
        if e == 'upump_real_start':
            if R:
                return 'real_start on a watcher that is already active'
            R = True
        elif e == 'upump_real_stop':
            if not R:
                return 'real_stop on a watcher that is not active'
            R = False
        elif e == 'upump_real_restart':
            R = True
    if op == 'upump_common_init':
        if st.events:
            return 'init touches the real watcher'
        return None
    if R != active_after:
        return 'watcher left %s although started=%d and %d blocker(s) are held' % ('ACTIVE' if R else 'inactive', st.started, len(st.blockers))
    if op not in ('upump_common_set_status', 'upump_common_restart') and active_before == active_after and st.events:
        return 'real watcher touched (%s) although its activity does not change' % ','.join(st.events)
    return None


def run(tier='quick', repo=None):
    repo = repo or facts.REPO
    rep = Report(PROP, tier)
    rep.level = 'proof'
    rep.exhaustive = True
    rep.explanation = (
        'Finite typestate extraction: the CFGs of upump_common_start/stop/restart/set_status/blocker_alloc/blocker_free/init are interpreted '
        'exhaustively over the abstract states (started in {0,1}) x (ordered list of 0..3 blockers) x (which blocker is released); branch conditions '
        'may only depend on started and on list predicates over the blockers (otherwise the obligation is undecided). Each run must leave started and '
        'the blocker list as the reference automaton says and drive the real watcher (upump_real_start/stop/restart through the manager slots) so '
        'that it is active exactly when started and no blocker is held, never starting an active or stopping an inactive one. Plus: upump_ev_control '
        'maps each UPUMP_* command to the matching upump_common_* function; upump_common_clean calls the callback of every blocker under the owner\'s '
        'refcount; dispatch brackets the callback; helper_input allocates at most one blocker per pump and frees all of them. Does not decide what '
        'libev does with a stopped watcher.')
    from rules.c20 import list_units
    mods = list_units(repo, ['lib/upipe-modules'])
    prog = facts.load_program(['lib/upipe/upump_common.c', 'lib/upump-ev/upump_ev.c'] + [m for m in mods], repo=repo, tolerate=True)
    u = prog.units['lib/upipe/upump_common.c']
    rep.units = sorted(prog.units)
    rep.nfuncs = sum(len(x.funcs) for x in prog.units.values())
    for n in ENTRY + ['upump_common_clean', 'upump_common_dispatch']:
        if n not in u.funcs:
            raise facts.AnalysisBroken('anchor vanished: %s' % n)
    rep.rule('R-pump-automaton', 'for every abstract state and every entry point: final (started, blockers) equal the reference automaton\'s, and the sequence of '
             'real_start/real_stop/real_restart calls keeps "real watcher active <=> started && no blocker", with no redundant start/stop')
    rep.rule('R-pump-control', 'upump_ev_control: each UPUMP_* case calls the corresponding upump_common_* function (table in coverage.tables)')
    rep.rule('R-pump-clean', 'upump_common_clean: the blocker callback call sits in the loop over common->blockers')
    rep.rule('R-pump-blockers', 'X_block_input allocates a blocker only when upump_blocker_find() found none for this pump; X_unblock_input frees every blocker of the list')
    rep.tables['control_map'] = CONTROL_MAP
    I = Interp(u, prog)
    nstates = 0
    for started, status0 in itertools.product((0, 1), (0, 1)):
        for nb in range(0, 4 if tier == 'quick' else 6):
            blockers = list(range(1, nb + 1))
            for op in ENTRY:
                variants = [None]
                if op == 'upump_common_blocker_free':
                    variants = blockers
                    if not blockers:
                        continue
                if op == 'upump_common_blocker_alloc' and nb == 3:
                    continue
                if op == 'upump_common_set_status':
                    variants = [('status', 0), ('status', 1), ('status', 2)]
                for arg in variants:
                    nstates += 1
                    st = State(started, blockers, status0)
                    fn = u.funcs[op]
                    args = []
                    for p in fn.params:
                        if p['t'] == 'struct upump *':
                            args.append(('pump',))
                        elif p['t'] == 'struct upump_blocker *':
                            args.append(('blocker', arg))
                        elif p['n'] == 'status' and isinstance(arg, tuple):
                            args.append(arg[1])
                        else:
                            args.append('sym')
                    if isinstance(arg, tuple):
                        suffix = ',arg=%d' % arg[1]
                    else:
                        suffix = (',free#%d' % arg) if arg else ''
                    inst = '%s@started=%d,status=%d,blockers=%d%s' % (op.replace('upump_common_', ''), started, status0, nb, suffix)
                    try:
                        I.run(fn, st, args)
                    except Undecided as e:
                        rep.add('R-pump-automaton', inst, UNDECIDED, fn.loc, why=str(e))
                        continue
                    es, eb = reference(op, started, blockers, arg)
                    estatus = status0
                    if op == 'upump_common_set_status':
                        estatus = 1 if arg[1] else 0
                    elif op == 'upump_common_init':
                        estatus = 1
                    got_b = [('new' if x == 'new' else x) for x in st.blockers]
                    why = None
                    if st.started != es:
                        why = 'started is %d, the automaton says %d' % (st.started, es)
                    elif st.status != estatus:
                        why = 'status is %d, the automaton says %d' % (st.status, estatus)
                    elif sorted(map(str, got_b)) != sorted(map(str, eb)):
                        why = 'blockers held are %s, the automaton says %s' % (got_b, eb)
                    else:
                        why = judge(op, started, blockers, st)
                    if why:
                        rep.add('R-pump-automaton', inst, VIOLATED, fn.loc, what=why, real_calls=st.events,
                                state_before={'started': started, 'status': status0, 'blockers': blockers},
                                state_after={'started': st.started, 'status': st.status, 'blockers': got_b})
                    else:
                        rep.add('R-pump-automaton', inst, HOLDS, fn.loc, real_calls=st.events)
    rep.tables['abstract_runs'] = nstates
    # control map
    ue = prog.units['lib/upump-ev/upump_ev.c']
    ctl = ue.funcs.get('upump_ev_control')
    if ctl is None:
        raise facts.AnalysisBroken('anchor vanished: upump_ev_control')
    import re
    seen = {}
    for b in ctl.blocks:
        lab = ctl.label(b)
        if lab and lab.get('k') == 'case' and lab.get('n'):
            calls = []
            blocks = ctl.reachable_from(b)
            # stop at the next case label
            for bb in sorted(blocks):
                if bb != b and (ctl.label(bb) or {}).get('k') in ('case', 'default'):
                    continue
                for st_ in ctl.stmts(bb):
                    for x in walk(st_):
                        if x.get('k') == 'call' and x.get('fn'):
                            calls.append(x['fn'])
                if bb == b:
                    break
            seen[lab['n']] = calls
    for cmd, want in sorted(CONTROL_MAP.items()):
        calls = seen.get(cmd)
        ok = calls is not None and any(re.fullmatch(want, c) for c in calls) and \
            not any(c.startswith('upump_common_') and not re.fullmatch(want, c) for c in calls)
        rep.add('R-pump-control', cmd, HOLDS if ok else VIOLATED, ctl.loc,
                **({'calls': calls} if ok else {'what': 'case %s calls %s, expected %s' % (cmd, calls, want)}))
    # the manager's real_start / real_stop act on the watcher unconditionally
    rep.rule('R-pump-real', 'upump_ev_real_start / upump_ev_real_stop: every case of the switch on the pump type reaches the ev_<type>_start / ev_<type>_stop '
             'call on every path - the common layer has already decided that the watcher must be (in)active, and ev_<type>_stop is also what discards an '
             'event that is pending but not yet dispatched: a stop that depends on a second opinion (ev_is_active) lets the call-back of an expired '
             'one-shot timer run after upump_stop, while blocked, or after the pump was freed')
    uev = prog.units.get('lib/upump-ev/upump_ev.c')
    if uev is None:
        raise facts.AnalysisBroken('anchor vanished: lib/upump-ev/upump_ev.c')
    for fname, pat in (('upump_ev_real_start', r'ev_\w+_start'), ('upump_ev_real_stop', r'ev_\w+_stop')):
        f = uev.funcs.get(fname)
        if f is None or not f.blocks:
            raise facts.AnalysisBroken('anchor vanished: %s' % fname)
        evf = pr.Events(f)
        ncase = 0
        for bid in sorted(f.blocks):
            lab = f.label(bid)
            if not lab or lab.get('k') != 'case':
                continue
            ncase += 1
            _, ex = evf.reach((bid, -1), lambda n: False, pr.m_call(pat))
            rep.add('R-pump-real', '%s:case-%s' % (fname, lab.get('n') or lab.get('v')), VIOLATED if ex else HOLDS, ('%s:%s' % (f.file, lab.get('l'))) if lab.get('l') else f.loc,
                    **({'what': '%s: a path from this case to the end of the function does not call %s' % (fname, pat)} if ex else {}))
        if ncase < 4:
            raise facts.AnalysisBroken('%s: only %d cases found' % (fname, ncase))
    # clean: callback inside the loop
    fn = u.funcs['upump_common_clean']
    ev = pr.Events(fn)
    ind = lambda n: n.get('k') == 'call' and not n.get('fn')
    cbs = ev.find(ind)
    inloop = bool(cbs) and all(pr.never_after(ev, (lambda p: (lambda n: n is p[2]))(c), (lambda p: (lambda n: n is p[2]))(c)) for c in cbs)
    rep.add('R-pump-clean', 'upump_common_clean', HOLDS if inloop else VIOLATED, fn.loc,
            **({} if inloop else {'what': 'the blocker callback is not invoked from within the loop over the blockers (every outstanding blocker must be notified)'}))
    # free: the pump is stopped through upump_stop (started cleared) before the blockers are notified by
    # upump_common_clean - their call-backs release the blockers, and releasing the last blocker of a pump that
    # still says `started` re-registers the watcher of a pump that is going back to the pool
    nfree = 0
    for uname, uu in sorted(prog.units.items()):
        for f in sorted(uu.funcs.values(), key=lambda f: f.name):
            if not f.blocks or f.macro:
                continue
            evf = pr.Events(f)
            clean = pr.m_call('upump_common_clean')
            if not evf.find(clean) or f.name == 'upump_common_clean':
                continue
            nfree += 1
            stop = pr.m_call(r'upump_stop|upump_common_stop')
            bad = pr.must_precede(evf, stop, clean)
            rep.add('R-pump-clean', '%s:stopped-before-clean' % f.name, VIOLATED if bad else HOLDS, f.loc,
                    **({'what': '%s reaches upump_common_clean without upump_stop(): `started` stays set while the blockers are notified, and the '
                                'release of the last blocker starts the watcher of the pump being freed' % f.name} if bad else {}))
            # and the callback of a notified blocker finds the automaton in "stopped": checked on the automaton
    if nfree < 1:
        raise facts.AnalysisBroken('no pump free function calling upump_common_clean found')
    # flush / free of a pipe that holds input releases its blockers (clean_input: rule shared with C01 R-core)
    from rules import c01
    nci = 0
    for uname, uu in sorted(prog.units.items()):
        for f in sorted(uu.funcs.values(), key=lambda f: f.name):
            if f.macro == 'UPIPE_HELPER_INPUT' and f.name.endswith('_clean_input'):
                nci += 1
                ok = c01.clean_input_ok(f)
                rep.add('R-pump-blockers', '%s:releases-blockers' % f.name, HOLDS if ok else VIOLATED, f.loc,
                        **({} if ok else {'what': 'clean_input (flush / free of a pipe that holds input) must reset NB_UREFS to 0 before unblock_input: '
                                                  'unblock_input keeps the blockers while more than MAX_UREFS are counted, so the source pump stays suspended for ever'}))
    if nci < 10:
        raise facts.AnalysisBroken('only %d clean_input instantiations found' % nci)
    # helper_input blockers (checked on one instantiation per unit parsed)
    for uname, uu in sorted(prog.units.items()):
        for f in sorted(uu.funcs.values(), key=lambda f: f.name):
            if f.macro != 'UPIPE_HELPER_INPUT':
                continue
            if f.name.endswith('_block_input') and not f.name.endswith('_unblock_input'):
                ev = pr.Events(f)
                alloc = pr.m_call('upump_blocker_alloc')
                find = pr.m_call('upump_blocker_find')
                ok = bool(ev.find(alloc)) and not pr.must_precede(ev, find, alloc)
                rep.add('R-pump-blockers', f.name, HOLDS if ok else VIOLATED, f.loc,
                        **({} if ok else {'what': 'a blocker is allocated without first looking for an existing one on this pump'}))
            elif f.name.endswith('_unblock_input'):
                ev = pr.Events(f)
                fr = pr.m_call('upump_blocker_free')
                cs = ev.find(fr)
                ok = bool(cs) and all(pr.never_after(ev, (lambda p: (lambda n: n is p[2]))(c), (lambda p: (lambda n: n is p[2]))(c)) for c in cs)
                rep.add('R-pump-blockers', f.name, HOLDS if ok else VIOLATED, f.loc,
                        **({} if ok else {'what': 'unblock_input must free the blockers in a loop over the whole list'}))
    rep.assumptions = ['the real back-end (upump_real_start/stop/restart slots) activates / deactivates the watcher as named',
                       'libev never calls back a stopped watcher (outside the repository)',
                       'blocker allocation succeeds (allocation failure is out of scope)']
    return rep
