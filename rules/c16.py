"""C16 - PSI sections are reassembled, routed and joined without loss.

lib/upipe-ts is parsed against /verif/stubs/bitstream (DESIGN 2.3).  Decided
by exhaustive finite-domain abstract interpretation (upv.absint + upv.ghost)
of upipe_ts_psim_input (+ merge / flush), upipe_ts_psi_split_input (+ the
real ubuf_block_match of include/upipe/ubuf_block.h) and
upipe_ts_psi_join_sub_input, against a reference section parser / matcher.

Not decided: section lengths beyond the small domain (the code only adds,
subtracts and compares them), CRC, the flow-definition side of join."""
import itertools

from upv import facts, ghost, tsref
from upv.absint import SYM
from upv.report import Report, HOLDS, VIOLATED, UNDECIDED, OOS
from rules.c15 import Runner, need, PIPE

PROP = 'C16'
U_MERGE = 'lib/upipe-ts/upipe_ts_psi_merge.c'
U_SPLIT = 'lib/upipe-ts/upipe_ts_psi_split.c'
U_JOIN = 'lib/upipe-ts/upipe_ts_psi_join.c'
UNITS = [U_MERGE, U_SPLIT, U_JOIN]


def ref_sections(stream):
    """reference reassembly (ISO 13818-1 2.4.4): returns (complete sections,
    pending prefix or [], corrupt?) for a token string that starts at a
    section boundary"""
    out = []
    i = 0
    while i < len(stream):
        if stream[i] == 0xff:
            return out, [], False        # stuffing up to the end of the payload
        if len(stream) - i < 3:
            return out, stream[i:], False
        ln = ((stream[i + 1] & 0xf) << 8) | stream[i + 2]
        syntax = stream[i + 1] >> 7
        if ln > 4093 or (syntax and ln < 9):
            return out, [], True
        if len(stream) - i < 3 + ln:
            return out, stream[i:], False
        out.append(stream[i:i + 3 + ln])
        i += 3 + ln
    return out, [], False


def check_merge(rep, prog):
    u = prog.units[U_MERGE]
    need(u, ['upipe_ts_psim_input', 'upipe_ts_psim_merge', 'upipe_ts_psim_flush'])
    fn = u.funcs['upipe_ts_psim_input']
    rep.rule('R-merge', 'upipe_ts_psim_input on every (synchronised or not) x (0..n octets of a section already assembled, the cut at every position including '
             'inside the 3-octet header) x (payload with or without unit start and pointer field) x (rest of the section, then none / one / two further '
             'complete sections, then nothing / stuffing / the first 1..5 octets of another section) x (discontinuity flag) x (illegal length), and sections of the maximal legal size (section_length 4093, 4091, 4090) cut at several places: the sections '
             'output are exactly those a reference reassembly completes, each once, whole, in order and unmodified; what is kept pending is exactly the '
             'incomplete tail; corrupt or unsynchronised data is dropped and synchronisation waits for the next unit start; every buffer is freed, output '
             'or kept - no leak, no double free, no read outside the data')
    R = Runner(rep, 'R-merge')
    secs = {
        'A0': tsref.psi_section(0x40, 0, 'a', syntax=0), 'A1': tsref.psi_section(0x41, 1, 'a', syntax=0),
        'A5': tsref.psi_section(0x42, 5, 'a', syntax=0), 'A9': tsref.psi_section(0x43, 9, 'a', syntax=1),
        'B0': tsref.psi_section(0x50, 0, 'b', syntax=0), 'B2': tsref.psi_section(0x51, 2, 'b', syntax=0),
        'C3': tsref.psi_section(0x60, 3, 'c', syntax=0),
    }
    bad_len = [0x70, 0x3f, 0xff] + tsref.payload_tokens('x', 4)          # section_length 4095 > 4093
    bad_syn = [0x71, 0xb0, 0x03] + tsref.payload_tokens('y', 3)          # syntax indicator with a length below 9
    tails = {'none': [], 'stuff': [0xff, 0xff], 'c1': secs['C3'][:1], 'c2': secs['C3'][:2], 'c3': secs['C3'][:3], 'c5': secs['C3'][:5],
             'badlen': bad_len, 'badsyn': bad_syn}
    for s1name in ('A0', 'A1', 'A5', 'A9'):
        S1 = secs[s1name]
        for a in range(0, len(S1)):
            for mid in ((), ('B0',), ('B2',), ('B2', 'B0')):
                for tname, tail in tails.items():
                    body = S1[a:] + sum((secs[x] for x in mid), []) + tail
                    for acquired, start, disc in ((1, 0, 0), (1, 1, 0), (0, 1, 0), (0, 0, 0), (1, 1, 1), (1, 0, 1)):
                        if a == 0 and not start and not disc:
                            pending = None       # nothing pending and no unit start: covered below (must be dropped)
                        pending = S1[:a] if (a > 0 and acquired) else None
                        garbage = tsref.payload_tokens('g', 2)
                        if start:
                            if acquired and not disc:
                                payload = [len(S1[a:]) if a > 0 else 0] + body       # pointer_field: rest of the pending section
                                if a == 0:
                                    payload = [0] + body
                            else:
                                # not synchronised: pointer_field skips what belongs to a section we never saw the start of
                                payload = [2] + garbage + (S1 + sum((secs[x] for x in mid), []) + tail if True else [])
                        else:
                            payload = body
                        one_merge(R, prog, u, fn, s1name, a, mid, tname, acquired, start, disc, pending, payload, S1, secs, tail)
    # sections at the legal maximum (section_length 4093, 4096 octets in all) and just below: the limits of the header check
    for ln in (4093, 4091, 4090):
        nm = 'M%d' % ln
        secs[nm] = tsref.psi_section(0x44, ln, 'm', syntax=0)
        S1 = secs[nm]
        for a in (0, 1, 2, 3, 200, len(S1) - 1):
            for mid in ((), ('B0',)):
                for tname in ('none', 'c2'):
                    tail = tails[tname]
                    body = S1[a:] + sum((secs[x] for x in mid), []) + tail
                    for acquired, start, disc in ((1, 0, 0), (1, 1, 0)):
                        if a == 0 and not start:
                            continue
                        pending = S1[:a] if a > 0 else None
                        payload = ([len(S1[a:]) if a > 0 else 0] + body) if start else body
                        if start and a > 0 and len(S1[a:]) > 255:
                            continue          # a pointer_field is one octet
                        one_merge(R, prog, u, fn, nm, a, mid, tname, acquired, start, disc, pending, payload, S1, secs, tail)
    rep.tables['R-merge'] = {'abstract_inputs': R.runs, 'paths': R.paths, 'octet_accesses_checked': R.derefs}
    if R.runs < 1500:
        raise facts.AnalysisBroken('R-merge domain shrank to %d inputs' % R.runs)


def one_merge(R, prog, u, fn, s1name, a, mid, tname, acquired, start, disc, pending, payload, S1, secs, tail):
    inst = 'S1=%s,have=%d,then=%s,tail=%s,acquired=%d,start=%d,disc=%d' % (s1name, a, '+'.join(mid) or '-', tname, acquired, start, disc)
    # ---- reference
    rest = sum((secs[x] for x in mid), []) + tail
    if disc:
        pend = None                      # what was pending is lost
        sync = False
    else:
        pend = pending
        sync = bool(acquired)
    if start:
        if sync:
            stream = (pend or []) + payload[1:]
        else:
            stream = payload[1 + payload[0]:]
            sync = True
        exp_out, exp_pending, corrupt = ref_sections(stream)
    elif pend:
        exp_out, exp_pending, corrupt = ref_sections(pend + payload)
    else:
        exp_out, exp_pending, corrupt = [], [], True       # no start, nothing pending: nothing can be used
    if corrupt:
        exp_pending = []

    def mk():
        m = ghost.BlockMachine(prog, u, 'upipe_ts_psim', {'acquired': acquired}, inline=('upipe_ts_psim_merge', 'upipe_ts_psim_flush', 'upipe_ts_psim_sync_'))
        m.output_fns = {'upipe_ts_psim_output'}
        m.f['next_uref'] = m.new_uref(pending) if pending else ('null',)
        attrs = {}
        if start:
            attrs['block.start'] = True
        if disc:
            attrs['flow.discontinuity'] = True
        m.in_uref = m.new_uref(payload, attrs)
        return m

    def post(m, ret):
        outs = [e[2] for e in m.events if e[0] == 'output']
        if outs != exp_out:
            return 'sections output %s, reference %s' % ([short(x) for x in outs], [short(x) for x in exp_out])
        nu = m.f.get('next_uref')
        got_p = m.data_of(nu) if isinstance(nu, tuple) and nu[0] == 'uref' else None
        if (got_p or []) != exp_pending:
            return 'pending after the call is %s, reference %s' % (short(got_p or []), short(exp_pending))
        if isinstance(nu, tuple) and nu[0] == 'uref' and m.urefs[nu[1]].state != 'owned':
            return 'next_uref designates a buffer that was %s' % m.urefs[nu[1]].state
        if m.urefs[m.in_uref[1]].state == 'owned':
            return 'the input payload is neither freed nor output'
        lu, lb = m.leaked(keep=[nu])
        if lu or lb:
            return 'leak: urefs %s buffers %s' % (lu, lb)
        if corrupt and start is False and not pending and m.f.get('acquired') not in (0, False) and not acquired:
            return 'synchronised without having seen a unit start'
        return None
    R.run(fn, inst, mk, lambda m: [PIPE, m.in_uref, ('null',)], post, max_scripts=600)


def short(toks):
    return ''.join(('%02x' % t) if isinstance(t, int) else '.' for t in toks)


# -------------------------------------------------------------------- split ---

class SplitMachine(ghost.BlockMachine):
    def extra_api(self, fn, node, name, v):
        if name == 'uref_ts_flow_get_psi_filter':
            flt = self.filters.get(v[0])
            if flt is None:
                return self.err_invalid
            f, msk = flt
            rf, rm = self.region(len(f), 'filter'), self.region(len(msk), 'mask')
            for i, x in enumerate(f):
                self.mem[(rf, i)] = x
            for i, x in enumerate(msk):
                self.mem[(rm, i)] = x
            self.out_store(v[1], ('p', rf, 0), node)
            self.out_store(v[2], ('p', rm, 0), node)
            self.out_store(v[3], len(f), node)
            return 0
        return NotImplemented


FILTERS = [
    ([0x42], [0xff]),
    ([0x42, 0x00, 0x10], [0xff, 0x00, 0xf0]),
    ([0x40], [0xfe]),
    ([0x42, 0x80, 0x13, 0x05], [0xff, 0x80, 0xff, 0xff]),
    ([], []),
]


def ref_match(sec, f, msk):
    if len(sec) < len(f):
        return False
    for i in range(len(f)):
        if not isinstance(sec[i], int):
            return None
        if (sec[i] & msk[i]) != f[i]:
            return False
    return True


def check_split(rep, prog):
    u = prog.units[U_SPLIT]
    need(u, ['upipe_ts_psi_split_input'])
    fn = u.funcs['upipe_ts_psi_split_input']
    for n in ('ubuf_block_match', 'uref_block_match'):
        if n not in prog.hdr.funcs:
            raise facts.AnalysisBroken('anchor vanished: %s' % n)
    rep.rule('R-split', 'upipe_ts_psi_split_input with every subset (of size 0..3) of five filter/mask pairs of 0..4 octets as outputs and sections whose leading '
             'octets hit and miss each of them (and sections shorter than a filter), the section buffer mapped whole or octet by octet: exactly the outputs '
             'whose (octet & mask) == filter over the whole filter length receive the section, once and unmodified; the input is output or freed; nothing leaks. '
             'ubuf_block_match itself (include/upipe/ubuf_block.h) is interpreted, not modelled')
    R = Runner(rep, 'R-split')
    heads = [[0x42, 0x80, 0x13, 0x05], [0x42, 0x00, 0x1f, 0x05], [0x42, 0x80, 0x23, 0x05], [0x41, 0x80, 0x13, 0x05], [0x43, 0x30, 0x03, 0x00],
             [0x42, 0x80, 0x13], [0x42], []]
    for hd in heads:
        sec = list(hd) + (tsref.payload_tokens('s', 3) if len(hd) >= 4 else [])
        for k in (0, 1, 2, 3):
            for combo in itertools.combinations(range(len(FILTERS)), k):
                inst = 'section=%s,filters=%s' % (short(sec), ','.join(map(str, combo)) or '-')

                def mk(combo=combo, sec=sec):
                    m = SplitMachine(prog, u, 'upipe_ts_psi_split', {}, inline=('uref_block_match', 'ubuf_block_match'))
                    m.fragment_reads = True
                    m.output_fns = {'upipe_ts_psi_split_sub_output'}
                    m.subs = [('obj', 'sub%d' % i) for i in combo]
                    m.filters = {}
                    for sub, i in zip(m.subs, combo):
                        fd = ('obj', 'flow_def%d' % i)
                        m.objf[(sub, 'flow_def')] = fd
                        m.filters[fd] = FILTERS[i]
                    m.make_list(m.head('upipe_ts_psi_split', 'subs'), m.subs)
                    m.in_uref = m.new_uref(sec)
                    return m

                def post(m, ret, combo=combo, sec=sec):
                    outs = [e for e in m.events if e[0] == 'output']
                    exp = sorted(str(('obj', 'sub%d' % i)) for i in combo if ref_match(sec, *FILTERS[i]))
                    got = sorted(str(e[4]) for e in outs)
                    if got != exp:
                        return 'outputs served %s, reference matcher %s' % (got, exp)
                    for e in outs:
                        if e[2] != sec:
                            return 'the section delivered is modified'
                    if m.urefs[m.in_uref[1]].state == 'owned':
                        return 'the input section is neither output nor freed'
                    lu, lb = m.leaked()
                    if lu or lb:
                        return 'leak: urefs %s buffers %s' % (lu, lb)
                    return None
                R.run(fn, inst, mk, lambda m: [PIPE, m.in_uref, ('null',)], post, max_scripts=3000)
    rep.tables['R-split'] = {'abstract_inputs': R.runs, 'paths': R.paths, 'octet_accesses_checked': R.derefs,
                             'filters': [[short(f), short(k)] for f, k in FILTERS]}
    if R.runs < 150:
        raise facts.AnalysisBroken('R-split domain shrank to %d inputs' % R.runs)


def check_join(rep, prog):
    u = prog.units[U_JOIN]
    need(u, ['upipe_ts_psi_join_sub_input'])
    fn = u.funcs['upipe_ts_psi_join_sub_input']
    rep.rule('R-join', 'upipe_ts_psi_join_sub_input: the section received by any input subpipe is handed to the output of the join pipe, once, unmodified, and '
             'nothing else happens to it')
    R = Runner(rep, 'R-join')
    for n in (3, 8):
        sec = tsref.psi_section(0x42, n - 3, 'j', syntax=0)

        def mk(sec=sec):
            m = ghost.BlockMachine(prog, u, 'upipe_ts_psi_join', {}, inline=())
            m.output_fns = {'upipe_ts_psi_join_output'}
            m.in_uref = m.new_uref(sec, {'k': 1})
            return m

        def post(m, ret, sec=sec):
            outs = [e for e in m.events if e[0] == 'output']
            if len(outs) != 1 or outs[0][1] != m.in_uref[1] or outs[0][2] != sec:
                return 'the section is not forwarded once and unmodified (outputs: %d)' % len(outs)
            return None
        R.run(fn, 'section=%d' % n, mk, lambda m: [('obj', 'sub'), m.in_uref, ('null',)], post)
    rep.tables['R-join'] = {'abstract_inputs': R.runs}


def run(tier='quick', repo=None):
    repo = repo or facts.REPO
    rep = Report(PROP, tier)
    rep.level = 'other'
    rep.explanation = (
        'lib/upipe-ts is parsed against stub biTStream headers (absent from this image: the tree neither builds nor tests these units). Exhaustive '
        'finite-domain abstract interpretation of the CFGs of the section merger, splitter and joiner with a ghost model of block buffers whose payload '
        'octets are symbolic tokens compared by identity, against a reference reassembly / matcher written from ISO/IEC 13818-1 2.4.4. Decides, per call '
        'and for small sections, that the merger outputs exactly the original sections (every cut position, pointer fields, several sections per payload, '
        'stuffing, illegal lengths, discontinuities, resynchronisation at the next unit start), that the splitter delivers each section unmodified to '
        'exactly the outputs whose filter and mask match, and that the joiner forwards every section. Lengths beyond the domain are not enumerated: the '
        'code only adds, subtracts and compares them.')
    if not facts.have_stubs():
        raise facts.AnalysisBroken('stub headers missing: /verif/stubs/bitstream')
    prog = facts.load_with_stubs([], UNITS, repo=repo, tolerate=False)
    rep.units = sorted(prog.units)
    rep.nfuncs = sum(len(x.funcs) for x in prog.units.values()) + len(prog.hdr.funcs)
    check_merge(rep, prog)
    check_split(rep, prog)
    check_join(rep, prog)
    rep.assumptions = ['psi_get_length / psi_validate of the stub header index the section header as ISO 13818-1 does (the reference parser is independent)',
                       'the block / uref API behaves as its ghost model (upv/ghost.py); allocation does not fail',
                       'a TS payload that starts a unit begins with a pointer_field that designates the first section start (well-formed input) when the '
                       'merger is synchronised']
    return rep
