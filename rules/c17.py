"""C17 - H.264 / H.265 NAL handling (upipe_h26x_common.c).

lib/upipe-framers is parsed against /verif/stubs/bitstream (DESIGN 2.3).
Decided by exhaustive finite-domain abstract interpretation (upv.absint +
upv.ghost):

 R-epb     upipe_h26xf_stream_get removes exactly the emulation prevention
           octets (every octet string of length <= 6 over {00, 01, 03, 42})
 R-golomb  upipe_h26xf_stream_ue / _se return what a reference encoder wrote
           and consume exactly the code (every prefix length 0..31, several
           suffix patterns, bit offsets, emulation prevention in the way),
           without undefined shifts
 R-convert upipe_h26xf_convert_frame between every pair of encapsulations on
           frames of 1..3 NAL units: payloads and order kept, prefixes and NAL
           offsets as the reference, round trip, refusal of sizes that do not
           fit the length prefix, ownership

Not decided: the framers' start-code scanning and access-unit cutting
(independence of chunking), parameter-set parsing."""
import itertools

from upv import facts, ghost, tsref
from upv import pathrules as pr
from upv.facts import walk
from upv.absint import SYM, Finding, Undecided, PathEnd
from upv.report import Report, HOLDS, VIOLATED, UNDECIDED, OOS
from rules.c15 import Runner, need, PIPE

PROP = 'C17'
U_COMMON = 'lib/upipe-framers/upipe_h26x_common.c'
UNITS = [U_COMMON, 'lib/upipe-framers/upipe_h264_framer.c', 'lib/upipe-framers/upipe_h265_framer.c', 'lib/upipe-framers/upipe_framers_common.c']
S = ('obj', 'stream')

NALU, ANNEXB, LUNK, L1, L2, L4 = 0, 1, 2, 3, 4, 5
ENC_NAME = {NALU: 'nalu', ANNEXB: 'annexb', LUNK: 'length?', L1: 'length1', L2: 'length2', L4: 'length4'}


class StreamMachine(ghost.BlockMachine):
    """ghost octet source behind ubuf_block_stream_get; the fields of the
    stream helper structure (bits cache, zero run) are real"""

    def __init__(self, prog, unit, octets):
        ghost.BlockMachine.__init__(self, prog, unit, None, {}, inline=('upipe_h26xf_stream_',))
        self.src = list(octets)
        self.pos = 0
        for k, v in (('bits', 0), ('available', 0), ('overflow', 0), ('zeros', 0)):
            self.objf[(S, k)] = v

    def extra_api(self, fn, node, name, v):
        if name == 'ubuf_block_stream_get':
            if self.pos >= len(self.src):
                return self.err_invalid
            self.out_store(v[1], self.src[self.pos], node)
            self.pos += 1
            return 0
        return NotImplemented


def unescape(octs):
    """reference removal of emulation_prevention_three_byte (H.264 7.4.1)"""
    out, zeros = [], 0
    for o in octs:
        if zeros >= 2 and o == 3:
            zeros = 0
            continue
        out.append(o)
        zeros = zeros + 1 if o == 0 else 0
    return out


def escape(octs):
    out, zeros = [], 0
    for o in octs:
        if zeros >= 2 and o <= 3:
            out.append(3)
            zeros = 0
        out.append(o)
        zeros = zeros + 1 if o == 0 else 0
    return out


def guarded(rep, rule, inst, loc, thunk):
    try:
        bad = thunk()
    except Finding as f:
        bad = str(f)
    except Undecided as u_:
        rep.add(rule, inst, UNDECIDED, loc, why=str(u_))
        return
    except PathEnd:
        bad = 'an assertion of the function fails on this input'
    if bad:
        return bad
    rep.add(rule, inst, HOLDS, loc)
    return None


def check_epb(rep, prog):
    u = prog.units[U_COMMON]
    need(u, ['upipe_h26xf_stream_get'])
    fn = u.funcs['upipe_h26xf_stream_get']
    rep.rule('R-epb', 'for every octet string of length 0..6 over {0x00, 0x01, 0x03, 0x42}: the octets returned by successive upipe_h26xf_stream_get calls are '
             'the string with every 0x03 that follows two zero octets removed (reference: H.264 7.4.1), and the end of data is reported, not read past')
    seen = set()
    n = 0
    for ln in range(0, 7):
        for octs in itertools.product((0, 1, 3, 0x42), repeat=ln):
            n += 1
            inst = ''.join('%02x' % o for o in octs) or 'empty'

            def thunk(octs=octs):
                m = StreamMachine(prog, u, octs)
                got = []
                for _ in range(len(octs) + 2):
                    env = {'o': SYM}
                    m.cells[(id(env), 'o')] = env
                    r = m.run(fn, [S, ('addr', 'var', 'o', id(env))])
                    if r != 0:
                        break
                    got.append(env['o'])
                want = unescape(list(octs))
                if got != want:
                    return 'octets returned %s, reference %s' % (['%02x' % x if isinstance(x, int) else x for x in got], ['%02x' % x for x in want])
                return None
            bad = guarded(rep, 'R-epb', 'stream_get@' + inst, fn.loc, thunk)
            if bad:
                key = bad.split(' at line')[0][:80]
                if key not in seen:
                    seen.add(key)
                    rep.add('R-epb', 'upipe_h26xf_stream_get:' + key.replace(' ', '-'), VIOLATED, fn.loc, first_input=inst, what=bad)
    rep.tables['R-epb'] = {'abstract_inputs': n}
    if n < 5000:
        raise facts.AnalysisBroken('R-epb domain shrank')


def bits_to_octets(bits):
    bits = list(bits)
    while len(bits) % 8:
        bits.append(1)
    return [int(''.join(map(str, bits[i:i + 8])), 2) for i in range(0, len(bits), 8)]


def check_golomb(rep, prog):
    u = prog.units[U_COMMON]
    need(u, ['upipe_h26xf_stream_ue', 'upipe_h26xf_stream_se', 'upipe_h26xf_stream_get'])
    fue, fse = u.funcs['upipe_h26xf_stream_ue'], u.funcs['upipe_h26xf_stream_se']
    rep.rule('R-golomb', 'for every prefix length 0..31, suffix patterns all-zeros / all-ones / alternating / one-hot, bit offsets 0, 3 and 7 and with the '
             'emulation prevention octets a reference encoder inserts: upipe_h26xf_stream_ue returns 2^n - 1 + suffix, upipe_h26xf_stream_se the signed '
             'mapping of it, exactly offset + 2n + 1 bits are consumed, and no shift is undefined; prefixes of 32 zeros or more (not a legal code) only '
             'have to be free of undefined behaviour')
    seen = set()
    n_in = 0
    for n in range(0, 34):
        sufs = {0}
        if n and n <= 31:
            sufs |= {(1 << n) - 1, int(('10' * n)[:n], 2), 1 << (n - 1), 1}
        for suf in sorted(sufs):
            for off in (0, 3, 7):
                for signed in (0, 1):
                    n_in += 1
                    legal = n <= 31
                    v = ((1 << n) - 1 + suf) if legal else None
                    bits = [1] * off + [0] * n + [1] + ([int(b) for b in bin(suf)[2:].zfill(n)] if (n and legal) else [0] * min(n, 40)) + [1, 0, 1, 1, 0, 0, 1, 0] * 2
                    raw = bits_to_octets(bits)
                    octs = escape(raw) + [0x80] * 6
                    inst = 'n=%d,suffix=%x,offset=%d,%s' % (n, suf, off, 'se' if signed else 'ue')

                    def thunk(octs=octs, off=off, n=n, v=v, signed=signed, legal=legal, raw=raw):
                        m = StreamMachine(prog, u, octs)
                        if off:
                            # consume the leading bits the way the callers do: fill, skip
                            for _ in range(1):
                                env = {'o': SYM}
                                m.cells[(id(env), 'o')] = env
                                r = m.run(u.funcs['upipe_h26xf_stream_get'], [S, ('addr', 'var', 'o', id(env))])
                                m.objf[(S, 'bits')] = (env['o'] << 24) & 0xffffffff
                                m.objf[(S, 'available')] = 8
                            m.objf[(S, 'bits')] = (m.objf[(S, 'bits')] << off) & 0xffffffff
                            m.objf[(S, 'available')] -= off
                        r = m.run(fse if signed else fue, [S])
                        if not legal:
                            return None
                        if signed:
                            want = (v + 1) // 2 if v & 1 else -(v // 2)
                        else:
                            want = v
                        if r != want:
                            return 'code of %d leading zeros and suffix %x decodes to %s, reference %d' % (n, v - ((1 << n) - 1), r, want)
                        # bits consumed: octets taken from the source (minus the emulation prevention ones) minus what is left in the cache
                        taken = unescape(octs[:m.pos])
                        consumed = len(taken) * 8 - m.objf[(S, 'available')]
                        if consumed != off + 2 * n + 1:
                            return '%d bits consumed for a code of %d bits at bit offset %d' % (consumed - off, 2 * n + 1, off)
                        return None
                    bad = guarded(rep, 'R-golomb', inst, (fse if signed else fue).loc, thunk)
                    if bad:
                        key = bad.split(' at line')[0][:60]
                        if key not in seen:
                            seen.add(key)
                            rep.add('R-golomb', ('upipe_h26xf_stream_%s:' % ('se' if signed else 'ue')) + key.replace(' ', '-'), VIOLATED,
                                    (fse if signed else fue).loc, first_input=inst, what=bad)
    rep.tables['R-golomb'] = {'abstract_inputs': n_in}
    if n_in < 600:
        raise facts.AnalysisBroken('R-golomb domain shrank')


# ------------------------------------------------------------------ convert ---

def prefix(enc, size, three=False):
    if enc == NALU:
        return []
    if enc == ANNEXB:
        return [0, 0, 1] if three else [0, 0, 0, 1]
    if enc == L1:
        return [size & 0xff]
    if enc == L2:
        return [(size >> 8) & 0xff, size & 0xff]
    return [(size >> 24) & 0xff, (size >> 16) & 0xff, (size >> 8) & 0xff, size & 0xff]


def frame(enc, payloads, three=()):
    data, offs = [], []
    for i, p in enumerate(payloads):
        if i:
            offs.append(len(data))
        data += prefix(enc, len(p), i in three) + p
    return data, offs


def fits(enc, size):
    return not ((enc == L1 and size > 0xff) or (enc == L2 and size > 0xffff))


def check_convert(rep, prog):
    u = prog.units[U_COMMON]
    need(u, ['upipe_h26xf_convert_frame', 'upipe_h26xf_decaps_nal', 'upipe_h26xf_encaps_nal'])
    fn = u.funcs['upipe_h26xf_convert_frame']
    rep.rule('R-convert', 'upipe_h26xf_convert_frame for every ordered pair of encapsulations (NAL offsets only, Annex B with 3- and 4-octet start codes, '
             '1/2/4-octet and unspecified length prefixes) on frames of 1..3 NAL units of 1, 2, 5 (and 256 / 65536 for the overflow cases) octets: the result '
             'is the reference frame - every payload unchanged and in order behind the prefix of the output encapsulation - the NAL offset attributes and '
             'the header size are the reference ones, converting back gives the original octets (4-octet start codes / length prefixes), a NAL that does not '
             'fit the length prefix makes the conversion fail, and no buffer is leaked or freed twice')
    R = Runner(rep, 'R-convert')
    sizesets = [(1,), (5,), (1, 2), (5, 1), (2, 5, 1), (1, 1, 1)]
    encs = (NALU, ANNEXB, LUNK, L1, L2, L4)
    cases = []
    for ein, eout in itertools.product(encs, encs):
        for sizes in sizesets:
            threes = [()]
            if ein == ANNEXB:
                threes = [(), tuple(range(len(sizes))), (0,)] if len(sizes) > 1 else [(), (0,)]
            for three in threes:
                for vcl in (None, 0, len(sizes) - 1):
                    cases.append((ein, eout, sizes, three, vcl))
    for ein in (NALU, ANNEXB, L4):
        cases.append((ein, L1, (256,), (), None))
        cases.append((ein, L1, (255,), (), None))
        cases.append((ein, L1, (3, 300), (), None))
    cases.append((L4, L2, (65536,), (), None))
    cases.append((L4, L2, (65535,), (), None))
    for ein, eout, sizes, three, vcl in cases:
        payloads = [tsref.payload_tokens('n%d_' % i, sz) for i, sz in enumerate(sizes)]
        din, offs_in = frame(ein, payloads, three)
        starts_in = [0] + offs_in
        inst = '%s->%s,sizes=%s,3-octet=%s,vcl=%s' % (ENC_NAME[ein], ENC_NAME[eout], 'x'.join(map(str, sizes)), list(three), vcl)

        def mk(din=din, offs_in=offs_in, vcl=vcl, starts_in=starts_in):
            m = ghost.BlockMachine(prog, u, None, {}, inline=('upipe_h26xf_decaps_nal', 'upipe_h26xf_encaps_nal', 'uref_h26x_iterate_nal'))
            attrs = {'h26x.nal_offset[%d]' % i: o for i, o in enumerate(offs_in)}
            if vcl is not None and starts_in[vcl] > 0:
                attrs['block.header_size'] = starts_in[vcl]
            m.in_uref = m.new_uref(din, attrs)
            m.annexb = m.new_buf([0, 0, 0, 1])
            return m

        def post(m, ret, ein=ein, eout=eout, payloads=payloads, sizes=sizes, three=three, vcl=vcl, din=din, starts_in=starts_in):
            uref = m.urefs[m.in_uref[1]]
            data = m.data_of(m.in_uref)
            same = (ein == eout)
            bad_size = (not same) and any(not fits(eout, len(p)) for p in payloads)
            if bad_size:
                if ret == 0:
                    return 'a NAL unit of %s octets is given a %s prefix and the conversion reports success' % (max(sizes), ENC_NAME[eout])
                return None
            if ret != 0:
                return 'the conversion fails (%s) on a convertible frame' % (ret,)
            if same:
                want, offs = din, None
            else:
                want, offs = frame(eout, payloads)
            if data != want:
                return 'frame after conversion differs from the reference: %d octets %s, reference %d octets %s' % (
                    len(data), tsref_short(data), len(want), tsref_short(want))
            if offs is not None:
                got = [uref.attrs.get('h26x.nal_offset[%d]' % i) for i in range(len(offs))]
                if got != offs:
                    return 'NAL offsets after conversion %s, reference %s' % (got, offs)
                if vcl is not None and starts_in[vcl] > 0:
                    exp = ([0] + offs)[vcl]
                    if uref.attrs.get('block.header_size') != exp:
                        return 'header size (offset of the first slice) %s after conversion, reference %d' % (uref.attrs.get('block.header_size'), exp)
            lu, lb = m.leaked(keep=[m.in_uref, m.annexb])
            if lu or lb:
                return 'leak: urefs %s buffers %s' % (lu, lb)
            # and back
            if not same and not three and ein != LUNK and eout != LUNK:
                r2 = m.run(fn, [m.in_uref, eout, ein, ('obj', 'mgr'), m.annexb])
                if r2 != 0:
                    return 'converting back fails (%s)' % (r2,)
                if m.data_of(m.in_uref) != din:
                    return 'converting back does not reproduce the original octets'
            return None
        R.run(fn, inst, mk, lambda m, a=(ein, eout): [m.in_uref, a[0], a[1], ('obj', 'mgr'), m.annexb], post)
    rep.tables['R-convert'] = {'abstract_inputs': R.runs, 'paths': R.paths}
    if R.runs < 400:
        raise facts.AnalysisBroken('R-convert domain shrank to %d' % R.runs)


def check_prepend(rep, prog):
    """uref_h26x_prepend_nal: the NAL offsets after a unit was put in front of a frame"""
    u = prog.units[U_COMMON]
    fn = prog.lookup(u, 'uref_h26x_prepend_nal')
    if fn is None or not fn.blocks:
        raise facts.AnalysisBroken('anchor vanished: uref_h26x_prepend_nal')
    rep.rule('R-prepend', 'uref_h26x_prepend_nal (used by both framers to put AUD / parameter sets in front of an access unit) on frames of 1..3 NAL units with '
             'prepended units of 1, 4, 6 octets: the octets are the new unit followed by the old frame, and the NAL offsets are the reference ones - the size '
             'of the new unit (the boundary between it and the old first unit, also when the frame had a single unit and so carried no offset at all) '
             'followed by every old offset shifted by that size - so that iterating the NAL units finds one more unit and the same old ones')
    R = Runner(rep, 'R-prepend')
    for sizes in ((3,), (1,), (2, 3), (5, 1, 2)):
        for k in (1, 4, 6):
            payloads = [tsref.payload_tokens('n%d_' % i, sz) for i, sz in enumerate(sizes)]
            din, offs_in = frame(ANNEXB, payloads)
            pre = tsref.payload_tokens('p_', k)
            inst = 'units=%s,prepended=%d' % ('x'.join(map(str, sizes)), k)

            def mk(din=din, offs_in=offs_in, pre=pre):
                m = ghost.BlockMachine(prog, u, None, {})
                m.in_uref = m.new_uref(din, {'h26x.nal_offset[%d]' % i: o for i, o in enumerate(offs_in)})
                m.pre = m.new_buf(list(pre))
                return m

            def post(m, ret, din=din, offs_in=offs_in, pre=pre, k=k):
                if ret != 0:
                    return 'prepending fails (%s)' % (ret,)
                uref = m.urefs[m.in_uref[1]]
                data = m.data_of(m.in_uref)
                if data != list(pre) + din:
                    return 'octets after prepending are not the new unit followed by the old frame'
                want = [k] + [o + k for o in offs_in]
                got = []
                while 'h26x.nal_offset[%d]' % len(got) in uref.attrs:
                    got.append(uref.attrs['h26x.nal_offset[%d]' % len(got)])
                if got != want:
                    return 'NAL offsets after prepending %d octets to a frame with offsets %s: %s, reference %s' % (k, offs_in, got, want)
                lu, lb = m.leaked(keep=[m.in_uref])
                if lu or lb:
                    return 'leak: urefs %s buffers %s' % (lu, lb)
                return None
            R.run(fn, inst, mk, lambda m: [m.in_uref, m.pre], post)
    if R.runs < 12:
        raise facts.AnalysisBroken('R-prepend domain shrank to %d' % R.runs)


def tsref_short(toks):
    return ''.join(('%02x' % t) if isinstance(t, int) else '.' for t in toks[:24])



# ---- R-find: the start-code search of the framers, over every segmentation of the input -------------------------

U_H264 = 'lib/upipe-framers/upipe_h264_framer.c'
U_H265 = 'lib/upipe-framers/upipe_h265_framer.c'
U_FCOMMON = 'lib/upipe-framers/upipe_framers_common.c'


def check_find(rep, prog, tier):
    rep.rule('R-find', 'upipe_h264f_find / upipe_h265f_find (with upipe_framers_mpeg_scan) interpreted on a ghost buffer holding a concrete Annex B stream '
             '(3- and 4-octet start codes, at the very beginning, back to back, at the very end) cut into every segmentation of at most 3 segments (thorough tier: 4 segments, two more streams with long zero runs and near-miss patterns) (= how '
             'the input bytes were split into buffers): successive calls report every start code once, in order, with the octet that follows it, the '
             'position just after the NAL header, and the octet that precedes the start code (0xff when there is none) - the same for every segmentation; '
             'no octet is read outside a mapped window')
    streams = {
        'mixed': [0, 0, 0, 1, 0x67, 5, 6, 0, 0, 1, 0x68, 7, 0, 0, 0, 1, 0x65, 8, 9, 10, 3, 0, 0, 1, 0x41, 2, 2],
        'three-first': [0, 0, 1, 0x09, 0x10, 0, 0, 1, 0x67, 1, 2, 3, 4, 5, 6, 0, 0, 0, 1, 0x68, 9, 9],
        'back-to-back': [9, 0, 0, 1, 0x0c, 0x11, 0, 0, 1, 0x0c, 0x12, 0, 0, 0, 1, 0x65, 1, 2, 3, 0, 0, 1],
    }
    if tier != 'quick':
        streams['zeros-before'] = [7, 0, 0, 0, 0, 0, 1, 0x67, 1, 0, 0, 0, 0, 1, 0x68, 0, 0, 2, 0, 0, 1, 0x65, 9]
        streams['near-miss'] = [0, 0, 2, 0, 1, 0, 0, 3, 0, 0, 1, 0x41, 0, 1, 0, 0, 1, 0x01, 0x02]
    nruns = 0
    for uname, fname, rec, hdr in ((U_H264, 'upipe_h264f_find', 'upipe_h264f', 1), (U_H265, 'upipe_h265f_find', 'upipe_h265f', 2)):
        u = prog.units.get(uname)
        fn = u.funcs.get(fname) if u else None
        if fn is None:
            raise facts.AnalysisBroken('anchor vanished: %s' % fname)
        scan = prog.units[U_FCOMMON].funcs.get('upipe_framers_mpeg_scan') if U_FCOMMON in prog.units else None
        if scan is None or not scan.blocks:
            raise facts.AnalysisBroken('anchor vanished: upipe_framers_mpeg_scan')
        u.funcs['upipe_framers_mpeg_scan'] = scan      # external linkage: the call in the framer resolves to this definition
        seen = set()
        for sname, data in sorted(streams.items()):
            N = len(data)
            # reference: every 00 00 01 whose NAL header is complete
            ref = []
            i = 0
            while i + 3 + hdr <= N:
                if data[i] == 0 and data[i + 1] == 0 and data[i + 2] == 1:
                    ref.append((i + 3 + hdr, data[i + 3], data[i - 1] if i >= 1 else 0xff))
                    i += 3
                else:
                    i += 1
            segl = [[N]] + [[a, N - a] for a in range(1, N)]
            if tier != 'quick' or hdr == 1:
                segl += [[a, b - a, N - b] for a in range(1, N) for b in range(a + 1, N) if tier != 'quick' or (b - a) <= 4]
            if tier != 'quick':
                # thorough: every cutting into four buffers as well
                segl += [[a, b - a, c - b, N - c] for a in range(1, N) for b in range(a + 1, N) for c in range(b + 1, N)]
            for segs in segl:
                nruns += 1
                inst = '%s:%s,segs=%s' % (fname, sname, '+'.join(map(str, segs)))
                what = None
                try:
                    m = ghost.BlockMachine(prog, u, rec, {'au_size': 0, 'scan_context': 0xffffffff}, inline=('upipe_framers_mpeg_scan',))
                    m.max_steps = 200000
                    ur = m.new_uref(list(data))
                    m.bufs[m.urefs[ur[1]].ubuf].segs = list(segs) if len(segs) > 1 else None
                    m.f['next_uref'] = ur
                    got = []
                    for _ in range(len(ref) + 2):
                        env_s = {'start': None}
                        m.cells[(id(env_s), 'start')] = env_s
                        env_p = {'prev': 0xEE}
                        m.cells[(id(env_p), 'prev')] = env_p
                        m.steps = 0
                        r = m.run(fn, [PIPE, ('addr', 'var', 'start', id(env_s)), ('addr', 'var', 'prev', id(env_p))])
                        if not r:
                            break
                        got.append((m.f.get('au_size'), env_s['start'], env_p['prev']))
                    if got != ref:
                        k = next((j for j, (a, b) in enumerate(zip(got, ref)) if a != b), min(len(got), len(ref)))
                        what = 'start code #%d: the search reports %s, the stream holds %s (position after the NAL header, first header octet, preceding octet)' % (
                            k, got[k] if k < len(got) else 'nothing', ref[k] if k < len(ref) else 'nothing more')
                except Finding as f:
                    what = str(f)
                except PathEnd:
                    what = 'an assert() fails'
                except Undecided as e:
                    rep.add('R-find', inst, UNDECIDED, fn.loc, why=str(e))
                    continue
                if what:
                    key = (fname, what.split(':')[0][:30], what[-40:])
                    if key in seen:
                        continue
                    seen.add(key)
                rep.add('R-find', inst, VIOLATED if what else HOLDS, fn.loc, **({'what': what} if what else {}))
    rep.tables['R-find'] = {'abstract_runs': nruns}


# ---- R-au-start: which NAL unit opens a new access unit (H.264) ---------------------------------------------------

def check_au_reset(rep, prog):
    """the count of NAL units of the access unit being built restarts with every access unit"""
    rep.rule('R-au-reset', 'upipe_h264f_reset_nal_offsets / upipe_h265f_reset_nal_offsets (called when an access unit has been cut off the stream): every path from '
             'the entry to the exit stores 0 into au_nal_units - whether or not something is still buffered - since the offsets of the next access unit are '
             'written at h26x.nal_offset[au_nal_units]: a count that survives makes the next unit\'s offsets start beyond index 0, and iteration finds none '
             '(the two framers are siblings and must agree)')
    for uname, pfx in ((U_H264, 'upipe_h264f'), (U_H265, 'upipe_h265f')):
        u = prog.units.get(uname)
        fn = u.funcs.get(pfx + '_reset_nal_offsets') if u else None
        if fn is None or not fn.blocks:
            raise facts.AnalysisBroken('anchor vanished: %s_reset_nal_offsets' % pfx)
        ev = pr.Events(fn)
        store = pr.m_store('au_nal_units', 0)
        if not ev.find(store):
            raise facts.AnalysisBroken('anchor vanished: %s_reset_nal_offsets no longer resets au_nal_units' % pfx)
        hits, _ = ev.reach(None, pr.m_return(), store, from_entry=True)
        # a function falling off its end has no return node: look for the exit block as well
        escaped = bool(hits)
        if not escaped:
            seen, work = set(), [fn.entry]
            sblocks = {p_[0] for p_ in ev.find(store)}
            while work:
                b = work.pop()
                if b in seen or b in sblocks:
                    continue
                seen.add(b)
                nxt = [x for x in fn.succ[b] if x is not None]
                if not nxt or None in fn.succ[b]:
                    escaped = True
                    break
                work.extend(nxt)
        rep.add('R-au-reset', pfx + '_reset_nal_offsets', VIOLATED if escaped else HOLDS, fn.loc,
                **({'what': '%s_reset_nal_offsets can return without resetting au_nal_units: the NAL offsets of the next access unit are then written from a '
                            'stale index and the unit appears to hold a single NAL unit' % pfx} if escaped else {}))


def check_au_start(rep, prog):
    """upipe_h264f_begin_annexb interpreted for every NAL header: the previous access unit is closed exactly when
    ISO/IEC 14496-10 7.4.1.2.3 says the NAL unit just met is the first of a new one"""
    rep.rule('R-au-start', 'upipe_h264f_begin_annexb interpreted for every NAL unit type 0..31 x nal_ref_idc 0 / 1 x (a slice already in the unit or not) x '
             '(that slice IDR or not, reference or not): it closes the current access unit (upipe_h264f_output_prev_annexb) exactly when the unit holds a '
             'slice and the NAL unit just met is an access unit delimiter, SPS, PPS, SEI, one of types 14 to 18 (or 13, which the code adds), or a slice that '
             'differs from the first one in IDR-ness or in nal_ref_idc being zero - ISO/IEC 14496-10 7.4.1.2.3 / 7.4.1.2.4 as far as it can be decided from the '
             'NAL headers (slice header fields are compared elsewhere, in end_annexb)')
    u = prog.units.get(U_H264)
    fn = u.funcs.get('upipe_h264f_begin_annexb') if u else None
    if fn is None or not fn.blocks:
        raise facts.AnalysisBroken('anchor vanished: upipe_h264f_begin_annexb')
    OPEN = {6, 7, 8, 9, 13, 14, 15, 16, 17, 18}
    n = 0
    for ty in range(0, 32):
        for ref in (0, 1):
            for au_slice in (0, 1):
                for sty, sref in ((1, 0), (1, 1), (5, 1)):
                    if not au_slice and (sty, sref) != (1, 0):
                        continue
                    n += 1
                    inst = 'type=%d,ref=%d,slice=%s' % (ty, ref, ('%s/ref%d' % ('idr' if sty == 5 else 'non-idr', sref)) if au_slice else 'none')
                    what = None
                    try:
                        m = ghost.BlockMachine(prog, u, 'upipe_h264f', {'au_last_nal': (ref << 5) | ty, 'au_slice': au_slice, 'au_slice_nal': (sref << 5) | sty}, inline=())
                        closed = []
                        m.extra_api = lambda f_, node, name, v, closed=closed: (closed.append(1), None)[1] if name == 'upipe_h264f_output_prev_annexb' else NotImplemented
                        m.run(fn, [PIPE, ('null',)])
                        if 1 <= ty <= 5:
                            want = bool(au_slice) and not (((sty == 5) == (ty == 5)) and ((ref == 0) == (sref == 0)))
                        else:
                            want = bool(au_slice) and ty in OPEN
                        if bool(closed) != want:
                            what = 'with %s in the current unit, a NAL unit of type %d (nal_ref_idc %d) %s the access unit; the standard says it %s' % (
                                'a slice' if au_slice else 'no slice', ty, ref, 'closes' if closed else 'does not close', 'opens a new one' if want else 'belongs to it')
                    except Finding as f:
                        what = str(f)
                    except PathEnd:
                        what = 'an assert() fails'
                    except Undecided as e:
                        rep.add('R-au-start', inst, UNDECIDED, fn.loc, why=str(e))
                        continue
                    rep.add('R-au-start', inst, VIOLATED if what else HOLDS, fn.loc, **({'what': what} if what else {}))
    # the NAL offset of the unit just met is recorded after the previous NAL was checked (end_annexb may close the access
    # unit and rebase every offset): both framers
    from upv import pathrules as pr
    rep.rule('R-nal-offset-order', 'upipe_h264f_work_annexb / upipe_h265f_work_annexb: uref_h26x_set_nal_offset is reached only after X_end_annexb on every path - '
             'end_annexb may output the previous access unit and rebase the coordinates (au_size, au_nal_units) the offset is expressed in')
    for uname, fname, endf in ((U_H264, 'upipe_h264f_work_annexb', 'upipe_h264f_end_annexb'), (U_H265, 'upipe_h265f_work_annexb', 'upipe_h265f_end_annexb')):
        uu = prog.units.get(uname)
        f = uu.funcs.get(fname) if uu else None
        if f is None or not f.blocks:
            raise facts.AnalysisBroken('anchor vanished: %s' % fname)
        ev = pr.Events(f)
        setn = pr.m_call('uref_h26x_set_nal_offset')
        if not ev.find(setn) or not ev.find(pr.m_call(endf)):
            raise facts.AnalysisBroken('%s: set_nal_offset / %s not found' % (fname, endf))
        # within one iteration: from the find() that met the NAL unit, the offset is not recorded before end_annexb
        findc = pr.m_call(r'upipe_h26[45]f_find')
        bad = []
        for fp in ev.find(findc):
            hits, _ = ev.reach((fp[0], fp[1]), setn, pr.m_call(endf))
            bad += hits
        rep.add('R-nal-offset-order', fname, VIOLATED if bad else HOLDS, f.loc,
                **({'what': 'the NAL offset is recorded (line %s) before %s has checked the previous NAL unit: when that call closes the access unit the offset is '
                            'left in the old unit\'s coordinates' % (bad[0][2].get('l'), endf)} if bad else {}))
    # what has been recorded about data that left the stream is forgotten: the head buffer may stay the same object
    rep.rule('R-nal-attrs', 'upipe_h264_framer.c / upipe_h265_framer.c: after every X_consume_uref_stream / X_extract_uref_stream of the access unit being assembled '
             '(output, or one of the discard paths) every path to the end of the function forgets the NAL offsets recorded so far - the counter au_nal_units '
             'and the h26x.n[] attributes of the head buffer (uref_h26x_delete_nal_offsets): otherwise a unit with fewer NAL units than an earlier one of the same '
             'input buffer is output with that unit\'s higher offsets attached, and the attributes depend on how the input was cut')
    nsite = 0
    for uname, pfx in ((U_H264, 'upipe_h264f'), (U_H265, 'upipe_h265f')):
        uu = prog.units[uname]
        for f in sorted(uu.funcs.values(), key=lambda f_: f_.name):
            if not f.blocks or not f.inmain or f.macro:
                continue
            ev = pr.Events(f)
            takes = ev.find(pr.m_call(r'%s_(consume|extract)_uref_stream' % pfx))
            takes = [t for t in takes if any(y.get('k') == 'mem' and y.get('f') == 'au_size' for a_ in t[2].get('args', []) for y in walk(f.resolve(a_)))]
            if not takes:
                continue

            def forgets(n_, f=f):
                if n_.get('k') != 'call' or not n_.get('fn'):
                    return False
                if n_['fn'] == 'uref_h26x_delete_nal_offsets':
                    return True
                g = uu.funcs.get(n_['fn'])
                return g is not None and g.blocks and g is not f and any(x.get('k') == 'call' and x.get('fn') == 'uref_h26x_delete_nal_offsets' for _, _, x in g.nodes())
            for t in takes:
                nsite += 1
                # (the allocation failure of extract - nothing was taken - throws fatal and is out of scope)
                _, ex = ev.reach((t[0], t[1]), lambda n_: False, lambda n_: forgets(n_) or (n_.get('k') == 'call' and (n_.get('fn') or '').startswith(('upipe_throw', 'uprobe_throw'))))
                rep.add('R-nal-attrs', '%s:%s@%s' % (f.name, t[2]['fn'].split('_', 2)[2], t[2].get('l')), VIOLATED if ex else HOLDS, '%s:%s' % (f.file, t[2].get('l')),
                        **({'what': '%s takes the assembled data out of the stream (line %s) and can return without forgetting the NAL offsets recorded for it' % (
                            f.name, t[2].get('l'))} if ex else {}))
    if nsite < 6:
        raise facts.AnalysisBroken('R-nal-attrs found only %d consume / extract sites' % nsite)
    return n


def run(tier='quick', repo=None):
    repo = repo or facts.REPO
    rep = Report(PROP, tier)
    rep.level = 'other'
    rep.explanation = (
        'lib/upipe-framers is parsed against stub biTStream headers (absent from this image: the tree neither builds nor tests these units). Exhaustive '
        'finite-domain abstract interpretation of the CFGs of upipe_h26x_common.c: emulation-prevention removal against the reference rule on every short '
        'octet string, the exp-Golomb readers against a reference encoder for every prefix length, and the conversion between NAL encapsulations against '
        'reference frames with symbolic payload octets compared by identity. The framers themselves (start-code scanning, access-unit cutting, independence '
        'of the chunking, reads of corrupt parameter sets) are not decided here; their ownership discipline is part of the thorough tier of C01/C05.')
    if not facts.have_stubs():
        raise facts.AnalysisBroken('stub headers missing: /verif/stubs/bitstream')
    prog = facts.load_with_stubs([], UNITS, repo=repo, tolerate=False)
    rep.units = sorted(prog.units)
    rep.nfuncs = sum(len(x.funcs) for x in prog.units.values()) + len(prog.hdr.funcs)
    check_epb(rep, prog)
    check_golomb(rep, prog)
    check_convert(rep, prog)
    check_prepend(rep, prog)
    check_find(rep, prog, tier)
    check_au_start(rep, prog)
    check_au_reset(rep, prog)
    rep.assumptions = ['ubuf_block_stream_get delivers the octets of the buffer in order and reports the end (ghost); the bits cache and the zero-run state are the real fields',
                       'the block / uref API behaves as its ghost model (upv/ghost.py); allocation does not fail',
                       'NAL offset attributes delimit the NAL units of the input frame (what the framers produce)']
    return rep
