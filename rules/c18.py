"""C18 - bit-level writers and readers stay within bounds (and never shift
by the operand width).

Exhaustive abstract interpretation (upv.absint) of ubits_put / ubits_get /
ubits_clean / ubits_init and ubuf_block_stream_get / _init_bits over the
finite domain (field width 1..32) x (cache fill level) x (octets left in the
buffer, 0..5); cache contents and values are symbolic."""
from upv import facts, absint
from upv.absint import SYM, Machine, Finding, Undecided, explore
from upv.report import Report, HOLDS, VIOLATED, UNDECIDED, OOS

PROP = 'C18'

UBITS_WRITE, UBITS_READ = 0, 1


class BitsMachine(Machine):
    def __init__(self, prog, unit, fields):
        Machine.__init__(self, prog, unit)
        self.f = dict(fields)
        self.nread = 0

    def field_load(self, obj, rec, field):
        return self.f.get(field, SYM)

    def field_store(self, obj, rec, field, v, node):
        self.f[field] = v

    def call(self, fn, node, args, env, depth):
        name = node.get('fn')
        if name is None:
            raise NotImplementedError
        if name == 'ubase_check':
            v = self.eval(fn, args[0], env, depth)
            return SYM if not isinstance(v, int) else int(v == 0)
        if name == 'ubuf_block_read':
            vals = [self.eval(fn, a, env, depth) for a in args]
            # (ubuf, offset, &size, &buffer): nondeterministic outcome
            self.nread += 1
            k = self.choose(3)
            if k == 0:
                return 6            # UBASE_ERR_INVALID: no more data
            size = k                # a new section of 1 or 2 octets
            reg = 'seg%d' % self.nread
            self.regions[reg] = size
            for a, v in ((vals[2], size), (vals[3], ('p', reg, 0))):
                if isinstance(a, tuple) and a[0] == 'addr' and a[1] == 'field':
                    self.f[a[4]] = v
            return 0
        if name in ('ubuf_block_unmap',):
            for a in args:
                self.eval(fn, a, env, depth)
            return 0
        callee = self.prog.lookup(self.unit, name)
        if callee is not None and callee.blocks and name.startswith(('ubits_', 'ubuf_block_stream_')):
            return self.run(callee, [self.eval(fn, a, env, depth) for a in args], depth + 1)
        raise NotImplementedError


def run(tier='quick', repo=None):
    repo = repo or facts.REPO
    rep = Report(PROP, tier)
    rep.level = 'proof'
    rep.exhaustive = True
    rep.explanation = (
        'Exhaustive abstract interpretation of the CFGs of ubits_init/put/get/clean and ubuf_block_stream_get/_init_bits over the finite domain '
        '(field width nb in 1..32) x (cache fill level allowed by the mode invariant) x (octets left in the buffer 0..5) x (outcome of every section '
        'refill), with cache contents and written values symbolic. One obligation per abstract run: no shift by a negative amount or by >= the operand '
        'width (undefined behaviour: the field cannot read back identically), no dereference outside the buffer given, and the fill-level invariant '
        '(write mode 1..32, read mode 0..8, block stream 0..32) re-established at return. This decides the "never touch memory outside the buffer" clause '
        'and a necessary condition of the inverse clause; it does not decide that reader and writer are inverse, nor the octet count.')
    prog = facts.load_program([], repo=repo)
    H = prog.hdr
    rep.units = ['include/upipe/*.h (header unit)']
    rep.nfuncs = len(H.funcs)
    for n in ('ubits_init', 'ubits_put', 'ubits_get', 'ubits_clean', 'ubuf_block_stream_get', 'ubuf_block_stream_init_bits'):
        if n not in H.funcs:
            raise facts.AnalysisBroken('anchor vanished: %s' % n)
    rep.rule('R-bits', 'for every abstract input state: the run of the function ends without a shift outside [0, width) and without an out-of-bounds '
             'dereference, and leaves `available` inside the invariant of its mode')
    stats = {'runs': 0, 'shifts': 0, 'derefs': 0}

    def one(fname, inst, fields, regions, args, post):
        fn = H.funcs[fname]

        def mk():
            m = BitsMachine(prog, H, fields)
            m.regions = dict(regions)
            return m
        verdict, detail = HOLDS, {}
        for m, out in explore(mk, fn, lambda m: args):
            stats['runs'] += 1
            stats['shifts'] += m.shifts_checked
            stats['derefs'] += m.derefs_checked
            if out[0] == 'finding':
                verdict, detail = VIOLATED, {'what': str(out[1]), 'script': m.choices}
                break
            if out[0] == 'undecided':
                verdict, detail = UNDECIDED, {'why': out[1]}
                break
            if out[0] == 'ok':
                bad = post(m)
                if bad:
                    verdict, detail = VIOLATED, {'what': bad}
                    break
        if verdict == VIOLATED:
            # one obligation per (function, finding): stable instance names
            key = '%s:%s' % (fname, detail['what'].split(' at line')[0].replace(' ', '-'))
            if key not in seen:
                seen[key] = True
                rep.add('R-bits', key, VIOLATED, fn.loc, first_state=inst, **detail)
        else:
            rep.add('R-bits', '%s@%s' % (fname, inst), verdict, fn.loc, **detail)
    seen = {}

    def inv(lo, hi):
        def post(m):
            a = m.f.get('available')
            if not isinstance(a, int) or not (lo <= a <= hi):
                return 'available is %s after the call, outside [%d,%d]' % (a, lo, hi)
            return None
        return post
    S = ('obj', 's')
    for r in range(0, 6):
        base = {'buffer': ('p', 'buf', 0), 'buffer_end': ('p', 'buf', r), 'bits': SYM, 'overflow': 0}
        reg = {'buf': r}
        for nb in range(1, 33):
            for av in range(1, 33):
                one('ubits_put', 'nb=%d,available=%d,room=%d' % (nb, av, r), dict(base, available=av), reg, [S, nb, SYM], inv(1, 32))
            for av in range(0, 9):
                one('ubits_get', 'nb=%d,available=%d,left=%d' % (nb, av, r), dict(base, available=av), reg, [S, nb], inv(0, 8))
        for av in range(1, 33):
            for ov in (0, 1):
                one('ubits_clean', 'available=%d,overflow=%d,room=%d' % (av, ov, r), dict(base, available=av, overflow=ov), reg,
                    [S, ('out', 'end')], lambda m: None)
    for d, lo, hi in ((UBITS_WRITE, 32, 32), (UBITS_READ, 0, 0)):
        one('ubits_init', 'dir=%d' % d, {}, {'buf': 4}, [S, ('p', 'buf', 0), 4, d], inv(lo, hi))
    for r in range(0, 3):
        for ub in (('null',), ('obj', 'ubuf')):
            one('ubuf_block_stream_get', 'left=%d,ubuf=%s' % (r, ub[0]),
                {'buffer': ('p', 'seg0', 0), 'end': ('p', 'seg0', r), 'ubuf': ub, 'offset': 0, 'size': r, 'bits': SYM, 'available': 0, 'overflow': 0},
                {'seg0': r}, [S, ('out', 'octet')], lambda m: None)
    for off in range(0, 17):
        one('ubuf_block_stream_init_bits', 'offset=%d' % off,
            {'bits': SYM, 'available': 0, 'overflow': 0, 'ubuf': ('null',)}, {}, [S, ('obj', 'ubuf'), off], inv(0, 32))
    rep.tables['abstract_runs'] = stats
    rep.tables['invariants'] = {'ubits write mode': 'available in [1,32]', 'ubits read mode': 'available in [0,8]', 'ubuf_block_stream': 'available in [0,32]'}
    rep.assumptions = ['callers respect assert(nb && nb <= 32) (the asserted pre-condition bounds the domain)',
                       'buffers longer than 5 octets behave like 5 for the bounds checks of these functions (each call consumes at most 5 octets)']
    return rep
