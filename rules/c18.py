"""C18 - bit-level writers and readers stay within bounds (and never shift
by the operand width).

Exhaustive abstract interpretation (upv.absint) of ubits_put / ubits_get /
ubits_clean / ubits_init and ubuf_block_stream_get / _init_bits over the
finite domain (field width 1..32) x (cache fill level) x (octets left in the
buffer, 0..5); cache contents and values are symbolic."""
from upv import facts, absint
from upv.absint import SYM, Machine, Finding, Undecided, explore
from upv.facts import strip_all_casts
from upv.report import Report, HOLDS, VIOLATED, UNDECIDED, OOS

PROP = 'C18'

UBITS_WRITE, UBITS_READ = 0, 1


class BitsMachine(Machine):
    def __init__(self, prog, unit, fields):
        Machine.__init__(self, prog, unit)
        self.f = dict(fields)
        self.nread = 0

    def field_load(self, obj, rec, field):
        return self.f.get(field, SYM)

    def field_store(self, obj, rec, field, v, node):
        self.f[field] = v

    def call(self, fn, node, args, env, depth):
        name = node.get('fn')
        if name is None:
            raise NotImplementedError
        if name == 'ubase_check':
            v = self.eval(fn, args[0], env, depth)
            return SYM if not isinstance(v, int) else int(v == 0)
        if name == 'ubuf_block_read':
            vals = [self.eval(fn, a, env, depth) for a in args]
            # (ubuf, offset, &size, &buffer): nondeterministic outcome
            self.nread += 1
            k = self.choose(3)
            if k == 0:
                return 6            # UBASE_ERR_INVALID: no more data
            size = k                # a new section of 1 or 2 octets
            reg = 'seg%d' % self.nread
            self.regions[reg] = size
            for a, v in ((vals[2], size), (vals[3], ('p', reg, 0))):
                if isinstance(a, tuple) and a[0] == 'addr' and a[1] == 'field':
                    self.f[a[4]] = v
            return 0
        if name in ('ubuf_block_unmap',):
            for a in args:
                self.eval(fn, a, env, depth)
            return 0
        callee = self.prog.lookup(self.unit, name)
        if callee is not None and callee.blocks and name.startswith(('ubits_', 'ubuf_block_stream_')):
            return self.run(callee, [self.eval(fn, a, env, depth) for a in args], depth + 1)
        raise NotImplementedError



# ---- R-inverse / R-stream: writer and readers agree, bit for bit -------------------------------------------

def _bits_of(fields):
    out = []
    for w, v in fields:
        out += [(v >> (w - 1 - i)) & 1 for i in range(w)]
    return out


def _octets(bits):
    bits = bits + [0] * (-len(bits) % 8)
    return [sum(b << (7 - i) for i, b in enumerate(bits[k:k + 8])) for k in range(0, len(bits), 8)]


def _values(w):
    m = (1 << w) - 1
    return sorted({m, 1 << (w - 1), 1, 0xA5A5A5A5 & m, 0x5A5A5A5A & m})


def check_inverse(rep, prog, tier):
    """ubits_put ... ubits_clean, then ubits_get over the same memory: concrete interpretation over every pair of
    widths (and triples of the boundary widths) with one-hot / all-ones / alternating values"""
    import itertools
    from upv import ghost
    H = prog.hdr
    rep.rule('R-inverse', 'for every sequence of 1..3 fields (all pairs of widths 1..32; triples over 1, 7, 8, 9, 16, 24, 25, 31, 32) written with ubits_put '
             'and flushed with ubits_clean into a buffer of exactly ceil(total/8) octets (and of one octet less): the octets produced are those of the '
             'reference bit string, their number is ceil(total/8), ubits_get over the same memory returns every value; with the short buffer the overflow '
             'is reported and nothing is written outside; values are the all-ones, top-bit, low-bit and alternating patterns of each width (a wrong '
             'shift or mask moves at least one of them)')
    S = ('obj', 's')

    class M(ghost.BlockMachine):
        def __init__(self, size, mem=None):
            ghost.BlockMachine.__init__(self, prog, H, 'ubits', {})
            self.regions['buf'] = size
            if mem:
                self.mem.update(mem)
            self.inline = ('ubits_',)
    seqs = [[w] for w in range(1, 33)] + [list(p) for p in itertools.product(range(1, 33), repeat=2)]
    edge = (1, 7, 8, 9, 16, 24, 25, 31, 32)
    seqs += [list(p) for p in itertools.product(edge, repeat=3)]
    if tier == 'quick':
        seqs = [q for q in seqs if len(q) < 3 or (q[0] in (1, 8, 25, 32) and q[2] in (1, 9, 24, 32))]
    nruns = 0
    seen = set()
    for ws in seqs:
        total = sum(ws)
        nbytes = (total + 7) // 8
        # the values: all fields all-ones; then each field in turn with each pattern, the others alternating
        combos = [[(w, (1 << w) - 1) for w in ws]]
        for i, w in enumerate(ws):
            for v in _values(w):
                combos.append([(x, (0x5A5A5A5A & ((1 << x) - 1)) if j != i else v) for j, x in enumerate(ws)])
        for fields in combos[:7] if tier == 'quick' else combos:
            for short in (0, 1):
                size = nbytes - short
                if size < 0:
                    continue
                nruns += 1
                inst = 'widths=%s,values=%s,room=%d' % ('+'.join(map(str, ws)), '/'.join('%x' % v for _, v in fields), size)
                what = None
                try:
                    m = M(size)
                    m.run(H.funcs['ubits_init'], [S, ('p', 'buf', 0), size, UBITS_WRITE])
                    for w, v in fields:
                        m.run(H.funcs['ubits_put'], [S, w, v])
                    err = m.run(H.funcs['ubits_clean'], [S, ('addr', 'field', S, 'ubits', 'end_out')])
                    end = m.f.get('end_out')
                    want = _octets(_bits_of(fields))
                    if short:
                        if err == 0 and not m.f.get('overflow'):
                            what = 'writing %d bits into %d octets reports no overflow' % (total, size)
                    else:
                        got = [m.mem.get(('buf', i)) for i in range(size)]
                        if err != 0:
                            what = 'ubits_clean reports error %r although the buffer has room' % (err,)
                        elif not (isinstance(end, tuple) and end[0] == 'p' and end[2] == nbytes):
                            what = 'ubits_clean says %r octets were produced, expected %d' % (end[2] if isinstance(end, tuple) else end, nbytes)
                        elif got != want:
                            what = 'octets written %s, reference %s' % (' '.join('%02x' % (x if isinstance(x, int) else 0x100) for x in got), ' '.join('%02x' % x for x in want))
                        else:
                            r = M(size, mem=m.mem)
                            r.run(H.funcs['ubits_init'], [S, ('p', 'buf', 0), size, UBITS_READ])
                            for w, v in fields:
                                g = r.run(H.funcs['ubits_get'], [S, w])
                                if g != v:
                                    what = 'field of %d bits written as %#x reads back as %s' % (w, v, ('%#x' % g) if isinstance(g, int) else g)
                                    break
                            if what is None and r.f.get('overflow'):
                                what = 'reading back exactly what was written reports an overflow'
                except Finding as f:
                    what = str(f)
                except Undecided as u:
                    rep.add('R-inverse', inst, UNDECIDED, H.funcs['ubits_put'].loc, why=str(u))
                    continue
                except absint.PathEnd:
                    what = 'an assert() fails'
                if what:
                    key = what.split(',')[0][:40]
                    if key in seen:
                        continue
                    seen.add(key)
                    rep.add('R-inverse', inst, VIOLATED, H.funcs['ubits_put'].loc, what=what)
                else:
                    rep.add('R-inverse', inst, HOLDS, H.funcs['ubits_put'].loc)
    rep.tables['R-inverse'] = {'abstract_runs': nruns, 'width_sequences': len(seqs)}


def check_stream(rep, repo, tier):
    """the block bit-stream reader over every segmentation of the same octets (macros instantiated in stubs/wrappers/c18_stream.c)"""
    import itertools
    import os
    from upv import ghost
    wpath = os.path.join(facts.VERIF, 'stubs', 'wrappers', 'c18_stream.c')
    prog = facts.load_program([wpath], repo=repo)
    u = prog.units[wpath]
    H = prog.hdr
    for n in ('upv_c18_read_bits', 'upv_c18_peek_bits'):
        if n not in u.funcs or not u.funcs[n].blocks:
            raise facts.AnalysisBroken('wrapper vanished: %s' % n)
    rep.rule('R-stream', 'ubuf_block_stream_init, then fill_bits / show_bits / skip_bits (the macros of /repo\'s header, instantiated in two three-line '
             'wrappers) over a ghost block of 6 concrete octets cut into every segmentation of at most 3 segments: every sequence of 1..3 reads of widths '
             'from 1..25 (each width alone, all pairs over the boundary widths, look-ahead of 24 then 25 bits) returns the bits of the reference string, '
             'reports overflow exactly when the data is exhausted, reads nothing outside a mapped window')
    S = ('obj', 's')
    data = [0xA5, 0xFF, 0x01, 0x80, 0x7E, 0xC3]
    bits = _bits_of([(8, x) for x in data])

    class M(ghost.BlockMachine):
        def __init__(self, segs):
            ghost.BlockMachine.__init__(self, prog, u, 'ubuf_block_stream', {})
            self.inline = ('ubuf_block_stream_', 'upv_c18_')
            self.ub = self.new_buf(list(data))
            self.bufs[self.ub[1]].segs = list(segs) if len(segs) > 1 else None

    def comps(n, k=3):
        for parts in range(1, k + 1):
            for cuts in itertools.combinations(range(1, n), parts - 1):
                b = [0] + list(cuts) + [n]
                yield [b[i + 1] - b[i] for i in range(parts)]
    edge = (1, 7, 8, 9, 15, 16, 17, 23, 24, 25)
    plans = [[('read', w)] for w in range(1, 26)]
    plans += [[('read', a), ('read', b)] for a in edge for b in edge]
    plans += [[('peek', 24), ('read', 25)], [('peek', 16), ('read', 25)], [('read', 3), ('peek', 24), ('read', 25)],
              [('read', 8), ('peek', 24), ('read', 25)], [('read', 25), ('read', 23)], [('read', 24), ('read', 24)]]
    nruns = 0
    seen = set()
    segl = list(comps(len(data)))
    if tier == 'quick':
        segl = [x for x in segl if len(x) < 3 or x[0] in (1, 3)]
    for segs in segl:
        for plan in plans:
            nruns += 1
            inst = 'segs=%s,%s' % ('+'.join(map(str, segs)), ','.join('%s%d' % (k[0], w) for k, w in plan))
            what = None
            try:
                m = M(segs)
                m.run(H.funcs['ubuf_block_stream_init'], [S, m.ub, 0])
                pos = 0
                for kind, w in plan:
                    fn = u.funcs['upv_c18_read_bits' if kind == 'read' else 'upv_c18_peek_bits']
                    g = m.run(fn, [S, w])
                    ref = bits[pos:pos + w]
                    short = len(ref) < w
                    ref = ref + [0] * (w - len(ref))
                    want = sum(b << (w - 1 - i) for i, b in enumerate(ref))
                    if g != want:
                        what = '%s of %d bits at bit %d returns %s, the stream holds %#x' % (kind, w, pos, ('%#x' % g) if isinstance(g, int) else g, want)
                        break
                    if bool(m.f.get('overflow')) != short and short:
                        what = 'reading past the end of the data is not reported as overflow'
                        break
                    if kind == 'read':
                        pos += w
                if what is None and pos <= len(bits) - 8 and m.f.get('overflow'):
                    what = 'overflow reported although %d bits remain' % (len(bits) - pos)
            except Finding as f:
                what = str(f)
            except Undecided as e:
                rep.add('R-stream', inst, UNDECIDED, u.funcs['upv_c18_read_bits'].loc, why=str(e))
                continue
            except absint.PathEnd:
                what = 'an assert() of the stream macros fails'
            if what:
                key = what.split(' at bit')[0][:50]
                if key in seen:
                    continue
                seen.add(key)
                rep.add('R-stream', inst, VIOLATED, 'include/upipe/ubuf_block_stream.h', what=what)
            else:
                rep.add('R-stream', inst, HOLDS, 'include/upipe/ubuf_block_stream.h')
    rep.tables['R-stream'] = {'abstract_runs': nruns, 'segmentations': len(segl), 'plans': len(plans)}



INOUT_SIZE = {'ubuf_block_read': 2, 'ubuf_block_write': 2, 'uref_block_read': 2, 'uref_block_write': 2}


def check_inout_size(rep, prog):
    """ubuf_block_read / _write take the wanted size in *size_p and overwrite it with the size of the chunk they mapped:
    a caller that loops over the segments of a block gives the variable its wanted value again before every call"""
    from upv import pathrules as pr
    from upv.facts import is_assign, strip
    rep.rule('R-inout-size', 'every call of ubuf_block_read / ubuf_block_write (and the uref wrappers) that passes the address of a local variable as the '
             'in/out size: the same call is not reached again (loop) without the variable having been assigned or re-declared in between - otherwise the '
             'second chunk is requested with the size of the first one instead of what remains, and octets beyond the window asked for are read or written '
             '(here: ubuf_block_extract_bits feeding the bit writer, the bit-stream refills, every block walker of the headers)')
    n = 0
    units = [prog.hdr] + list(prog.units.values())
    for u in units:
        for fn in sorted(u.funcs.values(), key=lambda f: f.name):
            if not fn.blocks:
                continue
            calls = [x for _, _, x in fn.nodes() if x.get('k') == 'call' and x.get('fn') in INOUT_SIZE]
            if not calls:
                continue
            ev = pr.Events(fn)
            for k, c in enumerate(calls):
                a = strip_all_casts(fn.resolve(c['args'][INOUT_SIZE[c['fn']]]))
                if not (isinstance(a, dict) and a.get('k') == 'un' and a.get('op') == '&'):
                    continue
                v = strip_all_casts(a['e'])
                if not (isinstance(v, dict) and v.get('k') == 'ref'):
                    continue
                name = v['n']
                me = (lambda c_: (lambda n_: n_ is c_))(c)

                def reset(n_, name=name):
                    if is_assign(n_):
                        l = strip(n_['lhs'])
                        return isinstance(l, dict) and l.get('k') == 'ref' and l.get('n') == name
                    if n_.get('k') == 'decl':
                        return any(vv['n'] == name for vv in n_.get('vars', []))
                    return False
                pos = ev.find(me)
                if not pos:
                    continue
                n += 1
                hits, _ = ev.reach((pos[0][0], pos[0][1]), me, reset)
                rep.add('R-inout-size', '%s:%s#%d:%s' % (fn.name, c['fn'], k, name), VIOLATED if hits else HOLDS, '%s:%s' % (fn.file, c.get('l')),
                        **({'what': '%s calls %s(&%s) again (loop) without giving %s its wanted value back: the call has overwritten it with the size of the '
                                    'chunk it mapped' % (fn.name, c['fn'], name, name)} if hits else {}))
    if n < 8:
        raise facts.AnalysisBroken('R-inout-size found only %d call sites' % n)



def check_ubits_private(rep, prog):
    """the bit writer's cache and cursor are private to ubits.h: a function that wants octets in the output goes through
    ubits_put, which keeps cache and memory in the order the bits were written"""
    rep.rule('R-ubits-private', 'the fields of struct ubits (buffer, buffer_end, bits, available, overflow, direction) are read and written only by the ubits_* functions '
             'of ubits.h: a helper that copies octets straight to ->buffer while bits are still pending in the cache (ubuf_block_extract_bits with an '
             'octet-aligned writer, say) puts them in memory before the bits written earlier')
    n, bad = 0, []
    for u in [prog.hdr] + list(prog.units.values()):
        for fn in sorted(u.funcs.values(), key=lambda f: f.name):
            if not fn.blocks or fn.name.startswith('ubits_'):
                continue
            for _, _, x in fn.nodes():
                if x.get('k') == 'mem' and x.get('rec') == 'ubits':
                    bad.append((fn, x))
                n += 1
    seen = set()
    for fn, x in bad:
        if fn.name in seen:
            continue
        seen.add(fn.name)
        rep.add('R-ubits-private', fn.name, VIOLATED, '%s:%s' % (fn.file, x.get('l')),
                what='%s accesses ubits.%s directly (line %s): only ubits_init / ubits_put / ubits_get / ubits_clean keep the 32-bit cache and the memory cursor consistent' % (
                    fn.name, x.get('f'), x.get('l')))
    if not bad:
        rep.add('R-ubits-private', 'all-functions', HOLDS, 'include/upipe/ubits.h', nodes_examined=n)
    if n < 1000:
        raise facts.AnalysisBroken('R-ubits-private examined only %d nodes' % n)


def run(tier='quick', repo=None):
    repo = repo or facts.REPO
    rep = Report(PROP, tier)
    rep.level = 'proof'
    rep.exhaustive = True
    rep.explanation = (
        'Exhaustive abstract interpretation of the CFGs of ubits_init/put/get/clean and ubuf_block_stream_get/_init_bits over the finite domain '
        '(field width nb in 1..32) x (cache fill level allowed by the mode invariant) x (octets left in the buffer 0..5) x (outcome of every section '
        'refill), with cache contents and written values symbolic. One obligation per abstract run: no shift by a negative amount or by >= the operand '
        'width (undefined behaviour: the field cannot read back identically), no dereference outside the buffer given, and the fill-level invariant '
        '(write mode 1..32, read mode 0..8, block stream 0..32) re-established at return. This decides the "never touch memory outside the buffer" clause '
        'and a necessary condition of the inverse clause; it does not decide that reader and writer are inverse, nor the octet count.')
    prog = facts.load_program([], repo=repo)
    H = prog.hdr
    rep.units = ['include/upipe/*.h (header unit)']
    rep.nfuncs = len(H.funcs)
    for n in ('ubits_init', 'ubits_put', 'ubits_get', 'ubits_clean', 'ubuf_block_stream_get', 'ubuf_block_stream_init_bits'):
        if n not in H.funcs:
            raise facts.AnalysisBroken('anchor vanished: %s' % n)
    rep.rule('R-bits', 'for every abstract input state: the run of the function ends without a shift outside [0, width) and without an out-of-bounds '
             'dereference, and leaves `available` inside the invariant of its mode')
    stats = {'runs': 0, 'shifts': 0, 'derefs': 0}

    def one(fname, inst, fields, regions, args, post):
        fn = H.funcs[fname]

        def mk():
            m = BitsMachine(prog, H, fields)
            m.regions = dict(regions)
            return m
        verdict, detail = HOLDS, {}
        for m, out in explore(mk, fn, lambda m: args):
            stats['runs'] += 1
            stats['shifts'] += m.shifts_checked
            stats['derefs'] += m.derefs_checked
            if out[0] == 'finding':
                verdict, detail = VIOLATED, {'what': str(out[1]), 'script': m.choices}
                break
            if out[0] == 'undecided':
                verdict, detail = UNDECIDED, {'why': out[1]}
                break
            if out[0] == 'ok':
                bad = post(m)
                if bad:
                    verdict, detail = VIOLATED, {'what': bad}
                    break
        if verdict == VIOLATED:
            # one obligation per (function, finding): stable instance names
            key = '%s:%s' % (fname, detail['what'].split(' at line')[0].replace(' ', '-'))
            if key not in seen:
                seen[key] = True
                rep.add('R-bits', key, VIOLATED, fn.loc, first_state=inst, **detail)
        else:
            rep.add('R-bits', '%s@%s' % (fname, inst), verdict, fn.loc, **detail)
    seen = {}

    def inv(lo, hi):
        def post(m):
            a = m.f.get('available')
            if not isinstance(a, int) or not (lo <= a <= hi):
                return 'available is %s after the call, outside [%d,%d]' % (a, lo, hi)
            return None
        return post
    S = ('obj', 's')
    for r in range(0, 6):
        base = {'buffer': ('p', 'buf', 0), 'buffer_end': ('p', 'buf', r), 'bits': SYM, 'overflow': 0}
        reg = {'buf': r}
        for nb in range(1, 33):
            for av in range(1, 33):
                one('ubits_put', 'nb=%d,available=%d,room=%d' % (nb, av, r), dict(base, available=av), reg, [S, nb, SYM], inv(1, 32))
            for av in range(0, 9):
                one('ubits_get', 'nb=%d,available=%d,left=%d' % (nb, av, r), dict(base, available=av), reg, [S, nb], inv(0, 8))
        for av in range(1, 33):
            for ov in (0, 1):
                one('ubits_clean', 'available=%d,overflow=%d,room=%d' % (av, ov, r), dict(base, available=av, overflow=ov), reg,
                    [S, ('out', 'end')], lambda m: None)
    for d, lo, hi in ((UBITS_WRITE, 32, 32), (UBITS_READ, 0, 0)):
        one('ubits_init', 'dir=%d' % d, {}, {'buf': 4}, [S, ('p', 'buf', 0), 4, d], inv(lo, hi))
    for r in range(0, 3):
        for ub in (('null',), ('obj', 'ubuf')):
            one('ubuf_block_stream_get', 'left=%d,ubuf=%s' % (r, ub[0]),
                {'buffer': ('p', 'seg0', 0), 'end': ('p', 'seg0', r), 'ubuf': ub, 'offset': 0, 'size': r, 'bits': SYM, 'available': 0, 'overflow': 0},
                {'seg0': r}, [S, ('out', 'octet')], lambda m: None)
    for off in range(0, 17):
        one('ubuf_block_stream_init_bits', 'offset=%d' % off,
            {'bits': SYM, 'available': 0, 'overflow': 0, 'ubuf': ('null',)}, {}, [S, ('obj', 'ubuf'), off], inv(0, 32))
    rep.tables['abstract_runs'] = stats
    check_inverse(rep, prog, tier)
    check_stream(rep, repo, tier)
    check_inout_size(rep, prog)
    check_ubits_private(rep, prog)
    rep.tables['invariants'] = {'ubits write mode': 'available in [1,32]', 'ubits read mode': 'available in [0,8]', 'ubuf_block_stream': 'available in [0,32]'}
    rep.assumptions = ['callers respect assert(nb && nb <= 32) (the asserted pre-condition bounds the domain)',
                       'buffers longer than 5 octets behave like 5 for the bounds checks of these functions (each call consumes at most 5 octets)']
    return rep
