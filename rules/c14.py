"""C14 - stream re-chunking pipes: termination, unit size, bookkeeping.

Exhaustive finite-domain abstract interpretation (upv.absint) of
upipe_chunk_stream_input / _flush, upipe_agg_input and the uref_stream
helper's consume function against ghost models of the byte stream, plus
R-own on their input functions (DESIGN §4 C14)."""
import itertools

from upv import facts, absint, ownrule
from upv import pathrules as pr
from upv.facts import enum_name
from upv.absint import SYM, Machine, Finding, Undecided, PathEnd
from upv.facts import strip_all_casts, path_of
from upv.report import Report, HOLDS, VIOLATED, UNDECIDED, OOS

PROP = 'C14'
UNITS = ['lib/upipe-modules/upipe_chunk_stream.c', 'lib/upipe-modules/upipe_aggregate.c']


class LoopMachine(Machine):
    """adds detection of a loop that makes no progress: the same block is
    entered twice with the same ghost state and no output in between"""

    def __init__(self, prog, unit):
        Machine.__init__(self, prog, unit)
        self.seen_heads = set()
        self.outputs = []

    def ghost(self):
        return ()

    def run(self, fn, args, depth=0):
        if depth == 0:
            self._fn0 = fn
        return Machine.run(self, fn, args, depth)

    def exec(self, fn, s, env, depth):
        return Machine.exec(self, fn, s, env, depth)


class ChunkMachine(LoopMachine):
    def __init__(self, prog, unit, size, align, mtu, R):
        LoopMachine.__init__(self, prog, unit)
        self.f = {'size': size, 'align': align, 'mtu': mtu}
        self.R = R              # octets in the reassembled stream (ghost)
        self.extracts = 0
        self.noprogress = 0

    def field_load(self, obj, rec, field):
        if rec == 'upipe_chunk_stream':
            if field == 'next_uref':
                return ('obj', 'next_uref') if self.R > 0 or self.keep_next else ('null',)
            return self.f.get(field, SYM)
        return SYM

    keep_next = False

    def field_store(self, obj, rec, field, v, node):
        if rec == 'upipe_chunk_stream' and field in self.f:
            self.f[field] = v

    def call(self, fn, node, args, env, depth):
        name = node.get('fn')
        if name is None:
            raise NotImplementedError
        vals = [self.eval(fn, a, env, depth) for a in args]
        if name == 'ubase_check':
            return SYM if not isinstance(vals[0], int) else int(vals[0] == 0)
        if name == 'uref_block_size':
            a = vals[1]
            if isinstance(a, tuple) and a[0] == 'addr' and a[1] == 'var':
                self.cells[(a[3], a[2])][a[2]] = self.R
            return 0
        if name.endswith('_append_uref_stream'):
            self.R += self.incoming
            return None
        if name.endswith('_extract_uref_stream'):
            n = vals[1]
            if not isinstance(n, int):
                raise Undecided('extraction of a symbolic amount')
            if n > self.R:
                raise Finding('extracts more than the stream holds', node.get('l'), 'extract %d of %d octets' % (n, self.R))
            if n == 0:
                self.noprogress += 1
                if self.noprogress > 3:
                    raise Finding('loop without progress', node.get('l'),
                                  'extract_uref_stream(0) again and again: %d octets remain, size=%s align=%s' % (self.R, self.f['size'], self.f['align']))
            self.R -= n
            self.extracts += 1
            self.last_extract = n
            return ('obj', 'extracted')
        if name.endswith('_output'):
            self.outputs.append(getattr(self, 'last_extract', None))
            return None
        if name.endswith(('_clean_uref_stream',)):
            self.R = 0
            return None
        if name.endswith(('_init_uref_stream',)):
            return None
        if name.endswith('_from_upipe') or '_to_' in name:
            return ('obj', 'pipe')
        raise NotImplementedError


class AggMachine(Machine):
    def __init__(self, prog, unit, M, I, S, s):
        Machine.__init__(self, prog, unit)
        self.f = {'output_size': M, 'input_size': I, 'size': S, 'aggregated': ('obj', 'agg') if S > 0 else ('null',)}
        self.T = S            # ghost: octets really held in the aggregate
        self.s = s            # ghost: octets of the incoming buffer
        self.incoming_alive = True
        self.outputs = []
        self.dropped = 0

    def field_load(self, obj, rec, field):
        if rec == 'upipe_agg':
            return self.f.get(field, SYM)
        return SYM

    def field_store(self, obj, rec, field, v, node):
        if rec == 'upipe_agg':
            if field == 'aggregated':
                if isinstance(v, tuple) and v[0] == 'obj' and v[1] == 'uref':
                    self.T = self.s          # the incoming buffer becomes the aggregate
                    self.incoming_alive = False
                elif isinstance(v, tuple) and v[0] == 'null':
                    pass
            self.f[field] = v

    def call(self, fn, node, args, env, depth):
        name = node.get('fn')
        if name is None:
            raise NotImplementedError
        vals = [self.eval(fn, a, env, depth) for a in args]
        if name == 'ubase_check':
            return SYM if not isinstance(vals[0], int) else int(vals[0] == 0)
        if name == 'uref_block_size':
            a = vals[1]
            if isinstance(a, tuple) and a[0] == 'addr' and a[1] == 'var':
                self.cells[(a[3], a[2])][a[2]] = self.s
            return 0
        if name == 'uref_detach_ubuf':
            return ('obj', 'payload')
        if name == 'uref_free':
            if vals[0] == ('obj', 'uref') and self.incoming_alive:
                self.incoming_alive = False
                self.freed_incoming = True
            return None
        if name in ('uref_block_append',):
            self.T += self.s
            self.appended = True
            return 0
        if name == 'ubuf_free':
            return None
        if name.endswith('_output'):
            # upipe_agg_output(upipe, aggregated, upump_p)
            if vals[1] == ('null',) or (isinstance(vals[1], tuple) and vals[1][0] == 'null'):
                self.outputs.append(0)
            else:
                self.outputs.append(self.T)
                self.T = 0
            return None
        if name.endswith('_from_upipe') or '_to_' in name:
            return ('obj', 'pipe')
        raise NotImplementedError


class StreamMachine(Machine):
    """ghost model of the uref_stream helper's data: urefs with their private
    size attribute and payload, the list of received urefs, the current one"""

    def __init__(self, prog, unit, names, rem, rest):
        Machine.__init__(self, prog, unit)
        self.names = names                # role -> concrete field name
        total = rem + sum(rest)
        self.urefs = {0: {'priv': None, 'ubuf': 0, 'freed': False}}
        self.ubufs = {0: {'size': total, 'freed': False}}
        for i, sz in enumerate(rest):
            self.urefs[i + 1] = {'priv': sz, 'ubuf': None, 'freed': False}
        self.f = {names['NEXT_UREF']: ('uref', 0), names['NEXT_UREF_SIZE']: rem}
        self.list = list(range(1, len(rest) + 1))
        self.nbuf = 1

    def field_load(self, obj, rec, field):
        if isinstance(obj, tuple) and obj[0] == 'uref' and rec == 'uref':
            u = self.urefs[obj[1]]
            if u['freed']:
                raise Finding('use after free', None, 'uref %d read after it was freed' % obj[1])
            if field == 'ubuf':
                return ('ubuf', u['ubuf']) if u['ubuf'] is not None else ('null',)
            return SYM
        if field in self.f:
            return self.f[field]
        return SYM

    def field_store(self, obj, rec, field, v, node):
        if field in (self.names['NEXT_UREF'], self.names['NEXT_UREF_SIZE']):
            self.f[field] = v

    def is_list(self, a):
        return isinstance(a, tuple) and a[0] == 'addr' and a[1] == 'field' and a[4] == self.names['UREFS']

    def call(self, fn, node, args, env, depth):
        name = node.get('fn')
        if name is None:
            raise NotImplementedError
        vals = [self.eval(fn, a, env, depth) for a in args]
        if name == 'ubase_check':
            return SYM if not isinstance(vals[0], int) else int(vals[0] == 0)
        if name == 'ubuf_block_splice':
            b, off = vals[0], vals[1]
            if not (isinstance(b, tuple) and b[0] == 'ubuf') or not isinstance(off, int):
                raise Undecided('splice of an unknown buffer')
            size = self.ubufs[b[1]]['size']
            if off >= size:
                return ('null',)          # nothing left: ubuf_block_get fails
            i = self.nbuf
            self.nbuf += 1
            self.ubufs[i] = {'size': size - off, 'freed': False}
            return ('ubuf', i)
        if name == 'ulist_pop' and self.is_list(vals[0]):
            if not self.list:
                return ('null',)
            return ('uchain', self.list.pop(0))
        if name == 'uref_from_uchain':
            v = vals[0]
            return ('uref', v[1]) if isinstance(v, tuple) and v[0] == 'uchain' else SYM
        if name == 'uref_free':
            v = vals[0]
            if isinstance(v, tuple) and v[0] == 'uref':
                u = self.urefs[v[1]]
                if u['freed']:
                    raise Finding('double free', node.get('l'), 'uref %d freed twice' % v[1])
                u['freed'] = True
                if u['ubuf'] is not None:
                    self.ubufs[u['ubuf']]['freed'] = True
            return None
        if name == 'ubuf_free':
            v = vals[0]
            if isinstance(v, tuple) and v[0] == 'ubuf':
                if self.ubufs[v[1]]['freed']:
                    raise Finding('double free', node.get('l'), 'ubuf freed twice')
                self.ubufs[v[1]]['freed'] = True
            return None
        if name == 'uref_attr_get_priv':
            v, a = vals[0], vals[1]
            if isinstance(v, tuple) and v[0] == 'uref' and isinstance(a, tuple) and a[0] == 'addr' and a[1] == 'var':
                self.cells[(a[3], a[2])][a[2]] = self.urefs[v[1]]['priv']
                return 0
            return SYM
        if name == 'uref_attach_ubuf':
            v, b = vals[0], vals[1]
            if isinstance(v, tuple) and v[0] == 'uref':
                u = self.urefs[v[1]]
                if u['ubuf'] is not None:
                    self.ubufs[u['ubuf']]['freed'] = True
                u['ubuf'] = b[1] if isinstance(b, tuple) and b[0] == 'ubuf' else None
            return None
        if name.endswith('_from_upipe') or '_to_' in name:
            return ('obj', 'pipe')
        raise NotImplementedError


def check_stream_helper(rep, prog, u, stats):
    rep.rule('R-stream-consume', 'X_consume_uref_stream(c) on every small stream (1..3 received buffers of 1..2 octets, the first partly read) and every c: when everything is '
             'consumed the current uref and the list are gone and every uref / payload is freed exactly once; otherwise the current uref is alive, still has at least one unread '
             'octet, its payload holds the remaining octets, and NEXT_UREF_SIZE plus the private sizes of the listed urefs add up to them')
    fn = None
    for f in u.funcs.values():
        if f.macro == 'UPIPE_HELPER_UREF_STREAM' and f.name.endswith('_consume_uref_stream'):
            fn = f
    if fn is None:
        raise facts.AnalysisBroken('anchor vanished: X_consume_uref_stream instantiation')
    names = {}
    for bid, s, x in fn.nodes():
        if x.get('k') == 'mem' and x.get('mp') in ('NEXT_UREF', 'NEXT_UREF_SIZE', 'UREFS'):
            names[x['mp']] = x['f']
    if len(names) != 3:
        raise facts.AnalysisBroken('uref_stream helper fields not found: %s' % names)
    seen = {}
    for k in (1, 2, 3):
        for sizes in itertools.product((1, 2), repeat=k):
            for rem in range(1, sizes[0] + 1):
                rest = list(sizes[1:])
                T = rem + sum(rest)
                for c in range(0, T + 1):
                    st = 'received=%s,unread_of_first=%d,consume=%d' % (list(sizes), rem, c)
                    m = StreamMachine(prog, u, names, rem, rest)
                    stats['runs'] += 1
                    why = None
                    try:
                        m.run(fn, [('obj', 'pipe'), c])
                    except Finding as f:
                        why = str(f)
                    except Undecided as e:
                        rep.add('R-stream-consume', st, UNDECIDED, fn.loc, why=str(e))
                        continue
                    except PathEnd:
                        why = 'an assertion of the helper fails'
                    if why is None:
                        nu = m.f[names['NEXT_UREF']]
                        ns = m.f[names['NEXT_UREF_SIZE']]
                        if c == T:
                            if not (isinstance(nu, tuple) and nu[0] == 'null'):
                                why = 'everything was consumed but NEXT_UREF is still set (size field %s)' % ns
                            elif m.list:
                                why = 'everything was consumed but urefs stay listed'
                            elif not all(x['freed'] for x in m.urefs.values()) or not all(x['freed'] for x in m.ubufs.values()):
                                why = 'everything was consumed but a uref or payload is not freed'
                        else:
                            if not (isinstance(nu, tuple) and nu[0] == 'uref') or m.urefs[nu[1]]['freed']:
                                why = 'octets remain but the current uref is gone'
                            else:
                                ub = m.urefs[nu[1]]['ubuf']
                                held = m.ubufs[ub]['size'] if ub is not None and not m.ubufs[ub]['freed'] else None
                                listed = sum(m.urefs[i]['priv'] for i in m.list)
                                if held != T - c:
                                    why = 'the current payload holds %s octets, %d remain' % (held, T - c)
                                elif not isinstance(ns, int) or ns < 1:
                                    why = 'the current uref has %s unread octets recorded although %d octets remain: it should have been rotated out' % (ns, T - c)
                                elif ns + listed != T - c:
                                    why = 'bookkeeping: NEXT_UREF_SIZE %s + listed %d != %d remaining' % (ns, listed, T - c)
                    if why:
                        key = 'consume:' + why.split(' (')[0].split(':')[0][:50].replace(' ', '-')
                        if key not in seen:
                            seen[key] = True
                            rep.add('R-stream-consume', key, VIOLATED, fn.loc, what=why, first_state=st)
                    else:
                        rep.add('R-stream-consume', st, HOLDS, fn.loc)



# ---- R-sync: upipe_ts_sync on every cutting of a stream (stub-parsed unit, ghost block machine) ---------------

U_SYNC = 'lib/upipe-ts/upipe_ts_sync.c'


def sync_streams(P):
    """streams of concrete sync octets and symbolic payload; P is the packet size used in the domain"""
    from upv import tsref
    def pkt(tag):
        return [0x47] + tsref.payload_tokens(tag, P - 1)
    junk = tsref.payload_tokens('j', 2)
    emu = [0x47] + tsref.payload_tokens('e', P - 1) + [0x47] + tsref.payload_tokens('f', 1)     # a sync octet followed by exactly one more at +P
    return {
        'clean': pkt('a') + pkt('b') + pkt('c') + pkt('d'),
        'lead-junk': junk + pkt('a') + pkt('b') + pkt('c'),
        'loss': pkt('a') + pkt('b') + junk + pkt('c') + pkt('d') + pkt('g'),
        'emulation': pkt('a') + pkt('b') + pkt('m') + tsref.payload_tokens('k', 1) + emu + tsref.payload_tokens('l', 1) + pkt('c') + pkt('d') + pkt('g') + pkt('h'),
        'emulation2': pkt('a') + pkt('b') + pkt('m') + tsref.payload_tokens('k', 3) + emu + tsref.payload_tokens('l', 2) + pkt('c') + pkt('d') + pkt('g'),
    }



def check_ts_align(rep, repo):
    """upipe_ts_align chooses its re-chunker (idem / ts_check / ts_sync) from the flow definition it is given: every
    accepted flow definition goes through that choice"""
    rep.rule('R-align-select', 'upipe_ts_align_set_flow_def: every return that is not an error constant is preceded, on every path, by the tests on the '
             'flow definition that select the inner pipe (ubase_ncmp on the definition string) and by upipe_ts_align_store_bin_input(): the pipe that '
             'cuts the stream is always the one that fits the current definition, never one kept from an earlier definition of another kind')
    prog = facts.load_with_stubs([], ['lib/upipe-ts/upipe_ts_align.c'], repo=repo, tolerate=False)
    u = prog.units['lib/upipe-ts/upipe_ts_align.c']
    fn = u.funcs.get('upipe_ts_align_set_flow_def')
    if fn is None or not fn.blocks:
        raise facts.AnalysisBroken('anchor vanished: upipe_ts_align_set_flow_def')
    ev = pr.Events(fn)
    store = pr.m_call('upipe_ts_align_store_bin_input')
    if not ev.find(store):
        raise facts.AnalysisBroken('upipe_ts_align_set_flow_def no longer calls upipe_ts_align_store_bin_input')

    def accepting(n):
        if n.get('k') != 'return':
            return False
        if not isinstance(n.get('e'), dict):
            return True
        en = enum_name(n['e'])
        if en:
            return en == 'UBASE_ERR_NONE'
        e0 = strip_all_casts(fn.resolve(n['e']))
        return isinstance(e0, dict) and e0.get('k') == 'call'      # a tail call: the verdict of the inner pipe
    bad = pr.must_precede(ev, store, accepting)
    rep.add('R-align-select', 'upipe_ts_align_set_flow_def', VIOLATED if bad else HOLDS, fn.loc if not bad else '%s:%s' % (fn.file, bad[0][2].get('l')),
            **({'what': 'the return at line %s accepts a flow definition (or hands the verdict to a pipe) without having selected and installed the inner pipe for '
                        'this definition: an inner pipe chosen for an earlier definition keeps cutting (or not cutting) the stream' % bad[0][2].get('l')} if bad else {}))


def check_ts_sync(rep, repo, tier):
    from upv import ghost
    if not facts.have_stubs():
        rep.notes.append('stub headers absent: upipe_ts_sync not analysed')
        return
    prog = facts.load_with_stubs([], [U_SYNC], repo=repo, tolerate=False)
    u = prog.units[U_SYNC]
    for n in ('upipe_ts_sync_input', 'upipe_ts_sync_check', 'upipe_ts_sync_flush'):
        if n not in u.funcs:
            raise facts.AnalysisBroken('anchor vanished: %s' % n)
    rep.units.append(U_SYNC + ' (parsed against stubs/bitstream)')
    rep.rule('R-sync', 'upipe_ts_sync_input (+ check, flush and the generated uref_stream functions) interpreted on ghost block buffers for packet size 4, '
             'ts_sync 2 and 3, four streams (clean, leading junk, loss of sync, a sync-octet emulation followed by exactly one more at +size), each fed '
             'uncut and cut into two buffers at every position (and into 1-, 2-, 3-octet slices; thorough tier: into three buffers at every pair of positions, and 5-, 7-octet slices), then flushed: every unit output has the packet size and '
             'starts with the sync octet; the units are disjoint, in-order pieces of the input (by token identity); and the sequence of units is the same '
             'for every cutting as for the uncut stream; a stream made of whole packets only (after optional leading junk) comes out entirely once flushed')
    check_size_domain(rep, u)
    check_size_stored(rep, u, 'upipe_ts_sync')
    P = 4
    fin = u.funcs['upipe_ts_sync_input']
    ffl = u.funcs['upipe_ts_sync_flush']
    INL = ('upipe_ts_sync_check', 'upipe_ts_sync_flush', 'upipe_ts_sync_append_uref_stream', 'upipe_ts_sync_consume_uref_stream',
           'upipe_ts_sync_extract_uref_stream', 'upipe_ts_sync_clean_uref_stream', 'upipe_ts_sync_init_uref_stream', 'upipe_ts_sync_sync_')
    nruns = 0
    for ts_sync in (2, 3):
        for sname, stream in sorted(sync_streams(P).items()):
            N = len(stream)
            cuttings = [[N]] + [[c, N - c] for c in range(1, N)]
            for k in (1, 2, 3):
                cuttings.append([k] * (N // k) + ([N % k] if N % k else []))
            if tier != 'quick':
                # thorough: every cutting into three buffers, and slices of 5 and 7 octets
                cuttings += [[a, b - a, N - b] for a in range(1, N) for b in range(a + 1, N)]
                for k in (5, 7):
                    cuttings.append([k] * (N // k) + ([N % k] if N % k else []))
            ref = None
            for cutting in cuttings:
                nruns += 1
                inst = 'ts_sync=%d,%s,cut=%s' % (ts_sync, sname, '+'.join(map(str, cutting)) if len(cutting) < 5 else '%dx%d' % (len(cutting), cutting[0]))
                what = None
                try:
                    m = ghost.BlockMachine(prog, u, 'upipe_ts_sync', {'ts_sync': ts_sync, 'output_size': P, 'acquired': 0, 'next_uref': ('null',),
                                                                    'next_uref_size': 0}, inline=INL)
                    m.max_steps = 400000
                    m.max_depth = 8
                    m.output_fns = {'upipe_ts_sync_output'}
                    m.make_list(m.head('upipe_ts_sync', 'urefs'), [])
                    pos = 0
                    for ln in cutting:
                        ur = m.new_uref(stream[pos:pos + ln])
                        pos += ln
                        m.steps = 0
                        m.run(fin, [PIPE_S, ur, ('null',)])
                    m.steps = 0
                    m.run(ffl, [PIPE_S, ('null',)])
                    outs = [e[2] for e in m.events if e[0] == 'output']
                    # shape of the units
                    p0 = 0
                    for o in outs:
                        if o is None or len(o) != P or o[0] != 0x47:
                            what = 'a unit of %d octets starting with %r is output (packet size %d, sync 0x47)' % (len(o or []), (o or [None])[0], P)
                            break
                        # in-order, disjoint piece of the input
                        idx = next((i for i in range(p0, N - P + 1) if stream[i:i + P] == o), None)
                        if idx is None:
                            what = 'a unit is output that is not a piece of the input following the previous unit'
                            break
                        p0 = idx + P
                    if not what and sname in ('clean', 'lead-junk'):
                        # nothing but whole packets after the first sync octet: every one of them comes out, the last ones at the flush
                        npk = sum(1 for i in range(0, N) if stream[i] == 0x47)
                        if len(outs) != npk:
                            what = 'a stream of %d whole packets gives %d units once flushed (sync count %d): packets validated and still pending are lost' % (
                                npk, len(outs), ts_sync)
                    if not what:
                        lu, lb = m.leaked()
                        if lu or lb:
                            what = 'after the flush urefs %s / buffers %s are neither output nor freed' % (lu, lb)
                    if not what:
                        if ref is None:
                            ref = outs
                        elif outs != ref:
                            what = 'the units output depend on the cutting: %d units here, %d for the uncut stream (first difference at unit %d)' % (
                                len(outs), len(ref), next((i for i, (a, b) in enumerate(zip(outs, ref)) if a != b), min(len(outs), len(ref))))
                except Finding as f:
                    what = str(f)
                except PathEnd:
                    what = 'an assert() fails'
                except Undecided as e:
                    rep.add('R-sync', inst, UNDECIDED, fin.loc, why=str(e))
                    continue
                rep.add('R-sync', inst, VIOLATED if what else HOLDS, fin.loc, **({'what': what} if what else {}))
    rep.tables['R-sync'] = {'abstract_runs': nruns}


PIPE_S = ('obj', 'pipe')


U_CHECK = 'lib/upipe-ts/upipe_ts_check.c'


def check_size_stored(rep, u, rec):
    """the size a caller configures is the size in force once the call reports success"""
    rep.rule('R-size-stored', 'the generated X_set_output_size of the regrouping pipes (aggregate; ts_sync, ts_check when the stub headers are there): every return of '
             'UBASE_ERR_NONE is preceded on every path by the store of the parameter into the output_size field - a call made before the flow definition is '
             'known (or on any other branch) may not report success and leave the previous size in force, the units would not respect the configured size')
    fn = u.funcs.get(rec + '_set_output_size')
    if fn is None or not fn.blocks:
        raise facts.AnalysisBroken('anchor vanished: %s_set_output_size' % rec)
    ev = pr.Events(fn)

    def store(n):
        if not pr.m_store('output_size')(n) or n.get('op') != '=':
            return False
        r = strip_all_casts(fn.resolve(n['rhs']))
        return isinstance(r, dict) and r.get('k') == 'ref' and r.get('d') == 'param'
    if not ev.find(store):
        raise facts.AnalysisBroken('anchor vanished: %s_set_output_size no longer stores its parameter into output_size' % rec)
    late = pr.must_precede(ev, store, pr.m_return('UBASE_ERR_NONE'))
    rep.add('R-size-stored', rec + '_set_output_size', VIOLATED if late else HOLDS, fn.loc,
            **({'what': '%s_set_output_size can return UBASE_ERR_NONE (line %s) on a path that never stores the size given: the pipe keeps cutting to the previous '
                        'size although the configuration call succeeded' % (rec, late[0][2].get('l'))} if late else {}))


def check_size_domain(rep, u):
    """the packet size the loops of ts_sync divide the stream by is validated where the control command delivers it"""
    from upv.facts import strip_all_casts, const_of, enum_name
    rep.rule('R-size-domain', 'upipe_ts_sync takes output_size octets off the buffered stream per iteration of its input and flush loops (R-sync decides them for a '
             'positive size): in its control function, every path from the entry to the call of the generated X_control_output_size, other than through the '
             'false arm of a test command == UPIPE_SET_OUTPUT_SIZE, passes a comparison of the value read from the argument list with a positive constant '
             'whose failing arm returns an error - a size of 0 makes both loops spin for ever on the first sync octet')
    fn = u.funcs.get('upipe_ts_sync_control')
    if fn is None or not fn.blocks:
        raise facts.AnalysisBroken('anchor vanished: upipe_ts_sync_control')
    ev = pr.Events(fn)
    target = ev.find(pr.m_call('upipe_ts_sync_control_output_size'))
    if not target:
        raise facts.AnalysisBroken('anchor vanished: upipe_ts_sync_control no longer calls upipe_ts_sync_control_output_size')
    born = set()
    for _, _, x in fn.nodes():
        if x.get('k') == 'decl':
            for v in x['vars']:
                i = strip_all_casts(v['init']) if isinstance(v.get('init'), dict) else None
                if isinstance(i, dict) and i.get('k') == 'va_arg':
                    born.add(v['n'])

    def returns_error(b):
        for st in fn.stmts(b):
            if isinstance(st, dict) and st.get('k') == 'return' and isinstance(st.get('e'), dict):
                en = enum_name(st['e'])
                if en and en.startswith('UBASE_ERR_') and en != 'UBASE_ERR_NONE':
                    return True
        return False
    succ = dict(fn.succ)
    guards = []
    for b in fn.blocks:
        c = fn.cond(b)
        if not c:
            continue
        e = strip_all_casts(c[0])
        if not (isinstance(e, dict) and e.get('k') == 'bin'):
            continue
        l, r = strip_all_casts(fn.resolve(e['lhs'])), strip_all_casts(fn.resolve(e['rhs']))
        if e.get('op') in ('==', '!='):
            names = {enum_name(l), enum_name(r)}
            refs = [x for x in (l, r) if isinstance(x, dict) and x.get('k') == 'ref' and x.get('n') == 'command']
            if 'UPIPE_SET_OUTPUT_SIZE' in names and refs:
                succ[b] = [c[1] if e['op'] == '==' else c[2]]      # look at the arm of the command only
        elif e.get('op') in ('<', '<=', '>', '>='):
            for a, k in ((l, r), (r, l)):
                if isinstance(a, dict) and a.get('k') == 'ref' and a.get('n') in born and (const_of(k) or 0) > 0:
                    if any(s is not None and returns_error(s) for s in (c[1], c[2])):
                        guards.append(b)
    from rules.c20 import _FnView
    view = _FnView(fn, succ)
    evv = pr.Events(view)
    tgt = evv.find(pr.m_call('upipe_ts_sync_control_output_size'))
    # is the call reachable from the entry without passing one of the guard blocks?
    seen, work, escaped = set(), [fn.entry], False
    tblocks = {t[0] for t in tgt}
    while work:
        b = work.pop()
        if b in seen or b in guards:
            continue
        seen.add(b)
        if b in tblocks:
            escaped = True
            break
        work.extend(s for s in view.succ[b] if s is not None)
    rep.add('R-size-domain', 'upipe_ts_sync_control:UPIPE_SET_OUTPUT_SIZE', VIOLATED if escaped else HOLDS, fn.loc,
            guards=len(guards), **({'what': 'upipe_ts_sync_control hands UPIPE_SET_OUTPUT_SIZE to the generic helper, which stores any value, on a path that never compares '
                                            'the size with a positive bound: with a size of 0 upipe_ts_sync_input / _flush extract nothing per iteration and never terminate'} if escaped else {}))


def check_ts_check(rep, repo, tier):
    """upipe_ts_check_input: whole packets starting with the sync octet, in order; the rest dropped loudly"""
    import itertools
    from upv import ghost, tsref
    if not facts.have_stubs():
        return
    prog = facts.load_with_stubs([], [U_CHECK], repo=repo, tolerate=False)
    u = prog.units[U_CHECK]
    for n in ('upipe_ts_check_input', 'upipe_ts_check_check'):
        if n not in u.funcs:
            raise facts.AnalysisBroken('anchor vanished: %s' % n)
    rep.units.append(U_CHECK + ' (parsed against stubs/bitstream)')
    rep.rule('R-check', 'upipe_ts_check_input interpreted on ghost buffers of 0..3 packets of 4 octets plus 0..3 trailing octets, each packet starting with the '
             'sync octet or not: the units output are the leading packets that start with the sync octet, whole, unmodified and in order, up to the first '
             'packet that does not (that one and what follows are dropped); trailing octets are dropped; every buffer is output or freed exactly once')
    P = 4
    fn = u.funcs['upipe_ts_check_input']
    n = 0
    for npk in range(0, 4):
        for syncs in itertools.product((1, 0), repeat=npk):
            for trail in range(0, P):
                n += 1
                data, pkts = [], []
                for i, ok in enumerate(syncs):
                    pk = [0x47 if ok else 0x48] + tsref.payload_tokens('p%d' % i, P - 1)
                    pkts.append(pk)
                    data += pk
                data += tsref.payload_tokens('t', trail)
                inst = 'packets=%s,trailing=%d' % (''.join(map(str, syncs)) or '-', trail)
                what = None
                try:
                    m = ghost.BlockMachine(prog, u, 'upipe_ts_check', {'output_size': P}, inline=('upipe_ts_check_check', 'upipe_ts_check_sync_'))
                    m.max_depth = 8
                    m.output_fns = {'upipe_ts_check_output'}
                    ur = m.new_uref(data)
                    m.run(fn, [PIPE_S, ur, ('null',)])
                    outs = [e[2] for e in m.events if e[0] == 'output']
                    want = []
                    for pk, ok in zip(pkts, syncs):
                        if not ok:
                            break
                        want.append(pk)
                    if outs != want:
                        what = '%d units output, the reference says %d (the leading packets that start with the sync octet)' % (len(outs), len(want))
                    else:
                        lu, lb = m.leaked()
                        if lu or lb:
                            what = 'urefs %s / buffers %s are neither output nor freed' % (lu, lb)
                except Finding as f:
                    what = str(f)
                except PathEnd:
                    what = 'an assert() fails'
                except Undecided as e:
                    rep.add('R-check', inst, UNDECIDED, fn.loc, why=str(e))
                    continue
                rep.add('R-check', inst, VIOLATED if what else HOLDS, fn.loc, **({'what': what} if what else {}))
    rep.tables['R-check'] = {'abstract_runs': n}


def run(tier='quick', repo=None):
    repo = repo or facts.REPO
    rep = Report(PROP, tier)
    rep.explanation = (
        'Decides, by exhaustive abstract interpretation over small finite domains with a ghost model of the byte stream: (a) chunk_stream: for every '
        'alignment 1..6, mtu up to 9 (13 for alignments 5 and 6) (size = (mtu/align)*align as the only writer _set_mtu establishes) and 0..12 octets pending, input and flush '
        'terminate, every extraction is between 1 and `size` octets and never more than the stream holds, input emits only full `size` units; '
        '(b) aggregate: for every output size 1..6, announced input size 0..7, fill level and incoming size, every emitted unit is non-empty and '
        '<= output size, the octets held afterwards fit the output size and equal the bookkeeping field, and octets are conserved (in + held = out + held\'); '
        'R-own on the input functions. Does not decide byte order/content, TS sync placement (TS units need the stub headers: thorough tier), nor '
        'independence from the cutting of the stream in general.')
    prog = facts.load_program(UNITS, repo=repo)
    rep.units = sorted(prog.units)
    rep.nfuncs = sum(len(u.funcs) for u in prog.units.values())
    rep.rule('R-progress', 'chunk_stream input/flush: on every abstract run the loop ends; each extract_uref_stream(n) has 1 <= n <= size and n <= octets pending')
    rep.rule('R-unit-size', 'aggregate: every unit handed to upipe_agg_output holds between 1 and output_size octets; what stays aggregated fits output_size and equals upipe_agg->size; octets are conserved')
    rep.rule('R-config', 'the only stores to chunk_stream size/align/mtu are in _upipe_chunk_stream_set_mtu (under its validity test) and the allocation defaults')
    check_size_stored(rep, prog.units['lib/upipe-modules/upipe_aggregate.c'], 'upipe_agg')
    cs = prog.units['lib/upipe-modules/upipe_chunk_stream.c']
    for n in ('upipe_chunk_stream_input', 'upipe_chunk_stream_flush', '_upipe_chunk_stream_set_mtu'):
        if n not in cs.funcs:
            raise facts.AnalysisBroken('anchor vanished: %s' % n)
    # R-config: who writes the configuration fields
    from upv.facts import is_assign, strip
    writers = {}
    for fn in cs.funcs.values():
        for bid, s, x in fn.nodes():
            if is_assign(x):
                l = strip(x['lhs'])
                if isinstance(l, dict) and l.get('k') == 'mem' and l.get('rec') == 'upipe_chunk_stream' and l.get('f') in ('size', 'align', 'mtu'):
                    writers.setdefault(fn.name, set()).add(l['f'])
    okw = set(writers) <= {'_upipe_chunk_stream_set_mtu', 'upipe_chunk_stream_alloc'}
    rep.add('R-config', 'upipe_chunk_stream', HOLDS if okw else VIOLATED, cs.name, writers={k: sorted(v) for k, v in writers.items()},
            **({} if okw else {'what': 'size/align/mtu written outside set_mtu/alloc: %s' % sorted(writers)}))
    # and set_mtu validates before it writes: no refusal is reachable after a store (a refused call leaves size 0 / the
    # refused values in force otherwise, and the domain of R-progress - size = (mtu / align) * align >= 1 - no longer holds)
    fm = cs.funcs['_upipe_chunk_stream_set_mtu']
    evm = pr.Events(fm)

    def cfg_store(x):
        if is_assign(x):
            l = strip(x['lhs'])
            return isinstance(l, dict) and l.get('k') == 'mem' and l.get('rec') == 'upipe_chunk_stream' and l.get('f') in ('size', 'align', 'mtu')
        return False

    def refusal(x):
        return x.get('k') == 'return' and isinstance(x.get('e'), dict) and (enum_name(x['e']) or '').startswith('UBASE_ERR_') and enum_name(x['e']) != 'UBASE_ERR_NONE'
    late = pr.never_after(evm, cfg_store, refusal)
    rep.add('R-config', '_upipe_chunk_stream_set_mtu:validate-before-store', VIOLATED if late else HOLDS, fm.loc,
            **({'what': 'a refusal (line %s) is reachable after size / align / mtu were written (line %s): the refused values stay in force' % (
                late[0][1][2].get('l'), late[0][0][2].get('l'))} if late else {}))
    stats = {'runs': 0}
    seen = {}

    def finding(rule, fname, f, state, fnobj):
        key = '%s:%s' % (fname, f.kind.replace(' ', '-'))
        if key not in seen:
            seen[key] = True
            rep.add(rule, key, VIOLATED, '%s:%s' % (fnobj.file, f.line), what=str(f), first_state=state)
    for align in range(1, 7):
        for mtu in range(align + 1, 10 if align < 5 else 14):
            size = (mtu // align) * align
            for R0 in range(0, 13):
                # flush
                fn = cs.funcs['upipe_chunk_stream_flush']
                m = ChunkMachine(prog, cs, size, align, mtu, R0)
                m.keep_next = R0 > 0
                st = 'align=%d,mtu=%d,size=%d,pending=%d' % (align, mtu, size, R0)
                stats['runs'] += 1
                try:
                    m.run(fn, [('obj', 'pipe')])
                    bad = [o for o in m.outputs if o is None or not (1 <= o <= size)]
                    if bad:
                        finding('R-progress', 'upipe_chunk_stream_flush', Finding('unit size out of range', fn.line, 'emitted %s with size=%d' % (m.outputs, size)), st, fn)
                    elif any(o % align for o in m.outputs):
                        finding('R-progress', 'upipe_chunk_stream_flush', Finding('unaligned unit', fn.line, 'emitted %s with alignment %d' % (m.outputs, align)), st, fn)
                    elif sum(m.outputs) != R0 - (R0 % align):
                        finding('R-progress', 'upipe_chunk_stream_flush', Finding('aligned octets not output', fn.line,
                                'flush of %d pending octets emitted %s: %d octets, expected all but the unaligned tail (%d)' % (
                                    R0, m.outputs, sum(m.outputs), R0 - (R0 % align))), st, fn)
                    else:
                        rep.add('R-progress', 'flush@' + st, HOLDS, fn.loc, outputs=m.outputs)
                except Finding as f:
                    finding('R-progress', 'upipe_chunk_stream_flush', f, st, fn)
                except Undecided as e:
                    rep.add('R-progress', 'flush@' + st, UNDECIDED, fn.loc, why=str(e))
                except PathEnd:
                    rep.add('R-progress', 'flush@' + st, HOLDS, fn.loc)
                # input of s octets
                for s_in in (1, 2, 5):
                    fn = cs.funcs['upipe_chunk_stream_input']
                    m = ChunkMachine(prog, cs, size, align, mtu, R0)
                    m.incoming = s_in
                    st2 = st + ',incoming=%d' % s_in
                    stats['runs'] += 1
                    try:
                        m.run(fn, [('obj', 'pipe'), ('obj', 'uref'), ('obj', 'upump_p')])
                        bad = [o for o in m.outputs if o != size]
                        if bad:
                            finding('R-progress', 'upipe_chunk_stream_input', Finding('unit size', fn.line, 'emitted %s, configured size %d' % (m.outputs, size)), st2, fn)
                        elif m.R >= size:
                            finding('R-progress', 'upipe_chunk_stream_input', Finding('full unit left pending', fn.line, '%d octets stay pending with size %d' % (m.R, size)), st2, fn)
                        else:
                            rep.add('R-progress', 'input@' + st2, HOLDS, fn.loc, outputs=m.outputs)
                    except Finding as f:
                        finding('R-progress', 'upipe_chunk_stream_input', f, st2, fn)
                    except Undecided as e:
                        rep.add('R-progress', 'input@' + st2, UNDECIDED, fn.loc, why=str(e))
                    except PathEnd:
                        pass
    ag = prog.units['lib/upipe-modules/upipe_aggregate.c']
    fn = ag.funcs.get('upipe_agg_input')
    if fn is None:
        raise facts.AnalysisBroken('anchor vanished: upipe_agg_input')
    for M in range(1, 7):
        for I in range(0, M + 2):
            for S in range(0, M + 1):
                for s_in in range(0, M + 3):
                    st = 'output_size=%d,announced=%d,held=%d,incoming=%d' % (M, I, S, s_in)
                    m = AggMachine(prog, ag, M, I, S, s_in)
                    stats['runs'] += 1
                    try:
                        m.run(fn, [('obj', 'pipe'), ('obj', 'uref'), ('obj', 'upump_p')])
                    except Finding as f:
                        finding('R-unit-size', 'upipe_agg_input', f, st, fn)
                        continue
                    except Undecided as e:
                        rep.add('R-unit-size', 'agg@' + st, UNDECIDED, fn.loc, why=str(e))
                        continue
                    except PathEnd:
                        continue
                    why = None
                    outs = [o for o in m.outputs if o]
                    dropped = s_in if getattr(m, 'freed_incoming', False) and not getattr(m, 'appended', False) and m.f['aggregated'] != ('obj', 'uref') else 0
                    if any(o > M for o in outs):
                        why = 'emits a unit of %s octets with output_size %d' % (outs, M)
                    elif m.T > M:
                        why = 'keeps %d octets aggregated with output_size %d: the next unit will exceed it' % (m.T, M)
                    elif isinstance(m.f['size'], int) and m.f['aggregated'] != ('null',) and m.f['size'] != m.T:
                        why = 'bookkeeping: upipe_agg->size is %s but %d octets are aggregated' % (m.f['size'], m.T)
                    elif dropped and 1 <= s_in <= M:
                        why = 'a valid incoming buffer of %d octets is dropped' % s_in
                    elif not dropped and S + s_in != sum(outs) + m.T:
                        why = 'octets not conserved: held %d + incoming %d, emitted %s, now held %d' % (S, s_in, outs, m.T)
                    if why:
                        finding('R-unit-size', 'upipe_agg_input', Finding(why.split(':')[0][:40], fn.line, why), st, fn)
                    else:
                        rep.add('R-unit-size', 'agg@' + st, HOLDS, fn.loc, outputs=outs, held_after=m.T)
    check_stream_helper(rep, prog, cs, stats)
    rep.tables['abstract_runs'] = stats
    # ownership of the input functions (shared engine)
    ownrule.run_own(rep, prog, local_functions=False)
    rep.assumptions = ['contract of the uref_stream helper: append adds the octets of the buffer, extract(n) removes and returns n octets, next_uref is non-NULL exactly while octets are pending',
                       'configuration values beyond the enumerated ranges behave alike (the code only compares and does integer division on them)']
    check_ts_sync(rep, repo, tier)
    check_ts_check(rep, repo, tier)
    check_ts_align(rep, repo)
    return rep
