"""C01 - refcounted objects are freed exactly once, never used afterwards.

R-own, R-pair, R-dangle, R-core (DESIGN §4 C01)."""
import os
import re

from upv import facts, control, ownrule, own
from upv import pathrules as pr
from upv.facts import (strip, strip_all_casts, strip_expect, walk, is_assign, const_of,
                       enum_name, path_of, root_of)
from upv.report import Report, HOLDS, VIOLATED, UNDECIDED, OOS
from rules.c20 import list_units

PROP = 'C01'
QUICK_DIRS = ['lib/upipe-modules', 'lib/upipe']
THOROUGH_DIRS = ['lib/upipe-modules', 'lib/upipe', 'lib/upipe-filters', 'lib/upipe-pthread', 'lib/upump-ev']
STUB_DIRS = ['lib/upipe-ts', 'lib/upipe-framers']


def load(tier, repo, rep, quick=QUICK_DIRS, thorough=THOROUGH_DIRS, stub=STUB_DIRS):
    dirs = quick if tier == 'quick' else thorough
    sunits = list_units(repo, stub) if (tier == 'thorough' and stub) else []
    prog = facts.load_with_stubs(list_units(repo, dirs), sunits, repo=repo)
    rep.units = sorted(prog.units)
    rep.not_analysed = {k: (v[0] if v else '') for k, v in prog.failed.items()}
    rep.nfuncs = sum(len(u.funcs) for u in prog.units.values()) + len(prog.hdr.funcs)
    return prog


# ---------------------------------------------------------------- R-pair ---

def check_pair(rep, prog):
    rep.rule('R-pair', 'for every pipe type prefix P of a unit: {Y | helper-generated P_init_Y is called} == {Y | helper-generated P_clean_Y is called} '
             '(helper-generated: expanded from a macro of include/upipe/*.h that generates both)')
    for uname, u in sorted(prog.units.items()):
        gen = {}
        for f in u.funcs.values():
            m = re.match(r'(.+?)_(init|clean)_(\w+)$', f.name)
            if m and f.macro and (f.helper_header() or '').startswith('include/upipe/'):
                gen[f.name] = (m.group(1), m.group(2), m.group(3))
        called = {}
        for f in u.funcs.values():
            for bid, s, x in f.calls():
                if x.get('fn') in gen:
                    called.setdefault(x['fn'], []).append((f.name, x.get('l')))
        byP = {}
        for name, (P, kind, Y) in gen.items():
            d = byP.setdefault(P, {'init': set(), 'clean': set(), 'ginit': set(), 'gclean': set()})
            d['g' + kind].add(Y)
            if name in called:
                d[kind].add(Y)
        for P, d in sorted(byP.items()):
            both = d['ginit'] & d['gclean']
            a, b = d['init'] & both, d['clean'] & both
            if not a and not b:
                continue
            if a == b:
                rep.add('R-pair', P, HOLDS, uname, members=sorted(a))
            else:
                for y in sorted(a - b):
                    rep.add('R-pair', '%s:init_%s-without-clean' % (P, y), VIOLATED, uname,
                            what='%s_init_%s is called (%s) but %s_clean_%s never is: what the helper holds is never released' % (
                                P, y, called.get('%s_init_%s' % (P, y), [None])[0], P, y))
                for y in sorted(b - a):
                    rep.add('R-pair', '%s:clean_%s-without-init' % (P, y), VIOLATED, uname,
                            what='%s_clean_%s is called but %s_init_%s never is' % (P, y, P, y))


# -------------------------------------------------------------- R-dangle ---

REL = re.compile(r'^(upipe_release|uref_free|ubuf_free|upump_free|udict_free|\w+_mgr_release|uprobe_release|uclock_release|urequest_free|free|upump_blocker_free)$')
TEAR = re.compile(r'(_free|_clean|_dead|_destroy|_no_ref|_release|_free_\w+|_clean_\w+)$')
TEARCALL = re.compile(r'(_free|_release|_free_void|_free_flow|^free$|_free_pool|_clean_\w+|_destroy)$')


def is_container(arg, bases):
    """the argument designates the containing object itself (the variable,
    a conversion of it, or the address of a member embedded in it), not an
    object a member points to"""
    a = strip_all_casts(arg)
    while isinstance(a, dict):
        k = a.get('k')
        if k == 'ref':
            return a['n'] in bases
        if k == 'call' and len(a.get('args', [])) == 1 and re.search(r'_(to|from)_\w+$', a.get('fn') or ''):
            a = strip_all_casts(a['args'][0])
        elif k == 'container_of':
            a = strip_all_casts(a['e'])
        elif k == 'un' and a.get('op') == '&' and isinstance(strip_all_casts(a.get('e')), dict) and strip_all_casts(a['e']).get('k') == 'mem':
            a = strip_all_casts(strip_all_casts(a['e'])['b'])
        else:
            return False
    return False


def rootname(n):
    r = root_of(n)
    depth = 0
    while isinstance(r, dict) and r.get('k') == 'call' and len(r.get('args', [])) == 1 and depth < 4 and \
            re.search(r'_(to|from)_', r.get('fn') or ''):
        r = root_of(r['args'][0])   # conversion wrapper
        depth += 1
    if isinstance(r, dict) and r.get('k') == 'ref':
        return r.get('n')
    return None


def check_uar(rep, fn, ev, relcall, p, base, inst):
    """R-uar: no read of the released field after the release, unless the
    field (or the variable it is reached through) is assigned in between"""
    if '[]' in p:
        return      # an element designated by a changing index: not one field
    lhs_ids = set()
    for bid, s, x in fn.nodes():
        if is_assign(x) and x['op'] == '=':
            l = strip(x['lhs'])
            if isinstance(l, dict):
                lhs_ids.add(id(l))

    def load(nn):
        return nn.get('k') == 'mem' and id(nn) not in lhs_ids and path_of(nn) == p

    def reset(nn):
        if is_assign(nn):
            l = strip(nn['lhs'])
            if path_of(l) == p:
                return True
            if isinstance(l, dict) and l.get('k') == 'ref' and l['n'] == base:
                return True
        if nn.get('k') == 'decl' and any(v['n'] == base for v in nn.get('vars', [])):
            return True
        return False
    pos = [q for q in ev.find(lambda nn: nn is relcall)]
    bad = []
    for q in pos:
        hits, _ = ev.reach((q[0], q[1]), load, reset)
        bad += hits
    if bad:
        h = bad[0]
        rep.add('R-uar', inst, VIOLATED, '%s:%s' % (fn.file, h[2].get('l')),
                what='%s is read at line %s after %s(%s) at line %s gave up the reference it holds (no assignment in between)' % (
                    p, h[2].get('l'), relcall['fn'], p, relcall.get('l')))
    else:
        rep.add('R-uar', inst, HOLDS, '%s:%s' % (fn.file, relcall.get('l')))


def check_dangle(rep, prog):
    rep.rule('R-uar', 'after a releasing call on a field (same list as R-dangle), in any function, no path reads that field again '
             'before it, or the variable it is reached through, is assigned')
    rep.rule('R-dangle', 'after a releasing call on a field (upipe_release(s->f), uref_free(s->f), ubuf_free, upump_free, X_mgr_release, free, ...) '
             'in a function that is not itself a teardown function, every path to the exit stores to s->f, or hands the containing '
             'object to a free/release/clean function, or is an allocation-failure return')
    thread_entries = {}
    for uname, u in prog.units.items():
        for fn in u.funcs.values():
            for bid, s, x in fn.calls():
                if x.get('fn') == 'pthread_create' and len(x.get('args', [])) >= 3:
                    a = strip_all_casts(x['args'][2])
                    if isinstance(a, dict) and a.get('k') == 'un' and a.get('op') == '&':
                        a = strip_all_casts(a.get('e'))
                    if isinstance(a, dict) and a.get('k') == 'ref':
                        thread_entries.setdefault(uname, set()).add(a['n'])
    for uname, u in sorted(prog.units.items()):
        for fn in sorted(u.funcs.values(), key=lambda f: f.name):
            if not (fn.inmain or fn.macro) or not fn.blocks:
                continue
            no_dangle = bool(TEAR.search(fn.name))
            if fn.name in thread_entries.get(uname, ()):
                # a thread entry runs once on a one-shot context that the
                # joiner frees: what it leaves in the context is never read
                rep.add('R-dangle', '%s:thread-entry' % fn.name, OOS, fn.loc,
                        why='start routine given to pthread_create: its context is one-shot and freed by the joining function')
                no_dangle = True
            ldefs = None
            ev = None
            for bid, s, x in fn.calls():
                if not (x.get('fn') and REL.match(x['fn']) and x.get('args')):
                    continue
                a = strip_all_casts(x['args'][0])
                if not (isinstance(a, dict) and a.get('k') == 'mem'):
                    continue
                p = path_of(a)
                base = rootname(a)
                if not p:
                    continue
                ev = ev or pr.Events(fn)

                def isthis(nn, x=x):
                    return nn is x

                if ldefs is None:
                    ldefs = fn.local_defs()
                bases = {base}
                d = ldefs.get(base)
                if isinstance(d, dict):
                    # `struct x *s = _s;` / `s = X_from_upipe(upipe)`: freeing
                    # what s was derived from frees the container too
                    r = rootname(d)
                    if r:
                        bases.add(r)

                def fix(nn, p=p, bases=bases):
                    if is_assign(nn) and path_of(nn['lhs']) == p:
                        return True
                    if nn.get('k') == 'call' and nn.get('fn') and TEARCALL.search(nn['fn']):
                        if any(is_container(arg, bases) for arg in nn.get('args', [])):
                            return True
                    if nn.get('k') == 'return' and isinstance(nn.get('e'), dict) and enum_name(nn['e']) == 'UBASE_ERR_ALLOC':
                        return True
                    return False
                inst = '%s:%s(%s)' % (fn.name, x['fn'], p)
                check_uar(rep, fn, ev, x, p, base, inst)
                if no_dangle:
                    continue
                if pr.must_follow(ev, isthis, fix):
                    rep.add('R-dangle', inst, VIOLATED, '%s:%s' % (fn.file, x.get('l')),
                            what='%s(%s) and then a path reaches the end of %s without overwriting %s: the field keeps pointing at the released object' % (x['fn'], p, fn.name, p))
                else:
                    rep.add('R-dangle', inst, HOLDS, '%s:%s' % (fn.file, x.get('l')))


# ---------------------------------------------------------------- R-core ---

def core(rep, name, ok, loc, **why):
    rep.add('R-core', name, HOLDS if ok else VIOLATED, loc, **why)


def is_cmp_const(cond, fname, const):
    """cond is `fname(...) == const` (through expect/!!)"""
    n, neg = strip_expect(cond)
    if isinstance(n, dict) and n.get('k') == 'bin' and n.get('op') == '==' and 'lhs' in n:
        l, r = strip_all_casts(n['lhs']), n['rhs']
        if isinstance(l, dict) and l.get('k') == 'call' and l.get('fn') == fname and const_of(r) == const:
            return True, neg
    return False, neg


def clean_input_ok(fn):
    """X_clean_input: NB_UREFS reset to 0 before unblock_input (which releases the blockers only when few urefs are
    held), nothing else stored into it in between, every held uref freed"""
    ev = pr.Events(fn)
    zero = pr.m_store('NB_UREFS', 0)
    unb = pr.m_call(r'\w+_unblock_input')
    ok = bool(ev.find(unb)) and not pr.must_precede(ev, zero, unb)
    between = pr.never_after(ev, zero, pr.m_store('NB_UREFS'), reset=unb)
    ok = ok and not [b for b in between if not zero(b[1][2])]
    dele = pr.m_call('ulist_delete')
    ok = ok and bool(ev.find(dele)) and not pr.must_follow(ev, dele, pr.m_any(pr.m_call('uref_free'), dele)) and bool(ev.find(pr.m_call('uref_free')))
    return ok


def check_core(rep, prog):
    rep.rule('R-core', 'ordering obligations on the primitives the property names, each a path rule on one function (see instance names)')
    H = prog.hdr
    need = ['urefcount_release', 'upipe_input', 'upipe_control_nodbg_va', 'uref_free']
    for n in need:
        if n not in H.funcs:
            raise facts.AnalysisBroken('anchor vanished: %s' % n)
    # urefcount_release: cb cleared before the callback runs; callback only
    # for the thread whose decrement returned 1
    fn = H.funcs['urefcount_release']
    ev = pr.Events(fn)
    indirect = lambda n: n.get('k') == 'call' and not n.get('fn')
    clear = pr.m_store(('urefcount', 'cb'), 'null')
    calls = ev.find(indirect)
    ok1 = bool(calls) and not pr.must_precede(ev, clear, indirect)
    core(rep, 'urefcount_release:cb-cleared-before-callback', ok1, fn.loc,
         **({} if ok1 else {'what': 'the destructor is invoked on a path where refcount->cb has not been set to NULL first'}))

    def elected(ctree, pol):
        c = fn.resolve(ctree)
        ok, neg = is_cmp_const(c, 'uatomic_fetch_sub', 1)
        return ok and pol != neg
    ok2 = bool(calls) and all(pr.control_dependent(fn, ev, c, elected) for c in calls)
    core(rep, 'urefcount_release:callback-under-fetch_sub==1', ok2, fn.loc,
         **({} if ok2 else {'what': 'the destructor call is not control dependent on uatomic_fetch_sub(&refcount->refcount, 1) == 1'}))
    # use / release brackets
    for fname, slot in (('upipe_input', 'upipe_input'), ('upipe_control_nodbg_va', 'upipe_control')):
        fn = H.funcs[fname]
        ev = pr.Events(fn)
        ind = pr.m_indirect(r'.*->' + slot)
        use = pr.m_call('upipe_use')
        rel = pr.m_call('upipe_release')
        ok = bool(ev.find(ind)) and not pr.must_precede(ev, use, ind) and not pr.must_follow(ev, ind, rel)
        core(rep, '%s:use-call-release' % fname, ok, fn.loc,
             **({} if ok else {'what': 'the call through mgr->%s is not bracketed by upipe_use / upipe_release on every path' % slot}))
    # uref_free: payload and dictionary released before the structure
    fn = H.funcs['uref_free']
    ev = pr.Events(fn)
    ind = pr.m_indirect(r'.*->uref_free')
    ok = bool(ev.find(ind)) and not pr.must_precede(ev, pr.m_call('ubuf_free'), ind) and not pr.must_precede(ev, pr.m_call('udict_free'), ind)
    after = pr.never_after(ev, ind, lambda n: n.get('k') == 'mem' and n.get('rec') == 'uref')
    ok = ok and not after
    core(rep, 'uref_free:ubuf-udict-then-structure', ok, fn.loc,
         **({} if ok else {'what': 'uref_free must release ubuf and udict before mgr->uref_free and not touch the uref afterwards'}))
    # a structure taken from the manager (possibly recycled from a pool) has its
    # ubuf and udict defined before anything can free it - allocation-failure paths included:
    # uref_free() would release whatever the recycled structure still points at
    nfresh = 0
    for fname, fn in sorted(H.funcs.items()):
        if not (fn.file or '').endswith('upipe/uref.h') or not fn.blocks:
            continue
        ev = pr.Events(fn)
        if not ev.find(pr.m_indirect(r'.*->uref_alloc')):
            continue
        nfresh += 1
        frees = ev.find(pr.m_call('uref_free'))
        init = pr.m_call('uref_init')
        ok = True
        for fld in ('ubuf', 'udict'):
            st = pr.m_any(pr.m_store(('uref', fld)), init)
            if frees and pr.must_precede(ev, st, pr.m_call('uref_free')):
                ok = False
            # and before the structure is returned
            if pr.must_precede(ev, st, lambda n: n.get('k') == 'return' and isinstance(n.get('e'), dict) and const_of(n['e']) is None):
                ok = False
        core(rep, '%s:fresh-uref-initialised-before-free-or-return' % fname, ok, fn.loc,
             **({} if ok else {'what': 'a path frees or returns the uref obtained from mgr->uref_alloc before its ubuf and udict fields are both written: '
                                'a recycled structure still designates the buffer of its previous life, which uref_free() releases a second time'}))
    if nfresh < 2:
        raise facts.AnalysisBroken('fresh-uref rule found %d allocation sites in uref.h' % nfresh)
    # upump_common_dispatch / clean
    U = prog.units.get('lib/upipe/upump_common.c')
    if U is None:
        raise facts.AnalysisBroken('anchor vanished: lib/upipe/upump_common.c')
    for fname in ('upump_common_dispatch', 'upump_common_clean'):
        fn = U.funcs.get(fname)
        if fn is None:
            raise facts.AnalysisBroken('anchor vanished: %s' % fname)
        ev = pr.Events(fn)
        ind = lambda n: n.get('k') == 'call' and not n.get('fn')
        ok = bool(ev.find(ind)) and not pr.must_precede(ev, pr.m_call('urefcount_use'), ind) and not pr.must_follow(ev, ind, pr.m_call('urefcount_release'))
        core(rep, '%s:refcount-held-during-callback' % fname, ok, fn.loc,
             **({} if ok else {'what': 'callback invoked without holding the owner\'s refcount around it'}))
    # mem managers: the area is returned only by the holder whose release says so
    for unit, prefix in (('lib/upipe/ubuf_block_mem.c', 'ubuf_block_mem'), ('lib/upipe/ubuf_pic_mem.c', 'ubuf_pic_mem'),
                         ('lib/upipe/ubuf_sound_mem.c', 'ubuf_sound_mem')):
        U = prog.units.get(unit)
        fn = U.funcs.get(prefix + '_free') if U else None
        if fn is None:
            raise facts.AnalysisBroken('anchor vanished: %s_free' % prefix)
        ev = pr.Events(fn)

        def released(ctree, pol, fn=fn):
            n, neg = strip_expect(fn.resolve(ctree))
            return isinstance(n, dict) and n.get('k') == 'call' and n.get('fn') == 'ubuf_mem_shared_release' and pol != neg
        frees = ev.find(pr.m_any(pr.m_call('umem_free'), pr.m_call(r'\w+_shared_free_pool')))
        ok = len(frees) >= 2 and all(pr.control_dependent(fn, ev, f, released) for f in frees)
        pool = pr.m_call(prefix + '_free_pool')
        ok = ok and bool(ev.find(pool)) and not pr.never_after(ev, pool, lambda n: n.get('k') == 'call') and \
            not pr.must_precede(ev, pr.m_call('ubuf_mem_shared_release'), pool)
        core(rep, '%s_free:area-freed-only-by-last-holder' % prefix, ok, fn.loc,
             **({} if ok else {'what': 'umem_free / shared_free_pool must be control dependent on ubuf_mem_shared_release() and X_free_pool must come last, after the release'}))
    # per instantiation helper obligations
    for uname, u in sorted(prog.units.items()):
        for fn in sorted(u.funcs.values(), key=lambda f: f.name):
            if fn.macro == 'UPIPE_HELPER_OUTPUT' and fn.name.endswith('_set_output'):
                ev = pr.Events(fn)
                st = pr.m_store('OUTPUT')
                rel = pr.m_call('upipe_release')
                stores = ev.find(st)

                def uses(n):
                    r = strip_all_casts(n['rhs']) if is_assign(n) else None
                    return isinstance(r, dict) and r.get('k') == 'call' and r.get('fn') == 'upipe_use'
                ok = bool(stores) and all(uses(s[2]) for s in stores) and not pr.must_precede(ev, rel, st)
                core(rep, '%s:release-old-then-use-new' % fn.name, ok, fn.loc,
                     **({} if ok else {'what': 'set_output must release the old output before storing upipe_use(new)'}))
            elif fn.macro == 'UPIPE_HELPER_OUTPUT' and fn.name.endswith('_clean_output'):
                ev = pr.Events(fn)
                ok = bool(ev.find(pr.m_call('urequest_free'))) and bool(ev.find(pr.m_call('upipe_release'))) and bool(ev.find(pr.m_call('uref_free')))
                ok = ok and not pr.must_follow(ev, pr.m_call('ulist_pop'), pr.m_any(pr.m_call('urequest_free'), pr.m_call('upipe_release')))
                _, ex = ev.reach(None, lambda n: False, pr.m_call('upipe_release'), from_entry=True)
                ok = ok and not ex
                _, ex = ev.reach(None, lambda n: False, pr.m_call('uref_free'), from_entry=True)
                ok = ok and not ex
                core(rep, '%s:releases-requests-output-flowdef' % fn.name, ok, fn.loc,
                     **({} if ok else {'what': 'clean_output must free every popped request, release the output and free the flow definition on every path'}))
            elif fn.macro == 'UPIPE_HELPER_INPUT' and fn.name.endswith('_clean_input'):
                ok = clean_input_ok(fn)
                core(rep, '%s:frees-held-and-unblocks' % fn.name, ok, fn.loc,
                     **({} if ok else {'what': 'clean_input must reset NB_UREFS to 0 before calling unblock_input (else the blockers survive the pipe) and free every held uref'}))
            elif fn.macro == 'UPIPE_HELPER_SUBPIPE' and '_throw_sub_' in fn.name:
                # the handler of the event may release subpipes: the one being served is kept alive by a
                # reference, and the successor is read from it *after* the throw and before that reference is dropped
                ev = pr.Events(fn)
                thr = pr.m_call(r'upipe_throw(_va)?')
                use = pr.m_call('upipe_use')
                rel = pr.m_call('upipe_release')
                nxt = pr.m_load(('uchain', 'next'))
                ok = bool(ev.find(thr)) and not pr.must_precede(ev, use, thr)
                bad = []
                for pos in ev.find(thr):
                    hits, _ = ev.reach((pos[0], pos[1]), rel, nxt)
                    bad += hits
                ok = ok and bool(ev.find(rel)) and not bad
                core(rep, '%s:successor-read-after-throw-under-reference' % fn.name, ok, fn.loc,
                     **({} if ok else {'what': 'after throwing on a subpipe the loop drops its reference without having re-read uchain->next: the successor '
                                        'was cached before the throw, and a handler that releases that successor leaves the loop with a freed pipe'}))
            elif fn.macro == 'UPIPE_HELPER_UREF_STREAM' and fn.name.endswith('_clean_uref_stream'):
                ev = pr.Events(fn)
                ok = bool(ev.find(pr.m_call('uref_free')))
                core(rep, '%s:frees-stream' % fn.name, ok, fn.loc)



def check_holdpin(rep, prog):
    """a pipe that keeps input buffers in its hold list pins itself (upipe_use(upipe)) when the list goes from empty to
    non-empty, and the code that drains or flushes the list drops that one reference: a pin taken while the list already
    holds buffers is never given back and the pipe (with everything it owns) outlives its last user"""
    from upv import pathrules as pr
    rep.rule('R-holdpin', 'every upipe_use() a function applies to its own pipe (first parameter) without releasing it again before returning is '
             'control-dependent on X_check_input(upipe) being true, i.e. taken only when the hold list was empty (or, under X_check_input() false, re-taken by a function that released it under the same condition earlier: the setters that close and reopen a sink); one reference per '
             'non-empty hold list is what the drain / flush code gives back (19 of 19 such sites in the tree have this form)')
    n = 0
    for uname, u in sorted(prog.units.items()):
        for fn in u.funcs.values():
            if not fn.blocks or not fn.inmain:
                continue

            def own(n_, name, fn=fn):
                if n_.get('k') != 'call' or n_.get('fn') != name or not n_.get('args'):
                    return False
                a = strip_all_casts(fn.resolve(n_['args'][0]))
                return isinstance(a, dict) and a.get('k') == 'ref' and a.get('d') == 'param' and a.get('pi') == 0
            ev = None
            for bid, st, x in fn.nodes():
                if own(x, 'upipe_use'):
                    ev = pr.Events(fn)
                    break
            if ev is None:
                continue
            if not any(x.get('k') == 'call' and (x.get('fn') or '').endswith('_check_input') for _, _, x in fn.nodes()):
                continue          # no hold list in sight: a pin of another kind (scoped pins are balanced in the function)
            for pos in ev.find(lambda x: own(x, 'upipe_use')):
                _, ex = ev.reach((pos[0], pos[1]), lambda x: False, lambda x: own(x, 'upipe_release'))
                if not ex:
                    continue      # scoped: released again on every path

                def cm(c, pol, fn=fn):
                    c = strip_all_casts(c)
                    neg = False
                    while isinstance(c, dict):
                        if c.get('k') == 'un' and c.get('op') == '!':
                            neg = not neg
                            c = strip_all_casts(fn.resolve(c['e']))
                            continue
                        if c.get('k') == 'call' and c.get('fn') == '__builtin_expect':
                            c = strip_all_casts(fn.resolve(c['args'][0]))
                            continue
                        break
                    return isinstance(c, dict) and c.get('k') == 'call' and (c.get('fn') or '').endswith('_check_input') and pol != neg

                def cm_not(c, pol, cm=cm):
                    return cm(c, not pol)
                n += 1
                ok = pr.control_dependent(fn, ev, pos, cm)
                if not ok and pr.control_dependent(fn, ev, pos, cm_not):
                    # the list is not empty: taking the pin again is right only where the same function gave it back under the
                    # same condition (a setter that closes and reopens its sink: file sink, udp sink)
                    ok = any(pr.control_dependent(fn, ev, r_, cm_not) for r_ in ev.find(lambda x: own(x, 'upipe_release'))
                             if ev.reach((r_[0], r_[1]), lambda x, pos=pos: x is pos[2], None)[0])
                rep.add('R-holdpin', '%s:upipe_use(upipe)#%d' % (
                    fn.name, [p_[2] is pos[2] for p_ in ev.find(lambda x: own(x, 'upipe_use'))].index(True)),
                    HOLDS if ok else VIOLATED, '%s:%s' % (fn.file, pos[2].get('l')),
                    **({} if ok else {'what': '%s pins the pipe (upipe_use(upipe), line %s) on a path that does not require X_check_input(upipe) to be true: '
                                              'with buffers already held a further reference is taken, but draining or flushing the list gives back only one - '
                                              'the pipe and what it owns are never released' % (fn.name, pos[2].get('l'))}))
    if n < 12:
        raise facts.AnalysisBroken('R-holdpin found only %d hold pins' % n)



def check_own_pipe(rep, prog):
    """a pipe a function allocates into a local variable is, on every path, released, stored into a structure / list,
    handed to a function that takes it, or returned"""
    from upv import own
    rep.rule('R-own-pipe', 'every function that obtains a pipe from an allocation call (struct upipe * result of upipe_*_alloc*) into a local variable: on every '
             'path the reference is exactly once released (upipe_release), stored into a structure or list, handed to a function that takes it '
             '(upipe_xfer_alloc takes the remote pipe; store_bin_input / store_bin_output / store_<inner> keep it) or returned; not used after release '
             '(ownership typestate with callee outcome summaries; allocation-failure paths are observations)')
    inputs = ownrule.input_functions(prog)
    table = dict(own.TABLE)
    alias = dict(own.ALIAS_FNS)
    own.TABLE[('upipe_release', 0)] = own.CONSUME
    own.TABLE[('upipe_xfer_alloc', 2)] = own.CONSUME     # upipe_transfer.h: upipe_remote belongs to the callee
    own.ALIAS_FNS['upipe_to_uchain'] = 0
    own.ALIAS_FNS['upipe_from_uchain'] = 0
    n = 0
    try:
        W = own.Own(prog, inputs, {}, tracked=('struct upipe *',))
        for uname, u in sorted(prog.units.items()):
            for fn in sorted(u.funcs.values(), key=lambda f: f.name):
                if not fn.blocks or not fn.inmain:
                    continue
                if not any(x.get('k') == 'call' and x.get('t') == 'struct upipe *' and own.PRODUCER_RE.search(x.get('fn') or '') for _, _, x in fn.nodes()):
                    continue
                n += 1
                res = W.explore(u, fn, owned_params=())
                if not res['decided']:
                    rep.add('R-own-pipe', fn.name, UNDECIDED, fn.loc, why=res['undecided'][:2])
                    continue
                seen = set()
                for v in res['violations']:
                    if v.armed():
                        key = (fn.name, v.kind, v.var)
                        if key in seen:
                            continue
                        seen.add(key)
                        rep.add('R-own-pipe', '%s:%s:%s' % key, VIOLATED, '%s:%s' % (fn.file, v.line), what=v.detail, path_blocks=v.path[:40])
                    else:
                        rep.add('R-own-pipe', '%s:%s:%s@%s' % (fn.name, v.kind, v.var, v.line), OOS, '%s:%s' % (fn.file, v.line),
                                why='only on a failure path (allocation failure: %s; failed calls: %s)' % (v.af, sorted(v.err)), what=v.detail)
                if res['esc_leaks'] and not seen:
                    rep.add('R-own-pipe', fn.name, UNDECIDED, fn.loc, why='pipe handed to a function of another translation unit, then not released: %s' % sorted(res['esc_leaks'])[:3])
                elif not seen:
                    rep.add('R-own-pipe', fn.name, HOLDS, fn.loc, states=res['states'])
    finally:
        own.TABLE.clear()
        own.TABLE.update(table)
        own.ALIAS_FNS.clear()
        own.ALIAS_FNS.update(alias)
    if n < 60:
        raise facts.AnalysisBroken('R-own-pipe found only %d functions allocating pipes' % n)



USE_THEN_FAIL_OK = {
    'upipe_qsrc_register_request': 'the reference belongs to the registered state of the request: it stays listed when the output refuses it and is released by '
                                   'upipe_qsrc_unregister_request (upipe_queue_source.c)',
}


def check_use_then_fail(rep, prog):
    """a function that pins one of its arguments (X_use(param), result discarded) and then reports a refusal has released
    the pin on that path"""
    rep.rule('R-use-then-fail', 'every function that takes a reference on one of its parameters with a bare X_use(param) statement: no return of an error constant, and '
             'no return of the verdict of another call, is reachable afterwards without X_release(param) - the caller, told that the operation failed, does not '
             'perform the step that gives the reference back (39 such pins in the tree; one listed exception)')
    n = 0
    units = list(prog.units.values()) + ([prog.hdr] if prog.hdr else [])
    for u in units:
        for fn in sorted(u.funcs.values(), key=lambda f: f.name):
            if not fn.blocks:
                continue
            uses = []
            for b in fn.blocks:
                for st in fn.stmts(b):
                    x = strip_all_casts(st)
                    if isinstance(x, dict) and x.get('k') == 'call' and re.search(r'_use$', x.get('fn') or '') and x.get('args'):
                        a = strip_all_casts(fn.resolve(x['args'][0]))
                        if isinstance(a, dict) and a.get('k') == 'ref' and a.get('d') == 'param':
                            uses.append((x, a['n']))
            if not uses:
                continue
            ev = pr.Events(fn)
            for x, pname in uses:
                def rel(n_, pname=pname):
                    if n_.get('k') != 'call' or not re.search(r'_release$', n_.get('fn') or '') or not n_.get('args'):
                        return False
                    a = strip_all_casts(fn.resolve(n_['args'][0]))
                    return isinstance(a, dict) and a.get('k') == 'ref' and a.get('n') == pname

                def failret(n_):
                    if n_.get('k') != 'return' or not isinstance(n_.get('e'), dict):
                        return False
                    en = enum_name(n_['e'])
                    if en:
                        return en.startswith('UBASE_ERR_') and en != 'UBASE_ERR_NONE'
                    e0 = strip_all_casts(fn.resolve(n_['e']))
                    return fn.ret == 'int' and isinstance(e0, dict) and e0.get('k') == 'call'      # the verdict of another call
                pos = ev.find(lambda n_, x=x: n_ is x)
                if not pos:
                    continue
                n += 1
                hits, _ = ev.reach((pos[0][0], pos[0][1]), failret, rel)
                inst = '%s:%s(%s)' % (fn.name, x.get('fn'), pname)
                if hits and fn.name in USE_THEN_FAIL_OK:
                    rep.add('R-use-then-fail', inst, OOS, fn.loc, why='listed: ' + USE_THEN_FAIL_OK[fn.name])
                elif hits:
                    rep.add('R-use-then-fail', inst, VIOLATED, '%s:%s' % (fn.file, hits[0][2].get('l')),
                            what='%s takes a reference on %s (%s, line %s) and can then return a failure (line %s) without releasing it: the caller does not undo an '
                                 'operation that failed, and the object is never freed' % (fn.name, pname, x.get('fn'), x.get('l'), hits[0][2].get('l')))
                else:
                    rep.add('R-use-then-fail', inst, HOLDS, fn.loc)
    if n < 15:
        raise facts.AnalysisBroken('R-use-then-fail found only %d pins of parameters' % n)

LIST_DRAIN_OK = {
    # (record, field): reason
}


def check_list_drain(rep, prog):
    """a list of urefs kept in the private structure of a pipe is emptied by the function that frees the pipe"""
    rep.rule('R-list-drain', 'every list field of a pipe structure to which the unit adds urefs it owns (ulist_add / ulist_unshift of uref_to_uchain(..)): the '
             'function of that unit that frees this kind of pipe (the one throwing "dead" and using the same structure) reaches, directly or through functions of '
             'the unit, code that takes the elements off that very list (ulist_pop, or ulist_delete inside a walk of it) and frees a uref - otherwise whatever the '
             'list holds when the last reference goes is never freed, for any history that leaves the list non-empty')

    def list_field(fn, arg):
        a = strip_all_casts(fn.resolve(arg))
        if isinstance(a, dict) and a.get('k') == 'un' and a.get('op') == '&':
            m = strip_all_casts(a['e'])
            if isinstance(m, dict) and m.get('k') == 'mem':
                return (m.get('rec'), m.get('f'))
        return None

    n = 0
    for uname, u in sorted(prog.units.items()):
        adds = {}
        for fn in u.funcs.values():
            if not fn.blocks or fn.macro:
                continue
            for _, _, x in fn.nodes():
                if x.get('k') == 'call' and x.get('fn') in ('ulist_add', 'ulist_unshift') and len(x.get('args', [])) >= 2:
                    e = strip_all_casts(fn.resolve(x['args'][1]))
                    if isinstance(e, dict) and e.get('k') == 'call' and e.get('fn') == 'uref_to_uchain':
                        lf = list_field(fn, x['args'][0])
                        if lf and lf[0]:
                            adds.setdefault(lf, []).append((fn, x))
        if not adds:
            continue

        def target(fn, arg):
            lf_ = list_field(fn, arg)
            if lf_:
                return lf_
            a = strip_all_casts(fn.resolve(arg))
            if isinstance(a, dict) and a.get('k') == 'ref' and a.get('d') == 'param':
                return ('param', a.get('n'))
            return None

        def drains(fn, lf, seen):
            """name of the function that empties the list lf (a (record, field) pair, or ('param', name) inside a helper taking the list) and frees urefs"""
            if (fn.name, lf) in seen:
                return None
            seen.add((fn.name, lf))
            nodes = [x for _, _, x in fn.nodes()]
            frees = any(x.get('k') == 'call' and x.get('fn') == 'uref_free' for x in nodes)

            def mentions(y):
                if lf[0] == 'param':
                    return y.get('k') == 'ref' and y.get('d') == 'param' and y.get('n') == lf[1]
                return y.get('k') == 'mem' and (y.get('rec'), y.get('f')) == lf
            for x in nodes:
                if x.get('k') != 'call':
                    continue
                if frees and x.get('fn') == 'ulist_pop' and x.get('args') and target(fn, x['args'][0]) == lf:
                    return fn.name
                if frees and x.get('fn') == 'ulist_delete' and any(mentions(y) for y in nodes):
                    return fn.name
            for x in nodes:
                if x.get('k') != 'call':
                    continue
                g = u.funcs.get(x.get('fn')) or (prog.hdr.funcs.get(x.get('fn')) if prog.hdr else None)
                if g is None or not g.blocks:
                    continue
                # the list itself handed to a helper that empties the list it is given
                for i, a in enumerate(x.get('args', [])):
                    if target(fn, a) == lf and i < len(g.params):
                        pn = g.params[i][0] if isinstance(g.params[i], (list, tuple)) else (g.params[i].get('n') if isinstance(g.params[i], dict) else g.params[i])
                        r = drains(g, ('param', pn), seen)
                        if r:
                            return r
                if lf[0] != 'param' and x.get('fn') in u.funcs:
                    r = drains(g, lf, seen)
                    if r:
                        return r
            return None

        frees = [fn for fn in u.funcs.values() if fn.blocks and not fn.macro
                 and any(x.get('k') == 'call' and x.get('fn') == 'upipe_throw_dead' for _, _, x in fn.nodes())]
        for lf, sites in sorted(adds.items()):
            rec = re.sub(r'^struct ', '', lf[0])
            mine = [f for f in frees if any((x.get('k') == 'call' and x.get('fn') == rec + '_from_upipe')
                                            or (x.get('k') == 'mem' and x.get('rec') == lf[0]) for _, _, x in f.nodes())]
            if not mine:
                mine = [f for f in frees if f.name == rec + '_free'] or frees
            inst = '%s.%s' % (rec, lf[1])
            n += 1
            if not mine:
                rep.add('R-list-drain', inst, UNDECIDED, sites[0][0].loc, why='no function of the unit throws "dead"')
                continue
            bad = [f for f in mine if not drains(f, lf, set())]
            if bad and lf in LIST_DRAIN_OK:
                rep.add('R-list-drain', inst, OOS, bad[0].loc, why='listed: ' + LIST_DRAIN_OK[lf])
            elif bad:
                rep.add('R-list-drain', inst, VIOLATED, bad[0].loc,
                        what='%s (line %s) adds urefs it owns to the list %s, and %s, which frees this pipe, never takes them off that list: every uref still listed '
                             'when the pipe goes is leaked' % (sites[0][0].name, sites[0][1].get('l'), inst, bad[0].name))
            else:
                rep.add('R-list-drain', inst, HOLDS, mine[0].loc, drained_by=drains(mine[0], lf, set()), added_in=sorted({f.name for f, _ in sites}))
    return n

FIELD_FREE_OK = {
    # (record, field): reason
}

BORROWED_ARG_OK = {
    'upipe_vblk_set_pic_real': 'upipe_vblk_set_pic hands the picture over: its only caller (upipe_blank_source.c) relies on it, and the function frees or keeps the '
                               'uref on every path (also listed in the consumer table)',
    'upipe_ablk_set_sound_real': 'upipe_ablk_set_sound hands the sound buffer over, same convention as upipe_vblk_set_pic',
}


FIELD_RELEASE = {
    'struct uref *': ('uref_free',), 'struct ubuf *': ('ubuf_free',), 'struct udict *': ('udict_free',),
    'struct upump *': ('upump_free',), 'struct upipe *': ('upipe_release',), 'struct uclock *': ('uclock_release',),
    'struct ubuf_mgr *': ('ubuf_mgr_release',), 'struct uref_mgr *': ('uref_mgr_release',), 'struct upump_mgr *': ('upump_mgr_release',),
    'struct upipe_mgr *': ('upipe_mgr_release',), 'struct umem_mgr *': ('umem_mgr_release',), 'struct udict_mgr *': ('udict_mgr_release',),
    'struct uprobe *': ('uprobe_release',), 'char *': ('free',), 'uint8_t *': ('free',),
}


def check_field_free(rep, prog):
    """a field the unit itself treats as owned is released by the tear-down of the pipe"""
    rep.rule('R-field-free', 'every field of a pipe structure holding a uref, ubuf, udict, pump, pipe, clock, manager, probe or malloc\'ed string that the unit '
             'fills with something other than NULL and that the unit itself treats as owned somewhere (it passes that very field to the type\'s free / release '
             'function, or for a uref / ubuf sends it downstream; or it fills the field straight from X_use(..) or an allocation): the tear-down of that kind of pipe - the function throwing "dead", together with the function '
             'that drops the pipe\'s inner reference count when the last outside reference goes (X_no_ref / X_no_input of the bin pipes) - reaches a free / '
             'release of that field (or a last output), directly or through functions of the unit. A field the unit never releases anywhere is a borrowed pointer '
             'and is not an instance (contradiction rule: released in one place, forgotten in the destructor)')
    n = 0
    REL = FIELD_RELEASE
    DATA = ('struct uref *', 'struct ubuf *')

    def field_of(fn, a):
        a = strip_all_casts(fn.resolve(a))
        if isinstance(a, dict) and a.get('k') == 'mem' and a.get('t') in REL and a.get('rec'):
            return (a.get('rec'), a.get('f'), a.get('t'))
        return None

    def disposes(fn, x, key):
        """the call x gives up the object held in the field key"""
        if x.get('k') != 'call' or not x.get('fn') or not x.get('args'):
            return False
        if x['fn'] in REL[key[2]]:
            return field_of(fn, x['args'][0]) == key
        if key[2] in DATA and own.FORWARD_RE.search(x['fn']):
            return any(field_of(fn, a) == key for a in x['args'])
        return False

    for uname, u in sorted(prog.units.items()):
        stored, owned = {}, {}
        for fn in u.funcs.values():
            if not fn.blocks:
                continue
            for _, _, x in fn.nodes():
                if is_assign(x) and x.get('op') == '=':
                    l = strip_all_casts(x['lhs'])
                    if isinstance(l, dict) and l.get('k') == 'mem' and l.get('t') in REL and l.get('rec'):
                        if const_of(strip_all_casts(x['rhs'])) == 0:
                            continue
                        key = (l['rec'], l['f'], l['t'])
                        stored.setdefault(key, []).append((fn, x))
                        r = strip_all_casts(fn.resolve(x['rhs']))
                        if isinstance(r, dict) and r.get('k') == 'call' and r.get('fn') and l['t'] not in ('char *', 'uint8_t *') \
                                and (re.search(r'_use$', r['fn']) or (own.PRODUCER_RE.search(r['fn']) and r['fn'] not in own.NOT_PRODUCERS)):
                            owned.setdefault(key, []).append((fn, r))      # a reference taken, or an allocation, put straight into the field
                elif x.get('k') == 'call' and x.get('fn') and x.get('args'):
                    for a in x['args']:
                        k = field_of(fn, a)
                        if k and disposes(fn, x, k):
                            owned.setdefault(k, []).append((fn, x))
        if not stored:
            continue
        frees = [fn for fn in u.funcs.values() if fn.blocks and not fn.macro
                 and any(x.get('k') == 'call' and x.get('fn') == 'upipe_throw_dead' for _, _, x in fn.nodes())]

        def freed(fn, key, seen):
            if fn.name in seen:
                return None
            seen.add(fn.name)
            for _, _, x in fn.nodes():
                if disposes(fn, x, key):
                    return fn.name      # freed / released, or flushed downstream
            for _, _, x in fn.nodes():
                if x.get('k') == 'call' and x.get('fn') in u.funcs and u.funcs[x['fn']].blocks:
                    r = freed(u.funcs[x['fn']], key, seen)
                    if r:
                        return r
            return None

        for key, sites in sorted(stored.items()):
            if key not in owned:
                continue
            rec = key[0]
            mine = [f for f in frees if f.name == rec + '_free' or any(x.get('k') == 'call' and x.get('fn') == rec + '_from_upipe' for _, _, x in f.nodes())]
            if not mine:
                continue        # not the private structure of a pipe of this unit
            # first stage of the tear-down of a bin pipe: drops the inner reference count when the last outside reference goes
            stage1 = []
            dead = u.funcs.get(rec + '_dead_urefcount')      # generated by UPIPE_HELPER_UREFCOUNT: calls the function the pipe registered
            if dead is not None and dead.blocks:
                stage1 = [u.funcs[x['fn']] for _, _, x in dead.nodes()
                          if x.get('k') == 'call' and x.get('fn') in u.funcs and u.funcs[x['fn']].blocks and not u.funcs[x['fn']].macro
                          and u.funcs[x['fn']] not in mine]
            stage1 += [f for f in u.funcs.values() if f.blocks and not f.macro and f not in mine and f not in stage1
                       and any(x.get('k') == 'call' and x.get('fn') == rec + '_to_urefcount_real' for _, _, x in f.nodes())
                       and any(x.get('k') == 'call' and x.get('fn') == 'urefcount_release' for _, _, x in f.nodes())]
            n += 1
            inst = '%s.%s' % key[:2]
            early = next((r for r in (freed(g, key, set()) for g in stage1) if r), None)
            bad = [] if early else [f for f in mine if not freed(f, key, set())]
            if bad and key[:2] in FIELD_FREE_OK:
                rep.add('R-field-free', inst, OOS, bad[0].loc, why='listed: ' + FIELD_FREE_OK[key[:2]])
            elif bad:
                o = owned[key][0]
                rep.add('R-field-free', inst, VIOLATED, bad[0].loc,
                        what='%s (line %s) fills the field %s and %s (line %s) calls %s for it, so the pipe owns it; %s, which frees this pipe, never '
                             'gives it up: whatever the field holds when the pipe goes is leaked'
                             % (sites[0][0].name, sites[0][1].get('l'), inst, o[0].name, o[1].get('l'), o[1].get('fn'), bad[0].name))
            else:
                rep.add('R-field-free', inst, HOLDS, mine[0].loc, released_by=early or freed(mine[0], key, set()))
    return n


def check_borrowed_arg(rep, prog):
    """what a control command passes as an argument stays the caller's"""
    from upv import own as own_
    rep.rule('R-borrowed-arg', 'every function with the signature of a control dispatcher (pipe, int command, va_list) or of an event catcher (probe, pipe, int event, va_list): a struct uref * / struct ubuf * it extracts '
             'from the argument list belongs to the caller (upipe.h / uprobe.h: control and event arguments are borrowed) - each call it is passed to must borrow it too, as decided by '
             'the ownership engine on the callee body (summary with the argument owned: no exit on which it was freed, sent on or kept). A callee that frees or '
             'keeps it makes the caller free a second time. Listed exceptions: the two commands documented as taking the buffer over')
    inputs = ownrule.input_functions(prog)
    W = own_.Own(prog, inputs, {})
    n = 0
    for uname, u in sorted(prog.units.items()):
        for fn in sorted(u.funcs.values(), key=lambda f: f.name):
            # control dispatchers (pipe, command, args) and event catchers (probe, pipe, event, args); not the call-backs of
            # requests (urequest, args), whose arguments belong to the callee
            if not fn.blocks or not fn.params or 'va_list' not in fn.params[-1]['t'] or len(fn.params) < 3 or fn.params[-2]['t'] != 'int':
                continue
            born, other = set(), set()
            for _, _, x in fn.nodes():
                if x.get('k') == 'decl':
                    for v in x['vars']:
                        i = strip_all_casts(v['init']) if isinstance(v.get('init'), dict) else None
                        if isinstance(i, dict) and i.get('k') == 'va_arg' and v.get('t') in own_.TRACKED_TYPES:
                            born.add(v['n'])
                        else:
                            other.add(v['n'])
                elif is_assign(x):
                    l = strip(x['lhs'])
                    if isinstance(l, dict) and l.get('k') == 'ref':
                        other.add(l['n'])
            born -= other
            if not born:
                continue
            for _, _, x in fn.nodes():
                if x.get('k') != 'call' or not x.get('fn'):
                    continue
                for i, a in enumerate(x.get('args', [])):
                    a0 = strip_all_casts(a)
                    if not (isinstance(a0, dict) and a0.get('k') == 'ref' and a0.get('n') in born):
                        continue
                    act = W.action(u, x['fn'], i)
                    inst = '%s:%s(%s)' % (fn.name, x['fn'], a0['n'])
                    n += 1
                    if not isinstance(act, frozenset):
                        rep.add('R-borrowed-arg', inst, UNDECIDED, '%s:%s' % (fn.file, x.get('l')), why='callee outcome: %s' % act)
                    elif any(at in ('C', 'K') for at, _ in act):
                        if x['fn'] in BORROWED_ARG_OK:
                            rep.add('R-borrowed-arg', inst, OOS, '%s:%s' % (fn.file, x.get('l')), why='listed: ' + BORROWED_ARG_OK[x['fn']])
                        else:
                            rep.add('R-borrowed-arg', inst, VIOLATED, '%s:%s' % (fn.file, x.get('l')),
                                    what='%s passes the %s it took from the control arguments (%s) to %s, which on some path frees it, sends it on or keeps it '
                                         '(outcomes %s): control arguments belong to the caller, who frees the same object again'
                                         % (fn.name, a0.get('t'), a0['n'], x['fn'], sorted(map(str, act))))
                    else:
                        rep.add('R-borrowed-arg', inst, HOLDS, '%s:%s' % (fn.file, x.get('l')))
    return n


def check_probe_once(rep, prog):
    """a probe handed to an allocator is the allocator's: the caller does not release it as well"""
    rep.rule('R-probe-once', 'in every function with a struct uprobe * parameter: once the parameter has been passed to a pipe allocator (upipe_X_alloc.., to which the '
             'probe belongs and which releases it when it fails), no uprobe_release of that parameter is reachable - it would take away a reference another '
             'holder counts on. The wrappers generated by UPIPE_HELPER_ALLOC (alloc_output, alloc_input, the _sub forms) are siblings and must agree')
    ALLOC = re.compile(r'^_?upipe_\w*alloc\w*$')
    n = 0
    units = list(prog.units.values()) + ([prog.hdr] if prog.hdr else [])
    for u in units:
        for fn in sorted(u.funcs.values(), key=lambda f: f.name):
            if not fn.blocks:
                continue
            for P in [p_['n'] for p_ in fn.params if p_['t'] == 'struct uprobe *']:
                def isP(a, P=P):
                    a = strip_all_casts(a)
                    return isinstance(a, dict) and a.get('k') == 'ref' and a.get('n') == P and a.get('d') == 'param'

                def give(n_):
                    return n_.get('k') == 'call' and n_.get('fn') and ALLOC.match(n_['fn']) and any(isP(a) for a in n_.get('args', []))

                def rel(n_):
                    return n_.get('k') == 'call' and n_.get('fn') == 'uprobe_release' and n_.get('args') and isP(n_['args'][0])
                ev = pr.Events(fn)
                for pos in ev.find(give):
                    n += 1
                    hits, _ = ev.reach((pos[0], pos[1]), rel, lambda n_: False)
                    inst = '%s:%s(%s)' % (fn.name, pos[2]['fn'], P)
                    if hits:
                        rep.add('R-probe-once', inst, VIOLATED, '%s:%s' % (fn.file, hits[0][2].get('l')),
                                what='%s hands its probe to %s (line %s) and can then release it itself (line %s): the allocator has released it already when it '
                                     'fails, the probe loses a reference that is not this function\'s' % (fn.name, pos[2]['fn'], pos[2].get('l'), hits[0][2].get('l')))
                    else:
                        rep.add('R-probe-once', inst, HOLDS, fn.loc)
    return n


def run(tier='quick', repo=None):
    repo = repo or facts.REPO
    rep = Report(PROP, tier)
    rep.explanation = (
        'Decides necessary conditions of C01 on all CFG paths of every function parsed: R-own (each owned uref/ubuf is exactly once freed, '
        'handed on, returned or kept; never read after; never freed twice; explicit-state typestate exploration with computed callee '
        'outcome sets), R-pair (helper init/clean pairing per pipe type), R-dangle (a field whose object was released is overwritten or '
        'its container torn down on every path), R-core (ordering obligations on urefcount_release, upipe_input/control brackets, uref_free, '
        'pump dispatch, the mem managers\' free functions and the generated set_output/clean_output/clean_input/clean_uref_stream). '
        'Does not decide leak-freedom of arbitrary compositions over histories, manager refcounts after teardown, or anything that depends on '
        'list contents at run time; allocation-failure paths are out of scope.')
    prog = load(tier, repo, rep)
    ownrule.run_own(rep, prog)
    check_pair(rep, prog)
    check_dangle(rep, prog)
    check_core(rep, prog)
    check_holdpin(rep, prog)
    check_own_pipe(rep, prog)
    check_use_then_fail(rep, prog)
    npo = check_probe_once(rep, prog)
    if npo < 100:
        raise facts.AnalysisBroken('R-probe-once found only %d probes handed to allocators' % npo)
    nld = check_list_drain(rep, prog)
    if nld < (10 if tier == 'thorough' else 8):
        raise facts.AnalysisBroken('R-list-drain found only %d uref lists' % nld)
    nff = check_field_free(rep, prog)
    if nff < (350 if tier == 'thorough' else 250):
        raise facts.AnalysisBroken('R-field-free found only %d owned fields' % nff)
    nba = check_borrowed_arg(rep, prog)
    if nba < (100 if tier == 'thorough' else 60):
        raise facts.AnalysisBroken('R-borrowed-arg found only %d uses of borrowed control arguments' % nba)
    from upv import provide
    nprov = provide.run(rep, prog)
    if nprov < 30:
        raise facts.AnalysisBroken('R-provide found only %d provider call-backs' % nprov)
    # the tail hint of segmented blocks never keeps pointing at freed segments
    # (path rule shared with C03 R-cache-end: a dangling cached_end_ubuf is a use after free on the next append)
    from rules import c03
    sub = c03.run(tier=tier, repo=repo, model=False)
    for o in sub.obs:
        if o.rule == 'R-cache-end':
            rep.add('R-core', 'block-tail-hint:' + o.instance, o.status, o.loc, **o.detail)
    rep.assumptions = [
        'ownership contract of the public API as frozen in coverage.tables.consumer_table (from doc/rules.mkdoc and header comments)',
        'functions without a body in the analysed units: core library API borrows; module APIs of other units make the verdict undecided',
        'violations only on allocation-failure paths or on failure branches of calls whose failure is not input dependent are reported as out-of-scope observations',
    ]
    return rep
