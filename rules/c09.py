"""C09 - a reference count runs its destructor exactly once under races.

R-elect, R-seqcst, R-atomic: the premises of the standard argument
(DESIGN §4 C09)."""
import re

from upv import facts
from upv import pathrules as pr
from upv.facts import strip, strip_all_casts, strip_expect, walk, children, is_assign, is_incdec, const_of, enum_name, path_of
from upv.report import Report, HOLDS, VIOLATED, UNDECIDED, OOS
from rules.c20 import list_units
from rules import c01, c02

PROP = 'C09'

ATOMIC_TYPES = ('uatomic_uint32_t', 'uatomic_ptr_t')
# which uatomic operation each function may apply to a reference counter
COUNTER_OPS = {
    ('urefcount', 'refcount'): {
        'urefcount_init': {'uatomic_init'},
        'urefcount_reset': {'uatomic_store'},
        'urefcount_use': {'uatomic_fetch_add'},
        'urefcount_release': {'uatomic_fetch_sub'},
        'urefcount_single': {'uatomic_load'},
        'urefcount_dead': {'uatomic_load'},
        'urefcount_clean': {'uatomic_clean'},
    },
    ('ubuf_mem_shared', 'refcount'): {
        'ubuf_mem_shared_use': {'uatomic_fetch_add'},
        'ubuf_mem_shared_release': {'uatomic_fetch_sub'},
        'ubuf_mem_shared_single': {'uatomic_load'},
    },
}
# allocation / recycling functions of the shared areas (reset the counter
# before the area is visible to anyone): name pattern -> allowed ops
SHARED_INIT_RE = re.compile(r'(_shared_alloc_pool|_shared_alloc_inner|_shared_free_inner|_shared_free_pool|ubuf_mem_shared_alloc\w*|ubuf_mem_shared_free\w*)$')
SHARED_INIT_OPS = {'uatomic_init', 'uatomic_store', 'uatomic_clean'}


def counter_of(arg):
    """(rec, field) if arg is &X->refcount of a known counter"""
    a = strip_all_casts(arg)
    if isinstance(a, dict) and a.get('k') == 'un' and a.get('op') == '&':
        m = strip_all_casts(a.get('e'))
        if isinstance(m, dict) and m.get('k') == 'mem' and (m.get('rec'), m.get('f')) in COUNTER_OPS:
            return (m['rec'], m['f'])
    return None



# ---- R-race: interleaved product of the counter operations (upv.conc) ----------------------

def _race_job(job):
    """one configuration: n threads, each holding one reference, doing k use/release pairs then its final release"""
    import time
    from upv import conc
    from upv.absint import Finding, Undecided
    from rules import c07
    repo, kind, progs = job
    prog = c07._prog(repo)
    H = prog.hdr
    R = ('obj', 'rc')
    t0 = time.time()

    class M(conc.RingMachine):
        INTERP_PREFIX = ('urefcount_', 'ubuf_mem_shared_')
        SHARED_PLAIN = (('urefcount', 'cb'),)
        CALLBACKS = {('cb', 'dtor'): 'dtor'}
    n = len(progs)
    name = '%s:%s' % (kind, '|'.join(progs))
    res = {'name': name, 'status': HOLDS}
    try:
        sh = conc.Shared(0)
        m = M(prog, H, sh)
        if kind == 'urefcount':
            use, rel = 'urefcount_use', 'urefcount_release'
            m.run_ops([('urefcount_init', [R, ('cb', 'dtor')])] + [(use, [R])] * (n - 1))
            cell = ('addr', 'field', R, 'urefcount', 'refcount')
        else:
            use, rel = 'ubuf_mem_shared_use', 'ubuf_mem_shared_release'
            cell = ('addr', 'field', R, 'ubuf_mem_shared', 'refcount')
            sh.cells[cell] = n
        if sh.cells.get(cell) != n:
            raise Undecided('set-up: counter is %r, expected %d' % (sh.cells.get(cell), n))
        threads = [[{'U': (use, [R]), 'R': (rel, [R])}[c] for c in p] for p in progs]
        ex = conc.Explorer(prog, H, sh, threads, machine_cls=M, max_states=300000)
        bad = []

        def done(infos, fm, shf):
            if bad:
                return
            ndt = shf.cells.get(('event', 'dtor'), 0)
            final_start = [inf.results[-1][2] for inf in infos]          # first access of each thread's last operation
            if kind == 'urefcount':
                if ndt != 1:
                    bad.append('the destructor runs %d times after every reference was released (final counter %r)' % (ndt, shf.cells.get(cell)))
                    return
                tdt = [a[0] for inf in infos for a in inf.machine.log if a[2] == 'event']
                if tdt and any(fs is None or tdt[0] < fs for fs in final_start):
                    bad.append('the destructor runs before a holder has started its final release')
            else:
                trues = [(t, inf.results[-1]) for t, inf in enumerate(infos) if inf.results[-1][1] == 1]
                if len(trues) != 1:
                    bad.append('%d holders are told they were the last one (final counter %r): the area is returned %s' % (
                        len(trues), shf.cells.get(cell), 'never' if not trues else 'more than once'))
                    return
                # the elected holder's decrement is the last decrement of all
                t_el = trues[0][1][3]
                others = [inf.results[-1][2] for t, inf in enumerate(infos) if t != trues[0][0]]
                if any(o is None or o > t_el for o in others):
                    bad.append('a holder is told it was the last one while another holder has not yet released')
            if not bad and shf.cells.get(cell) != 0:
                bad.append('final counter is %r, expected 0' % shf.cells.get(cell))
        ex.deadline = time.time() + 120
        ex.explore(done)
        res.update(states=ex.states, transitions=ex.transitions, executions=ex.executions)
        if bad:
            res['status'] = VIOLATED
            res['what'] = 'under some interleaving of %s: %s' % (' | '.join(progs), bad[0])
    except Finding as f:
        res['status'] = VIOLATED
        res['what'] = 'under some interleaving: %s' % f
    except Undecided as u:
        res['status'] = UNDECIDED
        res['why'] = str(u)
    res['wall'] = round(time.time() - t0, 2)
    return res


def check_race(rep, repo, tier):
    import multiprocessing
    import os
    rep.rule('R-race', 'interleaved product of the CFGs of urefcount_use / urefcount_release (resp. ubuf_mem_shared_use / _release) and of the uatomic_* '
             'functions they call, down to the __atomic builtins: n threads each hold one reference and run use / release pairs (U R) followed by their '
             'final release (R); every access to the counter word or to urefcount.cb is a scheduling point; in every terminal state the destructor has run '
             'exactly once (exactly one holder was told it is the last), not before every holder had started its final release, and the counter is 0')
    progs = [('R', 'R'), ('UR' + 'R', 'R'), ('URR', 'URR'), ('R', 'R', 'R'), ('URR', 'R', 'R')]
    if tier == 'thorough':
        progs += [('URURR', 'URR'), ('URR', 'URR', 'R'), ('URR', 'URR', 'URR'), ('R', 'R', 'R', 'R')]
    jobs = [(repo, kind, p) for kind in ('urefcount', 'ubuf_mem_shared') for p in progs]
    from rules import c07
    c07._prog(repo)        # extract once, before the workers are forked
    with multiprocessing.Pool(min(16, os.cpu_count() or 4)) as pool:
        out = pool.map(_race_job, jobs, chunksize=1)
    tot = {'states': 0, 'transitions': 0, 'executions': 0}
    for r in out:
        for k in tot:
            tot[k] += r.get(k, 0)
        rep.add('R-race', r['name'], r['status'], 'include/upipe/urefcount.h' if r['name'].startswith('urefcount') else 'include/upipe/ubuf_mem_common.h',
                **{k: r[k] for k in ('what', 'why', 'states', 'executions', 'wall') if k in r})
    rep.tables['R-race'] = dict(tot, configurations=len(out))
    rep.extra_cov = {'states': tot['states'], 'transitions': tot['transitions']}


def run(tier='quick', repo=None):
    repo = repo or facts.REPO
    rep = Report(PROP, tier)
    rep.explanation = (
        'Decides the three premises of the usual argument for "exactly one thread destroys, after the last release": R-elect (the destructor / '
        'area free is reached only under fetch_sub(...) == 1 on the full-width counter; acquisition is an unconditional atomic increment on every '
        'path that hands out the reference; each function applies to the counters only the operation listed for it - no compare-exchange, no '
        'plain store outside init/reset), R-seqcst (every uatomic_* operation is an __atomic builtin with __ATOMIC_SEQ_CST for all orders), '
        'R-atomic (no object declared uatomic_uint32_t / uatomic_ptr_t is read or written except through uatomic_*). The conclusion itself '
        '(uniqueness of the thread that sees 1) is the one-line argument from these premises; it is stated, not mechanised.')
    dirs = ['lib/upipe', 'lib/upipe-modules'] if tier == 'quick' else ['lib/upipe', 'lib/upipe-modules', 'lib/upipe-filters', 'lib/upipe-pthread', 'lib/upump-ev']
    prog = c01.load(tier, repo, rep, quick=dirs, thorough=dirs, stub=None)
    H = prog.hdr
    rep.rule('R-elect', 'see instance names')
    rep.rule('R-seqcst', 'every atomic builtin inside a uatomic_* function has memory order __ATOMIC_SEQ_CST (5) for every order operand')
    rep.rule('R-atomic', 'an lvalue of declared type uatomic_uint32_t / uatomic_ptr_t occurs only as &lvalue argument of a uatomic_* call')
    for n in ('urefcount_use', 'urefcount_release', 'ubuf_mem_shared_use', 'ubuf_mem_shared_release', 'uatomic_fetch_sub', 'uatomic_fetch_add'):
        if n not in H.funcs:
            raise facts.AnalysisBroken('anchor vanished: %s' % n)
    # ---- R-elect -----------------------------------------------------------
    c02.check_compare_one(rep, H.funcs['ubuf_mem_shared_release'], 'uatomic_fetch_sub', 'R-elect', 'ubuf_mem_shared_release:returns-fetch_sub==1',
                          'ubuf_mem_shared_release must return uatomic_fetch_sub(&shared->refcount, 1) == 1 on the full-width value')
    # destructor election in urefcount_release and area free in the managers: shared with C01 R-core
    sub = Report('tmp', tier)
    c01.check_core(sub, prog)
    for o in sub.obs:
        if o.instance.startswith('urefcount_release:') or 'area-freed-only-by-last-holder' in o.instance:
            rep.add('R-elect', o.instance, o.status, o.loc, **o.detail)
    # acquisition: unconditional increment before the reference is handed out
    for fname, counter in (('urefcount_use', 'refcount'), ('ubuf_mem_shared_use', 'refcount')):
        fn = H.funcs[fname]
        ev = pr.Events(fn)

        def inc(n):
            return n.get('k') == 'call' and n.get('fn') == 'uatomic_fetch_add' and n.get('args') and counter_of(n['args'][0]) is not None and const_of(n['args'][1]) == 1

        def ret_ref(n):
            return n.get('k') == 'return' and isinstance(n.get('e'), dict) and const_of(n['e']) != 0
        ok = bool(ev.find(inc)) and bool(ev.find(ret_ref)) and not pr.must_precede(ev, inc, ret_ref)
        rep.add('R-elect', '%s:increment-on-every-granting-path' % fname, HOLDS if ok else VIOLATED, fn.loc,
                **({} if ok else {'what': '%s can return the reference without an unconditional uatomic_fetch_add(&...->refcount, 1): a lost increment lets the destructor run while the reference is held' % fname}))
    # who applies which operation to the counters
    rep.tables['counter_ops'] = {'%s.%s' % k: {f: sorted(v) for f, v in d.items()} for k, d in COUNTER_OPS.items()}
    units = list(prog.units.items()) + [('headers', H)]
    nsites = 0
    for uname, u in units:
        for fn in u.funcs.values():
            for bid, s, x in fn.calls():
                if not (x.get('fn') or '').startswith('uatomic_') or not x.get('args'):
                    continue
                c = counter_of(x['args'][0])
                if c is None:
                    continue
                nsites += 1
                allowed = COUNTER_OPS[c].get(fn.name)
                if allowed is None and c[0] == 'ubuf_mem_shared' and SHARED_INIT_RE.search(fn.name):
                    allowed = SHARED_INIT_OPS
                inst = '%s:%s(%s.%s)' % (fn.name, x['fn'], c[0], c[1])
                if x['fn'] == 'uatomic_load':
                    rep.add('R-elect', inst, HOLDS, '%s:%s' % (fn.file, x.get('l')), note='read-only')
                elif allowed is None or x['fn'] not in allowed:
                    rep.add('R-elect', inst, VIOLATED, '%s:%s' % (fn.file, x.get('l')),
                            what='%s applies %s to the reference counter %s.%s; allowed here: %s' % (fn.name, x['fn'], c[0], c[1], sorted(allowed) if allowed else 'nothing'))
                else:
                    rep.add('R-elect', inst, HOLDS, '%s:%s' % (fn.file, x.get('l')))
    if nsites < 8:
        raise facts.AnalysisBroken('only %d counter operation sites found' % nsites)
    # ---- R-seqcst ----------------------------------------------------------
    nat = 0
    for name, fn in sorted(H.funcs.items()):
        if not name.startswith('uatomic_'):
            continue
        for bid, s, x in fn.nodes():
            if x.get('k') != 'atomic':
                continue
            nat += 1
            idx = [1, 3] if 'compare_exchange' in x.get('op', '') else [1]
            orders = [const_of(x['args'][i]) if i < len(x['args']) else None for i in idx]
            ok = all(o == 5 for o in orders)
            rep.add('R-seqcst', '%s:%s' % (name, x.get('op')), HOLDS if ok else VIOLATED, '%s:%s' % (fn.file, x.get('l')),
                    **({'orders': orders} if ok else {'what': 'memory order operands %s are not all __ATOMIC_SEQ_CST (5)' % orders}))
    if nat < 8:
        raise facts.AnalysisBroken('only %d atomic builtins found in uatomic.h (HAVE_ATOMIC_OPS branch expected)' % nat)
    # ---- R-atomic ----------------------------------------------------------
    nocc = 0
    bad = []
    for uname, u in units:
        for fn in u.funcs.values():
            if fn.name.startswith('uatomic_'):
                continue
            for bid, st in fn.all_stmts():
                stack = [(st, None, None)]
                while stack:
                    n, parent, gparent = stack.pop()
                    if not isinstance(n, dict):
                        continue
                    if n.get('k') in ('mem', 'ref', 'idx') and n.get('t') in ATOMIC_TYPES:
                        nocc += 1
                        okp = isinstance(parent, dict) and parent.get('k') == 'un' and parent.get('op') == '&'
                        if not okp:
                            bad.append((fn, n))
                    for c in children(n):
                        stack.append((c, n, parent))
    seen = set()
    for fn, n in bad:
        inst = '%s:%s' % (fn.name, path_of(n) or n.get('f') or n.get('n'))
        if inst in seen:
            continue
        seen.add(inst)
        rep.add('R-atomic', inst, VIOLATED, '%s:%s' % (fn.file, n.get('l')),
                what='object of type %s accessed directly (not through uatomic_*)' % n.get('t'))
    rep.add('R-atomic', 'all-units', HOLDS if not bad else VIOLATED, None, occurrences=nocc, **({} if not bad else {'what': '%d direct accesses' % len(bad)}))
    check_race(rep, repo, tier)
    rep.assumptions = ['the HAVE_ATOMIC_OPS branch of uatomic.h is the one compiled (config.h of the tree)',
                       'callers respect "a release matches an acquisition made while holding a reference" (not decided)']
    return rep
