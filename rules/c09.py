"""C09 - a reference count runs its destructor exactly once under races.

R-elect, R-seqcst, R-atomic: the premises of the standard argument
(DESIGN §4 C09)."""
import re

from upv import facts
from upv import pathrules as pr
from upv.facts import strip, strip_all_casts, strip_expect, walk, children, is_assign, is_incdec, const_of, enum_name, path_of
from upv.report import Report, HOLDS, VIOLATED, UNDECIDED, OOS
from rules.c20 import list_units
from rules import c01, c02

PROP = 'C09'

ATOMIC_TYPES = ('uatomic_uint32_t', 'uatomic_ptr_t')
# which uatomic operation each function may apply to a reference counter
COUNTER_OPS = {
    ('urefcount', 'refcount'): {
        'urefcount_init': {'uatomic_init'},
        'urefcount_reset': {'uatomic_store'},
        'urefcount_use': {'uatomic_fetch_add'},
        'urefcount_release': {'uatomic_fetch_sub'},
        'urefcount_single': {'uatomic_load'},
        'urefcount_dead': {'uatomic_load'},
        'urefcount_clean': {'uatomic_clean'},
    },
    ('ubuf_mem_shared', 'refcount'): {
        'ubuf_mem_shared_use': {'uatomic_fetch_add'},
        'ubuf_mem_shared_release': {'uatomic_fetch_sub'},
        'ubuf_mem_shared_single': {'uatomic_load'},
    },
}
# allocation / recycling functions of the shared areas (reset the counter
# before the area is visible to anyone): name pattern -> allowed ops
SHARED_INIT_RE = re.compile(r'(_shared_alloc_pool|_shared_alloc_inner|_shared_free_inner|_shared_free_pool|ubuf_mem_shared_alloc\w*|ubuf_mem_shared_free\w*)$')
SHARED_INIT_OPS = {'uatomic_init', 'uatomic_store', 'uatomic_clean'}


def counter_of(arg):
    """(rec, field) if arg is &X->refcount of a known counter"""
    a = strip_all_casts(arg)
    if isinstance(a, dict) and a.get('k') == 'un' and a.get('op') == '&':
        m = strip_all_casts(a.get('e'))
        if isinstance(m, dict) and m.get('k') == 'mem' and (m.get('rec'), m.get('f')) in COUNTER_OPS:
            return (m['rec'], m['f'])
    return None



# ---- R-race: interleaved product of the counter operations (upv.conc) ----------------------

def _race_job(job):
    """one configuration: n threads, each holding one reference, doing k use/release pairs then its final release"""
    import time
    from upv import conc
    from upv.absint import Finding, Undecided
    from rules import c07
    repo, kind, progs = job
    prog = c07._prog(repo)
    H = prog.hdr
    R = ('obj', 'rc')
    t0 = time.time()

    class M(conc.RingMachine):
        INTERP_PREFIX = ('urefcount_', 'ubuf_mem_shared_')
        SHARED_PLAIN = (('urefcount', 'cb'),)
        CALLBACKS = {('cb', 'dtor'): 'dtor'}
    n = len(progs)
    name = '%s:%s' % (kind, '|'.join(progs))
    res = {'name': name, 'status': HOLDS}
    try:
        sh = conc.Shared(0)
        m = M(prog, H, sh)
        if kind == 'urefcount':
            use, rel = 'urefcount_use', 'urefcount_release'
            m.run_ops([('urefcount_init', [R, ('cb', 'dtor')])] + [(use, [R])] * (n - 1))
            cell = ('addr', 'field', R, 'urefcount', 'refcount')
        else:
            use, rel = 'ubuf_mem_shared_use', 'ubuf_mem_shared_release'
            cell = ('addr', 'field', R, 'ubuf_mem_shared', 'refcount')
            sh.cells[cell] = n
        if sh.cells.get(cell) != n:
            raise Undecided('set-up: counter is %r, expected %d' % (sh.cells.get(cell), n))
        threads = [[{'U': (use, [R]), 'R': (rel, [R])}[c] for c in p] for p in progs]
        ex = conc.Explorer(prog, H, sh, threads, machine_cls=M, max_states=300000)
        bad = []

        def done(infos, fm, shf):
            if bad:
                return
            ndt = shf.cells.get(('event', 'dtor'), 0)
            final_start = [inf.results[-1][2] for inf in infos]          # first access of each thread's last operation
            if kind == 'urefcount':
                if ndt != 1:
                    bad.append('the destructor runs %d times after every reference was released (final counter %r)' % (ndt, shf.cells.get(cell)))
                    return
                tdt = [a[0] for inf in infos for a in inf.machine.log if a[2] == 'event']
                if tdt and any(fs is None or tdt[0] < fs for fs in final_start):
                    bad.append('the destructor runs before a holder has started its final release')
            else:
                trues = [(t, inf.results[-1]) for t, inf in enumerate(infos) if inf.results[-1][1] == 1]
                if len(trues) != 1:
                    bad.append('%d holders are told they were the last one (final counter %r): the area is returned %s' % (
                        len(trues), shf.cells.get(cell), 'never' if not trues else 'more than once'))
                    return
                # the elected holder's decrement is the last decrement of all
                t_el = trues[0][1][3]
                others = [inf.results[-1][2] for t, inf in enumerate(infos) if t != trues[0][0]]
                if any(o is None or o > t_el for o in others):
                    bad.append('a holder is told it was the last one while another holder has not yet released')
            if not bad and shf.cells.get(cell) != 0:
                bad.append('final counter is %r, expected 0' % shf.cells.get(cell))
        ex.deadline = time.time() + 120
        ex.explore(done)
        res.update(states=ex.states, transitions=ex.transitions, executions=ex.executions)
        if bad:
            res['status'] = VIOLATED
            res['what'] = 'under some interleaving of %s: %s' % (' | '.join(progs), bad[0])
    except Finding as f:
        res['status'] = VIOLATED
        res['what'] = 'under some interleaving: %s' % f
    except Undecided as u:
        res['status'] = UNDECIDED
        res['why'] = str(u)
    res['wall'] = round(time.time() - t0, 2)
    return res


def check_race(rep, repo, tier):
    import multiprocessing
    import os
    rep.rule('R-race', 'interleaved product of the CFGs of urefcount_use / urefcount_release (resp. ubuf_mem_shared_use / _release) and of the uatomic_* '
             'functions they call, down to the __atomic builtins: n threads each hold one reference and run use / release pairs (U R) followed by their '
             'final release (R); every access to the counter word or to urefcount.cb is a scheduling point; in every terminal state the destructor has run '
             'exactly once (exactly one holder was told it is the last), not before every holder had started its final release, and the counter is 0')
    progs = [('R', 'R'), ('UR' + 'R', 'R'), ('URR', 'URR'), ('R', 'R', 'R'), ('URR', 'R', 'R')]
    if tier == 'thorough':
        progs += [('URURR', 'URR'), ('URR', 'URR', 'R'), ('URR', 'URR', 'URR'), ('R', 'R', 'R', 'R')]
    jobs = [(repo, kind, p) for kind in ('urefcount', 'ubuf_mem_shared') for p in progs]
    from rules import c07
    c07._prog(repo)        # extract once, before the workers are forked
    with multiprocessing.Pool(min(16, os.cpu_count() or 4)) as pool:
        out = pool.map(_race_job, jobs, chunksize=1)
    tot = {'states': 0, 'transitions': 0, 'executions': 0}
    for r in out:
        for k in tot:
            tot[k] += r.get(k, 0)
        rep.add('R-race', r['name'], r['status'], 'include/upipe/urefcount.h' if r['name'].startswith('urefcount') else 'include/upipe/ubuf_mem_common.h',
                **{k: r[k] for k in ('what', 'why', 'states', 'executions', 'wall') if k in r})
    rep.tables['R-race'] = dict(tot, configurations=len(out))
    rep.extra_cov = {'states': tot['states'], 'transitions': tot['transitions']}



REF_FIELD_T = re.compile(r'struct (ubuf_mgr|uref_mgr|udict_mgr|umem_mgr|uclock|upump_mgr|uprobe|upipe|upipe_mgr|uref|ubuf|urequest) \*')
RELEASE_FN = re.compile(r'(_release|_free)$')


def check_container(rep, prog):
    """a heap structure that is freed by the function that filled it gives back, through its own field (or the variable
    the field was filled from), every counted reference it was given"""
    rep.rule('R-container', 'a function that allocates a structure (malloc / calloc into a local X), stores a counted reference into X->F (a local variable or the '
             'result of a _use / _alloc / _dup call; manager, clock, probe, pipe, uref, ubuf, request types) and later frees X: on every path from the store '
             'to free(X) the reference is released through X->F or through that variable - unless free(X) sits on the arm where X->F was just found NULL. '
             'The retry path of a lock-free insertion (uprobe_ubuf_mem_pool: the loser of the compare-exchange frees its element) is such a path: releasing '
             'through another element there drops a reference the winner still counts on and keeps the loser\'s manager alive for ever')
    n = 0
    for uname, u in sorted(prog.units.items()):
        for fn in sorted(u.funcs.values(), key=lambda f: f.name):
            if not fn.blocks or not fn.inmain:
                continue
            frees = [x for _, _, x in fn.nodes() if x.get('k') == 'call' and x.get('fn') == 'free' and x.get('args')]
            if not frees:
                continue
            ev = None
            for fr in frees:
                a = strip_all_casts(fn.resolve(fr['args'][0]))
                if not (isinstance(a, dict) and a.get('k') == 'ref' and a.get('d') != 'param'):
                    continue
                X = a['n']

                def from_malloc(e):
                    return isinstance(e, dict) and any(z.get('k') == 'call' and z.get('fn') in ('malloc', 'calloc') for z in walk(e))
                alloc = False
                for _, _, y in fn.nodes():
                    if is_assign(y) and isinstance(strip(y['lhs']), dict) and strip(y['lhs']).get('k') == 'ref' and strip(y['lhs']).get('n') == X and from_malloc(y['rhs']):
                        alloc = True
                    if y.get('k') == 'decl' and any(v['n'] == X and from_malloc(v.get('init')) for v in y.get('vars', [])):
                        alloc = True
                if not alloc:
                    continue
                ev = ev or pr.Events(fn)
                for _, _, st in fn.nodes():
                    if not is_assign(st) or st.get('op') != '=':
                        continue
                    l = strip(st['lhs'])
                    if not (isinstance(l, dict) and l.get('k') == 'mem' and l.get('arrow')):
                        continue
                    b = strip_all_casts(fn.resolve(l['b']))
                    if not (isinstance(b, dict) and b.get('k') == 'ref' and b.get('n') == X):
                        continue
                    if not REF_FIELD_T.search(str(l.get('t') or st.get('t') or '')):
                        continue
                    r = strip_all_casts(fn.resolve(st['rhs']))
                    vname = r.get('n') if isinstance(r, dict) and r.get('k') == 'ref' else None
                    iscall = isinstance(r, dict) and r.get('k') == 'call' and re.search(r'(_use|_alloc\w*|_dup)$', r.get('fn') or '')
                    if not (vname or iscall):
                        continue
                    F = l['f']

                    def field_of_x(e, F=F, X=X):
                        e = strip_all_casts(fn.resolve(e)) if isinstance(e, dict) else e
                        if isinstance(e, dict) and e.get('k') == 'mem' and e.get('f') == F:
                            bb = strip_all_casts(fn.resolve(e['b']))
                            return isinstance(bb, dict) and bb.get('k') == 'ref' and bb.get('n') == X
                        return False

                    def rel(n_, vname=vname):
                        if n_.get('k') != 'call' or not RELEASE_FN.search(n_.get('fn') or '') or not n_.get('args'):
                            return False
                        for a_ in n_['args']:
                            if field_of_x(a_):
                                return True
                            a0 = strip_all_casts(fn.resolve(a_))
                            if vname and isinstance(a0, dict) and a0.get('k') == 'ref' and a0.get('n') == vname:
                                return True
                        return False
                    pos = ev.find(lambda n_, st=st: n_ is st)
                    fpos = ev.find(lambda n_, fr=fr: n_ is fr)
                    if not pos or not fpos:
                        continue
                    hits, _ = ev.reach((pos[0][0], pos[0][1]), lambda n_, fr=fr: n_ is fr, rel)
                    if hits and vname:
                        # released through the variable after the structure is gone: just as good
                        def rel_var(n_, vname=vname):
                            if n_.get('k') != 'call' or not RELEASE_FN.search(n_.get('fn') or '') or not n_.get('args'):
                                return False
                            a0 = strip_all_casts(fn.resolve(n_['args'][0]))
                            return isinstance(a0, dict) and a0.get('k') == 'ref' and a0.get('n') == vname
                        _, ex = ev.reach((fpos[0][0], fpos[0][1]), lambda n_: False, rel_var)
                        if not ex:
                            hits = []
                    if hits:
                        # free(X) on the arm where X->F was found NULL: nothing to give back
                        def nulltest(ctree, pol):
                            c, neg = strip_expect(fn.resolve(ctree))
                            if isinstance(c, dict) and c.get('k') == 'bin' and c.get('op') in ('==', '!='):
                                for p_, q_ in ((c['lhs'], c['rhs']), (c['rhs'], c['lhs'])):
                                    if field_of_x(p_) and facts.is_null(strip_all_casts(fn.resolve(q_))):
                                        return (c['op'] == '==') == (pol != neg)
                            if field_of_x(c):
                                return pol == neg            # `!X->F` true, or `X->F` false
                            return False
                        if pr.control_dependent(fn, ev, fpos[0], nulltest):
                            hits = []
                    n += 1
                    rep.add('R-container', '%s:%s->%s@%s:free@%s' % (fn.name, X, F, st.get('l'), fr.get('l')), VIOLATED if hits else HOLDS,
                            '%s:%s' % (fn.file, fr.get('l')),
                            **({'what': '%s stores a counted reference into %s->%s (line %s) and frees %s (line %s) on a path that has not released it through %s->%s%s' % (
                                fn.name, X, F, st.get('l'), X, fr.get('l'), X, F, (' or ' + vname) if vname else '')} if hits else {}))
    if n < 5:
        raise facts.AnalysisBroken('R-container found only %d container sites' % n)



def check_publish(rep, repo):
    """the reference that keeps an object alive for a message to another thread exists before the message is visible"""
    from rules import c06
    rep.rule('R-publish', 'in the transfer / queue units: a function that both pushes a message on a queue read by another thread (uqueue_push) and takes a reference on '
             'the object the message is about (X_use_urefcount_real, X_use) takes the reference first on every path - once the message is visible the other thread '
             'may process it and drop what it believes to be the message\'s reference, running the destructor before the acquisition')
    prog = facts.load_program(c06.UNITS, repo=repo)
    n = 0
    for uname, u in sorted(prog.units.items()):
        for fn in sorted(u.funcs.values(), key=lambda f: f.name):
            if not fn.blocks or not fn.inmain:
                continue
            ev = pr.Events(fn)
            push = pr.m_call(r'uqueue_push')
            use = pr.m_call(r'\w+_use_urefcount_real|\w+_use')
            if not (ev.find(push) and ev.find(use)):
                continue
            n += 1
            bad = pr.never_after(ev, push, use)
            rep.add('R-publish', fn.name, VIOLATED if bad else HOLDS, fn.loc if not bad else '%s:%s' % (fn.file, bad[0][1][2].get('l')),
                    **({'what': '%s takes its reference (%s, line %s) after the message has been pushed (line %s)' % (
                        fn.name, bad[0][1][2].get('fn'), bad[0][1][2].get('l'), bad[0][0][2].get('l'))} if bad else {}))
    if n < 2:
        raise facts.AnalysisBroken('R-publish found only %d publishing functions' % n)



POOL_UNPINNED_OK = {'upump_blocker_pool': 'a blocker only exists while its pump does, and the pump (allocated from upump_pool, which pins) keeps the manager alive'}


def check_pool_pin(rep, prog):
    """objects handed out by a manager's pool keep the manager alive: upool_init is given the manager's refcount"""
    rep.rule('R-pool-pin', 'every upool_init of a manager passes the manager\'s refcount (an expression ending in ->refcount / .refcount), so that each object taken from '
             'the pool pins the manager until it is given back - in particular the shared-area descriptors of the buffer managers, which can outlive every buffer '
             'of their own manager once another manager\'s buffer points at the area; one listed exception')
    n = 0
    for uname, u in sorted(prog.units.items()):
        for fn in sorted(u.funcs.values(), key=lambda f: f.name):
            if not fn.blocks:
                continue
            for _, _, x in fn.nodes():
                if x.get('k') != 'call' or x.get('fn') != 'upool_init' or len(x.get('args', [])) < 2:
                    continue
                n += 1
                pool = next((y.get('f') for y in walk(fn.resolve(x['args'][0])) if isinstance(y, dict) and y.get('k') == 'mem'), '?')
                a = strip_all_casts(fn.resolve(x['args'][1]))
                pinned = isinstance(a, dict) and a.get('k') == 'mem' and a.get('f') == 'refcount'
                inst = '%s:%s' % (fn.name, pool)
                if pinned:
                    rep.add('R-pool-pin', inst, HOLDS, '%s:%s' % (fn.file, x.get('l')))
                elif pool in POOL_UNPINNED_OK:
                    rep.add('R-pool-pin', inst, OOS, '%s:%s' % (fn.file, x.get('l')), why='listed: ' + POOL_UNPINNED_OK[pool])
                else:
                    rep.add('R-pool-pin', inst, VIOLATED, '%s:%s' % (fn.file, x.get('l')),
                            what='%s initialises pool %s without the manager\'s refcount: objects taken from it do not keep the manager (and the allocator it holds) alive' % (fn.name, pool))
    if n < 6:
        raise facts.AnalysisBroken('R-pool-pin found only %d upool_init calls' % n)


def run(tier='quick', repo=None):
    repo = repo or facts.REPO
    rep = Report(PROP, tier)
    rep.explanation = (
        'Decides the three premises of the usual argument for "exactly one thread destroys, after the last release": R-elect (the destructor / '
        'area free is reached only under fetch_sub(...) == 1 on the full-width counter; acquisition is an unconditional atomic increment on every '
        'path that hands out the reference; each function applies to the counters only the operation listed for it - no compare-exchange, no '
        'plain store outside init/reset), R-seqcst (every uatomic_* operation is an __atomic builtin with __ATOMIC_SEQ_CST for all orders), '
        'R-atomic (no object declared uatomic_uint32_t / uatomic_ptr_t is read or written except through uatomic_*). The conclusion itself '
        '(uniqueness of the thread that sees 1) is the one-line argument from these premises; it is stated, not mechanised.')
    dirs = ['lib/upipe', 'lib/upipe-modules'] if tier == 'quick' else ['lib/upipe', 'lib/upipe-modules', 'lib/upipe-filters', 'lib/upipe-pthread', 'lib/upump-ev']
    prog = c01.load(tier, repo, rep, quick=dirs, thorough=dirs, stub=None)
    H = prog.hdr
    rep.rule('R-elect', 'see instance names')
    rep.rule('R-seqcst', 'every atomic builtin inside a uatomic_* function has memory order __ATOMIC_SEQ_CST (5) for every order operand')
    rep.rule('R-atomic', 'an lvalue of declared type uatomic_uint32_t / uatomic_ptr_t occurs only as &lvalue argument of a uatomic_* call')
    for n in ('urefcount_use', 'urefcount_release', 'ubuf_mem_shared_use', 'ubuf_mem_shared_release', 'uatomic_fetch_sub', 'uatomic_fetch_add'):
        if n not in H.funcs:
            raise facts.AnalysisBroken('anchor vanished: %s' % n)
    # ---- R-elect -----------------------------------------------------------
    c02.check_compare_one(rep, H.funcs['ubuf_mem_shared_release'], 'uatomic_fetch_sub', 'R-elect', 'ubuf_mem_shared_release:returns-fetch_sub==1',
                          'ubuf_mem_shared_release must return uatomic_fetch_sub(&shared->refcount, 1) == 1 on the full-width value')
    # destructor election in urefcount_release and area free in the managers: shared with C01 R-core
    sub = Report('tmp', tier)
    c01.check_core(sub, prog)
    for o in sub.obs:
        if o.instance.startswith('urefcount_release:') or 'area-freed-only-by-last-holder' in o.instance:
            rep.add('R-elect', o.instance, o.status, o.loc, **o.detail)
    # acquisition: unconditional increment before the reference is handed out
    for fname, counter in (('urefcount_use', 'refcount'), ('ubuf_mem_shared_use', 'refcount')):
        fn = H.funcs[fname]
        ev = pr.Events(fn)

        def inc(n):
            return n.get('k') == 'call' and n.get('fn') == 'uatomic_fetch_add' and n.get('args') and counter_of(n['args'][0]) is not None and const_of(n['args'][1]) == 1

        def ret_ref(n):
            return n.get('k') == 'return' and isinstance(n.get('e'), dict) and const_of(n['e']) != 0
        ok = bool(ev.find(inc)) and bool(ev.find(ret_ref)) and not pr.must_precede(ev, inc, ret_ref)
        rep.add('R-elect', '%s:increment-on-every-granting-path' % fname, HOLDS if ok else VIOLATED, fn.loc,
                **({} if ok else {'what': '%s can return the reference without an unconditional uatomic_fetch_add(&...->refcount, 1): a lost increment lets the destructor run while the reference is held' % fname}))
    # who applies which operation to the counters
    rep.tables['counter_ops'] = {'%s.%s' % k: {f: sorted(v) for f, v in d.items()} for k, d in COUNTER_OPS.items()}
    units = list(prog.units.items()) + [('headers', H)]
    nsites = 0
    for uname, u in units:
        for fn in u.funcs.values():
            for bid, s, x in fn.calls():
                if not (x.get('fn') or '').startswith('uatomic_') or not x.get('args'):
                    continue
                c = counter_of(x['args'][0])
                if c is None:
                    continue
                nsites += 1
                allowed = COUNTER_OPS[c].get(fn.name)
                if allowed is None and c[0] == 'ubuf_mem_shared' and SHARED_INIT_RE.search(fn.name):
                    allowed = SHARED_INIT_OPS
                inst = '%s:%s(%s.%s)' % (fn.name, x['fn'], c[0], c[1])
                if x['fn'] == 'uatomic_load':
                    rep.add('R-elect', inst, HOLDS, '%s:%s' % (fn.file, x.get('l')), note='read-only')
                elif allowed is None or x['fn'] not in allowed:
                    rep.add('R-elect', inst, VIOLATED, '%s:%s' % (fn.file, x.get('l')),
                            what='%s applies %s to the reference counter %s.%s; allowed here: %s' % (fn.name, x['fn'], c[0], c[1], sorted(allowed) if allowed else 'nothing'))
                else:
                    rep.add('R-elect', inst, HOLDS, '%s:%s' % (fn.file, x.get('l')))
    if nsites < 8:
        raise facts.AnalysisBroken('only %d counter operation sites found' % nsites)
    # ---- R-seqcst ----------------------------------------------------------
    nat = 0
    for name, fn in sorted(H.funcs.items()):
        if not name.startswith('uatomic_'):
            continue
        for bid, s, x in fn.nodes():
            if x.get('k') != 'atomic':
                continue
            nat += 1
            idx = [1, 3] if 'compare_exchange' in x.get('op', '') else [1]
            orders = [const_of(x['args'][i]) if i < len(x['args']) else None for i in idx]
            ok = all(o == 5 for o in orders)
            rep.add('R-seqcst', '%s:%s' % (name, x.get('op')), HOLDS if ok else VIOLATED, '%s:%s' % (fn.file, x.get('l')),
                    **({'orders': orders} if ok else {'what': 'memory order operands %s are not all __ATOMIC_SEQ_CST (5)' % orders}))
    if nat < 8:
        raise facts.AnalysisBroken('only %d atomic builtins found in uatomic.h (HAVE_ATOMIC_OPS branch expected)' % nat)
    # ---- R-atomic ----------------------------------------------------------
    nocc = 0
    bad = []
    for uname, u in units:
        for fn in u.funcs.values():
            if fn.name.startswith('uatomic_'):
                continue
            for bid, st in fn.all_stmts():
                stack = [(st, None, None)]
                while stack:
                    n, parent, gparent = stack.pop()
                    if not isinstance(n, dict):
                        continue
                    if n.get('k') in ('mem', 'ref', 'idx') and n.get('t') in ATOMIC_TYPES:
                        nocc += 1
                        okp = isinstance(parent, dict) and parent.get('k') == 'un' and parent.get('op') == '&'
                        if not okp:
                            bad.append((fn, n))
                    for c in children(n):
                        stack.append((c, n, parent))
    seen = set()
    for fn, n in bad:
        inst = '%s:%s' % (fn.name, path_of(n) or n.get('f') or n.get('n'))
        if inst in seen:
            continue
        seen.add(inst)
        rep.add('R-atomic', inst, VIOLATED, '%s:%s' % (fn.file, n.get('l')),
                what='object of type %s accessed directly (not through uatomic_*)' % n.get('t'))
    rep.add('R-atomic', 'all-units', HOLDS if not bad else VIOLATED, None, occurrences=nocc, **({} if not bad else {'what': '%d direct accesses' % len(bad)}))
    check_container(rep, prog)
    check_pool_pin(rep, prog)
    check_publish(rep, repo)
    check_race(rep, repo, tier)
    rep.assumptions = ['the HAVE_ATOMIC_OPS branch of uatomic.h is the one compiled (config.h of the tree)',
                       'callers respect "a release matches an acquisition made while holding a reference" (not decided)']
    return rep
